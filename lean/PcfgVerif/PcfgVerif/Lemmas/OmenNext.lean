import PcfgVerif.Lemmas.OmenFill
/-! `nextTree` rewritten top-down (`specNext`). -/
namespace Omen

def lsum (t : List Item) : Nat := (t.map (·.lvl)).sum

@[simp] theorem lsum_nil : lsum [] = 0 := rfl
@[simp] theorem lsum_cons (a : Item) (t : List Item) : lsum (a :: t) = a.lvl + lsum t := by
  simp [lsum]

/-- top-down reading of `nextTree`: successor of the tail if there is one, else re-choose the head -/
def Model.specNext (m : Model) : List Item → Option (List Item)
  | [] => none
  | [it] =>
    if it.idx + 1 < (m.chars it.ip it.lvl).length then some [{ it with idx := it.idx + 1 }] else none
  | it :: e :: t' =>
    match m.specNext (e :: t') with
    | some t'' => some (it :: t'')
    | none =>
      match m.descend it.ip e.ip (t'.length + 1) (lsum (e :: t') + it.lvl) (it.lvl + 1) it.lvl (it.idx + 1) with
      | some (l, i, t'') => some (⟨it.ip, l, i⟩ :: t'')
      | none => none

theorem specNext_append_some (m : Model) (U u' : List Item) (hU : U ≠ []) (h : m.specNext U = some u') :
    ∀ X : List Item, m.specNext (X ++ U) = some (X ++ u') := by
  intro X
  induction X with
  | nil => simpa using h
  | cons x X ih =>
    cases hXU : X ++ U with
    | nil => simp at hXU; exact absurd hXU.2 hU
    | cons e t' =>
      rw [List.cons_append, hXU, Model.specNext, ← hXU, ih]
      simp

theorem outer_eq_specNext (m : Model) :
    ∀ (below : List Item) (last e : Item) (B : List Item), m.specNext (e :: B) = none →
      m.outer (last :: below) e (B.length + 1) (lsum (e :: B) + last.lvl) =
        m.specNext (below.reverse ++ last :: e :: B) := by
  intro below
  induction below with
  | nil =>
    intro last e B hB
    rw [Model.outer]
    simp only [List.reverse_nil, List.nil_append]
    rw [Model.specNext, hB]
    cases m.descend last.ip e.ip (B.length + 1) (lsum (e :: B) + last.lvl) (last.lvl + 1) last.lvl (last.idx + 1) with
    | none => rfl
    | some r => obtain ⟨l, i, t⟩ := r; rfl
  | cons b below ih =>
    intro last e B hB
    rw [Model.outer]
    have hs : m.specNext (last :: e :: B) =
        match m.descend last.ip e.ip (B.length + 1) (lsum (e :: B) + last.lvl) (last.lvl + 1) last.lvl (last.idx + 1) with
        | some (l, i, t'') => some (⟨last.ip, l, i⟩ :: t'')
        | none => none := by
      rw [Model.specNext, hB]
    cases hd : m.descend last.ip e.ip (B.length + 1) (lsum (e :: B) + last.lvl) (last.lvl + 1) last.lvl (last.idx + 1) with
    | some r =>
      obtain ⟨l, i, t⟩ := r
      rw [hd] at hs
      simp only []
      rw [specNext_append_some m _ _ (by simp) hs]
      simp
    | none =>
      rw [hd] at hs
      simp only []
      have := ih b last (e :: B) hs
      simp only [List.length_cons, lsum_cons] at this ⊢
      rw [show e.lvl + lsum B + last.lvl + b.lvl = last.lvl + (e.lvl + lsum B) + b.lvl by omega, this]
      simp

theorem nextTree_eq_specNext (m : Model) (t : List Item) : m.nextTree t = m.specNext t := by
  obtain ⟨r, rfl⟩ : ∃ r, t = r.reverse := ⟨t.reverse, by simp⟩
  rw [Model.nextTree, List.reverse_reverse]
  cases r with
  | nil => rfl
  | cons last restRev =>
    simp only [List.reverse_cons]
    by_cases hc : last.idx + 1 < (m.chars last.ip last.lvl).length
    · have h1 : m.specNext [last] = some [{ last with idx := last.idx + 1 }] := by
        rw [Model.specNext]; simp [hc]
      rw [specNext_append_some m _ _ (by simp) h1]
      simp [hc]
    · have h1 : m.specNext [last] = none := by
        rw [Model.specNext]; simp [hc]
      simp only [hc, if_false]
      cases restRev with
      | nil => simpa using h1.symm
      | cons l2 below =>
        have := outer_eq_specNext m below l2 last [] h1
        simp only [List.length_nil, lsum_cons, lsum_nil, Nat.add_zero, Nat.zero_add] at this
        simp only [this, List.reverse_cons, List.append_assoc, List.cons_append, List.nil_append]

end Omen
