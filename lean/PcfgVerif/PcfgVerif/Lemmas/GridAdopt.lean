import PcfgVerif.Lemmas.GridReach
/-! The grid of a well-formed grammar as an adoption system, and the refinement lemmas:
`nodeChildren` = abstract children, `initNodes` = abstract roots (both up to permutation). -/
namespace Pcfg
variable {P : Type} [Inhabited P]

/-- the parent that adopts `v`: least probable parent, ties broken by lowest position -/
def gridAdopter (A : PAlg P) (g : Grid P) (v : Node) : Option Node :=
  if validNodeB g v then
    (Best.argmin A.ord (cands A.toPOps (g.struct v.b) v.idx)).map fun y => ⟨v.b, dec v.idx y.2⟩
  else none

theorem gridAdopter_eq_some (A : PAlg P) (g : Grid P) (v p : Node) :
    gridAdopter A g v = some p ↔ ValidNode g v ∧
      ∃ y, Best.argmin A.ord (cands A.toPOps (g.struct v.b) v.idx) = some y ∧
        p = ⟨v.b, dec v.idx y.2⟩ := by
  unfold gridAdopter
  by_cases hv : validNodeB g v = true
  · rw [if_pos hv, Option.map_eq_some_iff]
    have hv' := (validNodeB_iff g v).mp hv
    constructor
    · rintro ⟨y, hy, rfl⟩; exact ⟨hv', y, hy, rfl⟩
    · rintro ⟨_, y, hy, rfl⟩; exact ⟨y, hy, rfl⟩
  · rw [if_neg hv]
    have hv' : ¬ ValidNode g v := fun h => hv ((validNodeB_iff g v).mpr h)
    simp [hv']

omit [Inhabited P] in
theorem argmin_cands (A : PAlg P) (s : Struct P) (v : List Nat) (y : P × Nat)
    (h : Best.argmin A.ord (cands A.toPOps s v) = some y) :
    0 < v.getD y.2 0 ∧ y.1 = findProb A.toPOps s (dec v y.2) :=
  (mem_cands _ _ _ _).mp (Best.argmin_mem _ _ _ h)

omit [Inhabited P] in
theorem argmin_eq_none_iff {Q : Type} (O : Best.Ord Q) (xs : List (Q × Nat)) :
    Best.argmin O xs = none ↔ xs = [] := by
  constructor
  · intro h
    cases xs with
    | nil => rfl
    | cons x rest =>
      obtain ⟨m, hm⟩ := Best.argmin_isSome O (x :: rest) x (by simp)
      rw [h] at hm; cases hm
  · rintro rfl; rfl

theorem wf_cols (A : PAlg P) (g : Grid P) (hwf : WF A.toPOps g) (b : Nat) (hb : b < g.length) :
    ∀ c ∈ (g.struct b).cols, c.Pairwise (fun a b => A.le b a = true) :=
  fun c hc => (hwf _ (struct_mem g b hb) c hc).2

theorem wf_cols_ne (A : PAlg P) (g : Grid P) (hwf : WF A.toPOps g) (b : Nat) (hb : b < g.length) :
    ∀ c ∈ (g.struct b).cols, c ≠ [] :=
  fun c hc => (hwf _ (struct_mem g b hb) c hc).1

theorem gridAdopter_le (A : PAlg P) (g : Grid P) (hwf : WF A.toPOps g) (v p : Node)
    (h : gridAdopter A g v = some p) :
    A.le (nodeProb A.toPOps g v) (nodeProb A.toPOps g p) = true := by
  rw [gridAdopter_eq_some] at h
  obtain ⟨hv, y, _, rfl⟩ := h
  exact findProb_dec_ge A _ (wf_cols A g hwf v.b hv.1) v.idx hv.2 y.2

/-- the grid as an adoption system -/
def gridSys (A : PAlg P) (g : Grid P) : Adopt.Sys Node where
  all := allNodes g
  all_nodup := nodup_allNodes g
  adopter := gridAdopter A g
  rank v := v.idx.sum
  adopter_mem := by
    intro v p _ h
    rw [gridAdopter_eq_some] at h
    obtain ⟨hv, y, _, rfl⟩ := h
    rw [mem_allNodes]
    exact ⟨hv.1, validIdx_dec hv.2 _⟩
  adopter_rank := by
    intro v p h
    rw [gridAdopter_eq_some] at h
    obtain ⟨hv, y, hy, rfl⟩ := h
    have := sum_dec v.idx y.2 (argmin_cands A _ _ y hy).1
    show (dec v.idx y.2).sum < v.idx.sum
    omega

/-! ### children -/

theorem mem_nodeChildren (O : POps P) (g : Grid P) (x v : Node) :
    v ∈ nodeChildren O g x ↔ ∃ pos, pos < x.idx.length ∧
      ((g.struct x.b).cols.getD pos []).length ≠ x.idx.getD pos 0 + 1 ∧
      areYouMyChild O (g.struct x.b) (inc x.idx pos) pos (nodeProb O g x) = true ∧
      v = ⟨x.b, inc x.idx pos⟩ := by
  simp only [nodeChildren, findChildren, List.mem_map, List.mem_filterMap, List.mem_range,
    fcSkip_eq]
  constructor
  · rintro ⟨i, ⟨pos, hpos, h⟩, rfl⟩
    split at h
    · cases h
    · rename_i hs
      split at h
      · rename_i ha
        simp only [Option.some.injEq] at h
        subst h
        exact ⟨pos, hpos, by simpa using hs, ha, rfl⟩
      · cases h
  · rintro ⟨pos, hpos, hs, ha, rfl⟩
    refine ⟨_, ⟨pos, hpos, ?_⟩, rfl⟩
    have hs' : ¬ (((g.struct x.b).cols.getD pos []).length == x.idx.getD pos 0 + 1) = true := by
      simpa using hs
    rw [if_neg hs', if_pos ha]

theorem nodup_nodeChildren (O : POps P) (g : Grid P) (x : Node) : (nodeChildren O g x).Nodup := by
  simp only [nodeChildren, findChildren, List.Nodup]
  rw [List.pairwise_map]
  have hr : (List.range x.idx.length).Pairwise
      (fun a b => a < x.idx.length ∧ a ≠ b) :=
    (List.nodup_range (n := x.idx.length)).imp_of_mem (by
      intro a b ha _ hab; exact ⟨List.mem_range.mp ha, hab⟩)
  apply List.Pairwise.filterMap _ _ hr
  intro a a' haa b hb b' hb'
  split at hb
  · cases hb
  · split at hb
    · split at hb'
      · cases hb'
      · split at hb'
        · simp only [Option.some.injEq] at hb hb'
          subst hb; subst hb'
          intro e
          simp only [Node.mk.injEq, true_and] at e
          exact haa.2 (inc_inj_pos _ _ _ haa.1 e)
        · cases hb'
    · cases hb

theorem mem_gridSys_children (A : PAlg P) (g : Grid P) (x v : Node) :
    v ∈ (gridSys A g).children x ↔ ValidNode g v ∧ gridAdopter A g v = some x := by
  unfold Adopt.Sys.children
  rw [List.mem_filter, decide_eq_true_eq]
  exact and_congr (mem_allNodes g v) Iff.rfl

theorem mem_gridSys_roots (A : PAlg P) (g : Grid P) (v : Node) :
    v ∈ (gridSys A g).roots ↔ ValidNode g v ∧ gridAdopter A g v = none := by
  unfold Adopt.Sys.roots
  rw [List.mem_filter, Option.isNone_iff_eq_none]
  exact and_congr (mem_allNodes g v) Iff.rfl

theorem nodeChildren_perm (A : PAlg P) (g : Grid P) (x : Node) (hx : ValidNode g x) :
    (nodeChildren A.toPOps g x).Perm ((gridSys A g).children x) := by
  have hnd2 : ((gridSys A g).children x).Nodup := (nodup_allNodes g).sublist List.filter_sublist
  rw [List.perm_ext_iff_of_nodup (nodup_nodeChildren _ g x) hnd2]
  intro v
  rw [mem_nodeChildren, mem_gridSys_children, gridAdopter_eq_some]
  have hxl := (validIdx_iff _ _).mp hx.2
  constructor
  · rintro ⟨pos, hpos, hs, ha, rfl⟩
    have hlt := hxl.2 pos (by omega)
    have hv : ValidNode g ⟨x.b, inc x.idx pos⟩ :=
      ⟨hx.1, validIdx_inc hx.2 pos (by omega)⟩
    refine ⟨hv, hv, ?_⟩
    rw [areYouMyChild_eq] at ha
    have hmem : (nodeProb A.toPOps g x, pos) ∈ cands A.toPOps (g.struct x.b) (inc x.idx pos) := by
      rw [mem_cands]
      simp only [getD_inc, hpos, and_self, if_true, dec_inc]
      exact ⟨by omega, rfl⟩
    rw [Best.unbeaten_iff_argmin _ _ (cands_pairwise _ _ _) _ hmem] at ha
    exact ⟨_, ha, by simp [dec_inc]⟩
  · rintro ⟨_, hv, y, hy, hxe⟩
    have ⟨hpos, hprob⟩ := argmin_cands A _ _ y hy
    have hmem := Best.argmin_mem _ _ _ hy
    have hxb : x.b = v.b := by rw [hxe]
    have hxi : x.idx = dec v.idx y.2 := by rw [hxe]
    have hvi : v.idx = inc x.idx y.2 := by rw [hxi, inc_dec _ _ hpos]
    have hk : y.2 < v.idx.length := getD_pos_lt hpos
    have hvl := (validIdx_iff _ _).mp hv.2
    refine ⟨y.2, by rw [hxi]; simpa using hk, ?_, ?_, ?_⟩
    · have := hvl.2 y.2 (by omega)
      rw [hxb, hxi, getD_dec]; simp only [if_true]; omega
    · rw [areYouMyChild_eq, hxb, ← hvi]
      have : nodeProb A.toPOps g x = y.1 := by
        rw [hprob, nodeProb, hxb, hxi]
      rw [this, Best.unbeaten_iff_argmin _ _ (cands_pairwise _ _ _) _ hmem]
      exact hy
    · rw [← hvi, hxb]

/-! ### roots -/

omit [Inhabited P] in
theorem rootIdx_getD (s : Struct P) (j : Nat) : (rootIdx s).getD j 0 = 0 := by
  simp only [rootIdx, rootIndex_eq, List.getD_eq_getElem?_getD, List.getElem?_map]
  cases s.cols[j]? <;> rfl

omit [Inhabited P] in
theorem rootIdx_length (s : Struct P) : (rootIdx s).length = s.cols.length := by
  simp [rootIdx]

omit [Inhabited P] in
theorem validIdx_rootIdx (s : Struct P) (hne : ∀ c ∈ s.cols, c ≠ []) :
    validIdx s.cols (rootIdx s) = true := by
  rw [validIdx_iff]
  refine ⟨rootIdx_length s, ?_⟩
  intro j hj
  rw [rootIdx_getD]
  have hm : s.cols.getD j [] ∈ s.cols := by
    simp [List.getD_eq_getElem?_getD, hj]
  exact List.length_pos_iff.mpr (hne _ hm)

omit [Inhabited P] in
theorem cands_eq_nil_iff (O : POps P) (s : Struct P) (v : List Nat) :
    cands O s v = [] ↔ ∀ j, v.getD j 0 = 0 := by
  constructor
  · intro h j
    by_cases hj : 0 < v.getD j 0
    · have : (findProb O s (dec v j), j) ∈ cands O s v := (mem_cands O s v _).mpr ⟨hj, rfl⟩
      rw [h] at this; cases this
    · omega
  · intro h
    cases hc : cands O s v with
    | nil => rfl
    | cons y ys =>
      have : y ∈ cands O s v := by rw [hc]; simp
      have := ((mem_cands O s v y).mp this).1
      rw [h] at this; omega

theorem gridAdopter_eq_none (A : PAlg P) (g : Grid P) (v : Node) (hv : ValidNode g v) :
    gridAdopter A g v = none ↔ v.idx = rootIdx (g.struct v.b) := by
  unfold gridAdopter
  rw [if_pos ((validNodeB_iff g v).mpr hv), Option.map_eq_none_iff, argmin_eq_none_iff,
    cands_eq_nil_iff]
  constructor
  · intro h
    apply ext_getD
    · rw [rootIdx_length, validIdx_length hv.2]
    · intro j; rw [h, rootIdx_getD]
  · intro h j; rw [h, rootIdx_getD]

theorem nodup_initNodes (g : Grid P) : (initNodes g).Nodup := by
  simp only [initNodes, List.Nodup]
  rw [List.pairwise_map]
  exact (List.nodup_range (n := g.length)).imp (by
    intro a b hab e; simp only [Node.mk.injEq] at e; exact hab e.1)

theorem mem_initNodes (g : Grid P) (v : Node) :
    v ∈ initNodes g ↔ v.b < g.length ∧ v.idx = rootIdx (g.struct v.b) := by
  simp only [initNodes, List.mem_map, List.mem_range]
  constructor
  · rintro ⟨b, hb, rfl⟩; exact ⟨hb, rfl⟩
  · rintro ⟨hb, hi⟩; exact ⟨v.b, hb, by cases v; simp_all⟩

theorem initNodes_perm (A : PAlg P) (g : Grid P) (hwf : WF A.toPOps g) :
    (initNodes g).Perm (gridSys A g).roots := by
  have hnd2 : (gridSys A g).roots.Nodup := (nodup_allNodes g).sublist List.filter_sublist
  rw [List.perm_ext_iff_of_nodup (nodup_initNodes g) hnd2]
  intro v
  rw [mem_initNodes, mem_gridSys_roots]
  constructor
  · rintro ⟨hb, hi⟩
    have hv : ValidNode g v := ⟨hb, by rw [hi]; exact validIdx_rootIdx _ (wf_cols_ne A g hwf v.b hb)⟩
    exact ⟨hv, (gridAdopter_eq_none A g v hv).mpr hi⟩
  · rintro ⟨hv, h⟩
    exact ⟨hv.1, (gridAdopter_eq_none A g v hv).mp h⟩

theorem gridSys_children_ok (A : PAlg P) (g : Grid P) :
    ∀ x ∈ (gridSys A g).all, (nodeChildren A.toPOps g x).Perm ((gridSys A g).children x) :=
  fun x hx => nodeChildren_perm A g x ((mem_allNodes g x).mp hx)

end Pcfg
