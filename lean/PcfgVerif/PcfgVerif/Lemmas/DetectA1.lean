import PcfgVerif.Model.DetectSpec
/-! Helper lemmas for `DetectStatementsA`: slices, tilings and the list-level loop. -/
namespace Pcfg.Detect

theorem slice_length (s : CPs) (a b : Nat) : (slice s a b).length = min (b - a) (s.length - a) := by
  simp [slice]

theorem slice_slice (pw : CPs) (a b c d : Nat) :
    slice (slice pw a b) c d = slice pw (a + c) (a + c + min (d - c) (b - a - c)) := by
  simp only [slice, List.drop_take, List.take_take, List.drop_drop]
  congr 1
  omega

theorem slice_zero_length (s : CPs) : slice s 0 s.length = s := by
  simp [slice]

theorem take_eq_slice (s : CPs) (n : Nat) : s.take n = slice s 0 n := by
  simp [slice]

theorem drop_eq_slice (s : CPs) (n : Nat) : s.drop n = slice s n s.length := by
  simp only [slice]
  rw [List.take_of_length_le (by simp)]

/-- slice of a slice, when the inner window fits -/
theorem slice_slice_of_le (pw : CPs) (off L k n : Nat) (h : k + n ≤ L) :
    slice (slice pw off (off + L)) k (k + n) = slice pw (off + k) (off + k + n) := by
  rw [slice_slice]
  congr 1
  omega

theorem lenPres_slice' (U : UEnv) (pw : CPs) (a b : Nat) (h : LenPres U pw) : LenPres U (slice pw a b) := by
  intro c d
  rw [slice_slice]
  exact h _ _

theorem pieceOK_shift (U : UEnv) (pw text : CPs) (off k : Nat) (s : Sec)
    (hle : off + text.length ≤ pw.length)
    (ht : text = slice pw off (off + text.length))
    (h : pieceOK U text k s) : pieceOK U pw (off + k) s := by
  obtain ⟨h1, h2, h3, h4⟩ := h
  refine ⟨h1, by omega, ?_, ?_⟩
  · intro hw
    have := h3 hw
    rw [ht, slice_slice_of_le _ _ _ _ _ h2] at this
    rw [this]
    congr 1
    rw [← this]
  · intro hw
    obtain ⟨a, b, ha, hb, hb', hs⟩ := h4 hw
    refine ⟨off + a, off + b, by omega, by omega, by omega, ?_⟩
    have e : slice text a b = slice pw (off + a) (off + b) := by
      have : b = a + (b - a) := by omega
      rw [this, ht, slice_slice_of_le _ _ _ _ _ (by omega)]
      congr 1
      omega
    rw [← e]
    have : off + k - (off + a) = k - a := by omega
    rw [this]
    exact hs

theorem tilesFrom_shift (U : UEnv) (pw text : CPs) (off : Nat) (rest : List Sec)
    (hle : off + text.length ≤ pw.length)
    (ht : text = slice pw off (off + text.length))
    (hr : TilesFrom U pw (off + text.length) rest) :
    ∀ (pieces : List Sec) (k : Nat), TilesFrom U text k pieces → TilesFrom U pw (off + k) (pieces ++ rest)
  | [], k, h => by
    simp only [TilesFrom] at h
    subst h
    simpa using hr
  | s :: ps, k, h => by
    obtain ⟨h1, h2⟩ := h
    refine ⟨pieceOK_shift U pw text off k s hle ht h1, ?_⟩
    have := tilesFrom_shift U pw text off rest hle ht hr ps _ h2
    rwa [← Nat.add_assoc] at this

/-- total length of a list of sections -/
def secsLen (l : List Sec) : Nat := (l.map (·.1.length)).sum

theorem tilesFrom_suffix (U : UEnv) (pw : CPs) :
    ∀ (xs ys : List Sec) (k : Nat), TilesFrom U pw k (xs ++ ys) → TilesFrom U pw (k + secsLen xs) ys
  | [], ys, k, h => by simpa [secsLen] using h
  | x :: xs, ys, k, h => by
    obtain ⟨_, h2⟩ := h
    have := tilesFrom_suffix U pw xs ys _ h2
    simpa [secsLen, Nat.add_assoc] using this

theorem tilesFrom_replace_suffix (U : UEnv) (pw : CPs) :
    ∀ (xs ys ys' : List Sec) (k : Nat), TilesFrom U pw k (xs ++ ys) →
      TilesFrom U pw (k + secsLen xs) ys' → TilesFrom U pw k (xs ++ ys')
  | [], ys, ys', k, _, h' => by simpa [secsLen] using h'
  | x :: xs, ys, ys', k, h, h' => by
    obtain ⟨h1, h2⟩ := h
    refine ⟨h1, tilesFrom_replace_suffix U pw xs ys ys' _ h2 ?_⟩
    simpa [secsLen, Nat.add_assoc] using h'

theorem tiles_replace' (U : UEnv) (pw : CPs) (off : Nat) (text : CPs) (pieces rest : List Sec)
    (h : TilesFrom U pw off ((text, none) :: rest))
    (hp : TilesFrom U text 0 pieces) :
    TilesFrom U pw off (pieces ++ rest) := by
  obtain ⟨⟨_, hle, hs, _⟩, hr⟩ := h
  have ht : text = slice pw off (off + text.length) := hs (by simp)
  exact tilesFrom_shift U pw text off rest hle ht hr pieces 0 hp

theorem splitLoop_tiles' {F : Type} (U : UEnv) (detect : CPs → Option (List Sec × F)) (adv : Advance)
    (hd : DetectorOK U detect) (pw : CPs) (hl : LenPres U pw) (fuel : Nat) :
    ∀ (done todo : List Sec) (found : List F),
      TilesFrom U pw 0 (done ++ todo) →
      TilesFrom U pw 0 (splitLoop detect adv fuel done todo found).1 := by
  induction fuel with
  | zero => intro done todo found h; simpa [splitLoop] using h
  | succ fuel ih =>
    intro done todo found h
    unfold splitLoop
    match todo with
    | [] => simpa using h
    | (text, some l) :: rest =>
      simp only
      apply ih
      simpa using h
    | (text, none) :: rest =>
      simp only
      match hdt : detect text with
      | none =>
        simp only
        apply ih
        simpa using h
      | some (pieces, f) =>
        have hsuf := tilesFrom_suffix U pw done _ 0 h
        have hpo := hsuf.1
        have htext : text = slice pw (0 + secsLen done) (0 + secsLen done + text.length) := hpo.2.2.1 (by simp)
        have hlp : LenPres U text := by
          rw [htext]; exact lenPres_slice' U pw _ _ hl
        obtain ⟨hne, htl⟩ := hd text pieces f hpo.1 hlp hdt
        have hrep := tiles_replace' U pw _ text pieces rest hsuf htl
        have hall := tilesFrom_replace_suffix U pw done _ _ 0 h hrep
        cases adv with
        | skipFirst =>
          cases pieces with
          | nil => exact absurd rfl hne
          | cons p ps =>
            simp only
            apply ih
            simpa using hall
        | recheck =>
          simp only
          apply ih
          exact hall

theorem splitLoop_keeps_labelled' {F : Type} (detect : CPs → Option (List Sec × F)) (adv : Advance)
    (s : Sec) (hs : s.2.isSome = true) (fuel : Nat) :
    ∀ (done todo : List Sec) (found : List F),
      s ∈ done ++ todo → s ∈ (splitLoop detect adv fuel done todo found).1 := by
  induction fuel with
  | zero => intro done todo found h; simpa [splitLoop] using h
  | succ fuel ih =>
    intro done todo found h
    unfold splitLoop
    match todo with
    | [] => simpa using h
    | (text, some l) :: rest =>
      simp only
      apply ih
      simpa using h
    | (text, none) :: rest =>
      simp only
      have hne : s ≠ (text, none) := by
        intro e; subst e; simp at hs
      have hm : s ∈ done ∨ s ∈ rest := by
        simp only [List.mem_append, List.mem_cons] at h
        rcases h with h | h | h
        · exact Or.inl h
        · exact absurd h hne
        · exact Or.inr h
      match hdt : detect text with
      | none =>
        simp only
        apply ih
        simp only [List.mem_append, List.mem_cons]
        rcases hm with h | h <;> simp [h]
      | some (pieces, f) =>
        cases adv with
        | skipFirst =>
          cases pieces with
          | cons p ps =>
            simp only
            apply ih
            simp only [List.mem_append, List.mem_cons]
            rcases hm with h | h <;> simp [h]
          | nil =>
            simp only
            apply ih
            simp only [List.mem_append]
            exact hm
        | recheck =>
          simp only
          apply ih
          simp only [List.mem_append]
          rcases hm with h | h <;> simp [h]

end Pcfg.Detect
