import PcfgVerif.Lemmas.TrainedListedA
import PcfgVerif.Properties.ProbsCore
import PcfgVerif.Model.Scorer
/-! The scorer's grammar as the trainer writes it (every counter through `calculate_probabilities`, exact rationals),
and: an item with a positive count is listed with a non-zero probability. -/
namespace Pcfg.Trainer
open Pcfg Pcfg.Detect

theorem rat_div_pos (a b : Rat) (ha : 0 < a) (hb : 0 < b) : 0 < a / b := by
  rw [Rat.div_def]; exact Rat.mul_pos ha (Rat.inv_pos.mpr hb)

theorem rat_cast_pos (n : Nat) (h : 0 < n) : (0 : Rat) < (n : Rat) := by
  exact_mod_cast h

theorem rat_markov_pos (n cov : Rat) (hn : 0 < n) (h0 : 0 < cov) (h1 : cov < 1) : 0 < n / cov - n := by
  have : n / cov - n = n * ((1 - cov) / cov) := by
    have : cov ≠ 0 := by grind
    grind
  rw [this]
  exact Rat.mul_pos hn (rat_div_pos _ _ (by grind) h0)

theorem rat_sum_pos (l : List Rat) (h : ∀ x ∈ l, 0 < x) (hne : l ≠ []) : 0 < l.sum := by
  induction l with
  | nil => exact absurd rfl hne
  | cons x xs ih =>
    rw [List.sum_cons]
    cases xs with
    | nil =>
      have := h x (by simp)
      simp only [List.sum_nil]; grind
    | cons y ys =>
      have := ih (fun z hz => h z (List.mem_cons_of_mem _ hz)) (by simp)
      have := h x (by simp)
      grind

/-- the core fact: in the written list of a counter whose counts are all positive, a counted key is found with a non-zero probability -/
theorem listed_ne_zero {α : Type} [BEq α] [LawfulBEq α] (items : List (α × Rat)) (hpos : ∀ p ∈ items, 0 < p.2)
    (v : α) (c : Rat) (hv : (v, c) ∈ items) :
    (((calcProbs ratOps items).find? (·.1 == v)).map (·.2)).getD 0 ≠ 0 := by
  have hin : (v, ratOps.div c (totalCount ratOps items)) ∈ calcProbs ratOps items :=
    (calcProbs_mem ratOps items v _).mpr ⟨c, hv, rfl⟩
  cases hf : (calcProbs ratOps items).find? (·.1 == v) with
  | none =>
    have := List.find?_eq_none.mp hf _ hin
    simp at this
  | some q =>
    have hm := List.mem_of_find?_eq_some hf
    obtain ⟨c', hc', hq⟩ := (calcProbs_mem ratOps items q.1 q.2).mp hm
    simp only [Option.map_some, Option.getD_some]
    rw [hq, totalCount_rat]
    have hc0 := hpos _ hc'
    have ht : 0 < (items.map (·.2)).sum := by
      refine rat_sum_pos _ ?_ ?_
      · intro x hx
        obtain ⟨p, hp, rfl⟩ := List.mem_map.mp hx
        exact hpos p hp
      · intro h
        have := List.map_eq_nil_iff.mp h
        rw [this] at hv; simp at hv
    have := rat_div_pos _ _ hc0 ht
    show c' / _ ≠ 0
    grind

/-! ## the grammar the scorer loads from a trained ruleset -/

def toQ {α : Type} (t : List (α × Nat)) : List (α × Rat) := t.map fun p => (p.1, (p.2 : Rat))

def listOf (t : MWTable) : List (CPs × Rat) := calcProbs ratOps (toQ t)

def lenLists (ch : Char) (d : LenCtr) : ScoreG Rat := d.map fun e => (lbl ch e.1, listOf e.2)

/-- `Grammar/grammar.txt`: the supported base structures, plus `M` according to the coverage -/
def baseList (cov : Rat) (n : Nat) (b : SCtr) : List (CPs × Rat) :=
  (calcProbs ratOps (withMarkov ratOps (· - ·) 1 (· == 1) (· == 0) "M" cov (n : Rat) (toQ b))).map
    fun p => (cpsOfString p.1, p.2)

def scoreGOf (cov : Rat) (n : Nat) (c : Counters) : ScoreG Rat :=
  lenLists 'K' c.keyboard ++ (lenLists 'A' c.alpha ++ (lenLists 'C' c.masks ++ (lenLists 'D' c.digits ++
    (lenLists 'O' c.other ++ [("Y", listOf c.years), ("X", listOf c.context), ("B", baseList cov n c.base)]))))

theorem toQ_pos {α : Type} (t : List (α × Nat)) (h : ∀ p ∈ t, 0 < p.2) : ∀ p ∈ toQ t, (0 : Rat) < p.2 := by
  intro p hp
  obtain ⟨q, hq, rfl⟩ := List.mem_map.mp hp
  exact rat_cast_pos _ (h q hq)

theorem listOf_ne_zero (t : MWTable) (hp : Pos t) (v : CPs) (hv : 0 < t.count v) :
    (((listOf t).find? (·.1 == v)).map (·.2)).getD 0 ≠ 0 := by
  obtain ⟨c, hc⟩ := mem_of_count_pos t v hv
  exact listed_ne_zero (toQ t) (toQ_pos t hp) v (c : Rat) (List.mem_map.mpr ⟨(v, c), hc, rfl⟩)

end Pcfg.Trainer
