import PcfgVerif.Lemmas.DetectC1
import PcfgVerif.Lemmas.DetectC4
/-!
# The list-level loop runs to its end: nothing a detector can find is left unlabelled

`splitLoop` has a fuel argument; the tiling lemmas hold for any fuel.  Here: with the fuel the pipeline gives it
(`loopFuel`) a `skipFirst` loop really ends with `todo = []`, and then every section that is still unlabelled is *clean* for
the detector (it finds nothing in it).  Instances: after `digit_detection` no unlabelled section contains a digit, so the
`O` sections contain none and the `D` sections are maximal in the final tiling.
-/
namespace Pcfg.Detect

/-- loop measure: one per section still to look at, plus twice the length of its text if it is unlabelled -/
def secMeasure : List Sec → Nat
  | [] => 0
  | (t, none) :: r => 1 + 2 * t.length + secMeasure r
  | (_, some _) :: r => 1 + secMeasure r

theorem secMeasure_append (a b : List Sec) : secMeasure (a ++ b) = secMeasure a + secMeasure b := by
  induction a with
  | nil => simp [secMeasure]
  | cons s a ih =>
    obtain ⟨t, l⟩ := s
    cases l <;> simp [secMeasure, ih] <;> omega

theorem secMeasure_le_loopFuel (secs : List Sec) : secMeasure secs ≤ loopFuel secs := by
  unfold loopFuel
  induction secs with
  | nil => simp [secMeasure]
  | cons s r ih =>
    obtain ⟨t, l⟩ := s
    cases l <;> simp [secMeasure] at ih ⊢ <;> omega

/-- what makes a `skipFirst` loop exhaustive for a cleanliness predicate -/
structure Exhausts {F : Type} (detect : CPs → Option (List Sec × F)) (Good Clean : CPs → Prop) : Prop where
  none_clean : ∀ text, Good text → detect text = none → Clean text
  first_clean : ∀ text p ps f, Good text → detect text = some (p :: ps, f) → p.2 = none → Clean p.1
  shrink : ∀ text p ps f, Good text → detect text = some (p :: ps, f) → secMeasure ps < 1 + 2 * text.length
  good_pieces : ∀ text pieces f, Good text → detect text = some (pieces, f) → ∀ q ∈ pieces, q.2 = none → Good q.1

theorem splitLoop_exhaustive {F : Type} (detect : CPs → Option (List Sec × F)) (Good Clean : CPs → Prop)
    (hx : Exhausts detect Good Clean) (fuel : Nat) :
    ∀ (done todo : List Sec) (found : List F), secMeasure todo ≤ fuel →
      (∀ s ∈ todo, s.2 = none → Good s.1) →
      (∀ s ∈ done, s.2 = none → Clean s.1) →
      ∀ s ∈ (splitLoop detect .skipFirst fuel done todo found).1, s.2 = none → Clean s.1 := by
  induction fuel with
  | zero =>
    intro done todo found hm hg hd
    have : todo = [] := by
      cases todo with
      | nil => rfl
      | cons s r => obtain ⟨t, l⟩ := s; cases l <;> simp [secMeasure] at hm <;> omega
    subst this
    simpa [splitLoop] using hd
  | succ fuel ih =>
    intro done todo found hm hg hd
    unfold splitLoop
    match todo with
    | [] => simpa using hd
    | (text, some l) :: rest =>
      simp only
      apply ih
      · simp [secMeasure] at hm; omega
      · exact fun s hs hn => hg s (List.mem_cons_of_mem _ hs) hn
      · intro s hs hn
        rcases List.mem_append.mp hs with h | h
        · exact hd s h hn
        · simp at h; subst h; simp at hn
    | (text, none) :: rest =>
      simp only
      have hgt : Good text := hg (text, none) (by simp) rfl
      have hgr : ∀ s ∈ rest, s.2 = none → Good s.1 := fun s hs hn => hg s (List.mem_cons_of_mem _ hs) hn
      match hdt : detect text with
      | none =>
        simp only
        apply ih
        · simp [secMeasure] at hm; omega
        · exact hgr
        · intro s hs hn
          rcases List.mem_append.mp hs with h | h
          · exact hd s h hn
          · simp at h; subst h; exact hx.none_clean text hgt hdt
      | some (pieces, f) =>
        cases pieces with
        | nil =>
          simp only
          apply ih
          · simp [secMeasure] at hm; omega
          · exact hgr
          · exact hd
        | cons p ps =>
          simp only
          apply ih
          · have := hx.shrink text p ps f hgt hdt
            simp [secMeasure, secMeasure_append] at hm ⊢; omega
          · intro s hs hn
            rcases List.mem_append.mp hs with h | h
            · exact hx.good_pieces text (p :: ps) f hgt hdt s (List.mem_cons_of_mem _ h) hn
            · exact hgr s h hn
          · intro s hs hn
            rcases List.mem_append.mp hs with h | h
            · exact hd s h hn
            · simp at h; subst h; exact hx.first_clean text s ps f hgt hdt hn

/-! ## digits -/

def NoDigit (U : UEnv) (text : CPs) : Prop := ∀ c ∈ text, U.isDigit c = false

theorem firstRun_none (p : Nat → Bool) (w : CPs) (h : firstRun p w = none) : ∀ c ∈ w, p c = false := by
  unfold firstRun at h
  simp only at h
  split at h
  · cases h
  · rename_i hlt
    intro c hc
    have hge : w.length ≤ w.findIdx p := by omega
    have := List.findIdx_eq_length.mp (Nat.le_antisymm List.findIdx_le_length hge)
    simpa using this c hc

theorem detectDigits_exhausts (U : UEnv) : Exhausts (detectDigits U) (fun _ => True) (NoDigit U) := by
  refine ⟨?_, ?_, ?_, fun _ _ _ _ _ _ _ _ => trivial⟩
  · intro text _ h
    unfold detectDigits at h
    split at h
    · rename_i hfr; exact firstRun_none _ _ hfr
    · cases h
  · intro text p ps f _ h hn
    unfold detectDigits at h
    split at h
    · cases h
    · rename_i s e hfr
      obtain ⟨run, _, _, _, _, _, _, hpre, _, _⟩ := firstRun_spec _ _ _ _ hfr
      simp only [Option.some.injEq, Prod.mk.injEq] at h
      obtain ⟨hp, _⟩ := h
      by_cases hs : s = 0
      · subst hs
        simp at hp
        obtain ⟨rfl, _⟩ := hp
        simp at hn
      · have hs' : (s != 0) = true := by simpa using hs
        simp only [hs', if_true, List.cons_append, List.cons.injEq] at hp
        obtain ⟨rfl, _⟩ := hp
        exact hpre
  · intro text p ps f _ h
    unfold detectDigits at h
    split at h
    · cases h
    · rename_i s e hfr
      obtain ⟨run, hne, hlen, he, _, _, _, _, _, _⟩ := firstRun_spec _ _ _ _ hfr
      simp only [Option.some.injEq, Prod.mk.injEq] at h
      obtain ⟨hp, _⟩ := h
      have hrl : 0 < run.length := List.length_pos_iff.mpr hne
      by_cases hs : s = 0 <;> by_cases hend : e = text.length - 1
      all_goals
        first
        | (subst hs
           simp [hend] at hp
           obtain ⟨_, rfl⟩ := hp
           simp [secMeasure]
           try omega)
        | (have hs' : (s != 0) = true := by simpa using hs
           simp [hs', hend] at hp
           obtain ⟨_, rfl⟩ := hp
           simp [secMeasure]
           try omega)

/-- after `digit_detection` (with the fuel the pipeline gives it) no unlabelled section contains a digit -/
theorem digitStage_exhaustive (U : UEnv) (secs : List Sec) :
    ∀ s ∈ (splitLoop (detectDigits U) .skipFirst (loopFuel secs) [] secs []).1, s.2 = none → NoDigit U s.1 :=
  splitLoop_exhaustive (detectDigits U) (fun _ => True) (NoDigit U) (detectDigits_exhausts U) (loopFuel secs) [] secs []
    (secMeasure_le_loopFuel secs) (fun _ _ _ => trivial) (by simp)

/-- hence the `other` strings the parser reports contain no digit -/
theorem parse_others_no_digit (U : UEnv) (cfg : MWCfg) (t : MWTable) (pw : CPs) :
    ∀ o ∈ (parse U cfg t pw).others, ∀ c ∈ o, U.isDigit c = false := by
  intro o ho
  unfold parse at ho
  simp only at ho
  unfold otherDetection at ho
  simp only [List.mem_filterMap] at ho
  obtain ⟨s, hs, hso⟩ := ho
  obtain ⟨text, l⟩ := s
  cases l with
  | some _ => simp at hso
  | none =>
    simp at hso
    subst hso
    exact digitStage_exhaustive U _ _ hs rfl

end Pcfg.Detect
