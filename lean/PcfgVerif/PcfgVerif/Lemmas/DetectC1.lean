import PcfgVerif.Model.DetectSpec
/-! Lemmas for DetectStatementsC, part 1: labels, `otherDetection`, `firstRun`, digits. -/
namespace Pcfg.Detect


theorem lbl_toList (c : Char) (n : Nat) : (lbl c n).toList = c :: (toString n).toList := by
  simp [lbl, String.toList_append]

theorem lbl_ne_W (c : Char) (n : Nat) : lbl c n ≠ "W" := by
  intro h
  have := congrArg String.toList h
  rw [lbl_toList] at this
  simp at this


theorem otherDetection_spec' (secs : List Sec) :
    AllLabelled (otherDetection secs).1 ∧
    (otherDetection secs).1.map (·.1) = secs.map (·.1) ∧
    (∀ s ∈ secs, s.2.isSome = true → s ∈ (otherDetection secs).1) ∧
    (∀ s ∈ secs, s.2 = none → (s.1, some (lbl 'O' s.1.length)) ∈ (otherDetection secs).1) ∧
    (otherDetection secs).2 = (secs.filter (fun s => s.2.isNone)).map (·.1) := by
  refine ⟨?_, ?_, ?_, ?_, ?_⟩
  · intro s hs
    simp only [otherDetection, List.mem_map] at hs
    obtain ⟨a, _, rfl⟩ := hs
    rcases a with ⟨x, _ | l⟩ <;> simp
  · simp only [otherDetection, List.map_map]
    apply List.map_congr_left
    intro a _
    rcases a with ⟨x, _ | l⟩ <;> simp
  · intro s hs h
    simp only [otherDetection, List.mem_map]
    refine ⟨s, hs, ?_⟩
    rcases s with ⟨x, _ | l⟩ <;> simp at h ⊢
  · intro s hs h
    simp only [otherDetection, List.mem_map]
    refine ⟨s, hs, ?_⟩
    rcases s with ⟨x, _ | l⟩ <;> simp at h ⊢
  · simp only [otherDetection]
    induction secs with
    | nil => rfl
    | cons a r ih =>
      rcases a with ⟨x, _ | l⟩ <;> simp [ih]

theorem otherDetection_tiles_gen (U : UEnv) (pw : CPs) (secs : List Sec) (off : Nat)
    (h : TilesFrom U pw off secs) : TilesFrom U pw off (otherDetection secs).1 := by
  induction secs generalizing off with
  | nil => exact h
  | cons a r ih =>
    obtain ⟨h1, h2⟩ := h
    rcases a with ⟨x, _ | l⟩
    · refine ⟨?_, ih _ h2⟩
      obtain ⟨p1, p2, p3, _⟩ := h1
      refine ⟨p1, p2, fun _ => p3 (by simp), fun hW => ?_⟩
      exact absurd (Option.some.inj hW) (lbl_ne_W _ _)
    · exact ⟨h1, ih _ h2⟩



theorem mem_takeWhile_p {α} (p : α → Bool) (l : List α) : ∀ c ∈ l.takeWhile p, p c = true := by
  induction l with
  | nil => simp
  | cons a r ih =>
    intro c hc
    rw [List.takeWhile_cons] at hc
    split at hc
    · rcases List.mem_cons.mp hc with rfl | h
      · assumption
      · exact ih c h
    · cases hc

theorem take_len_takeWhile {α} (p : α → Bool) (l : List α) :
    l.take (l.takeWhile p).length = l.takeWhile p := by
  have h := List.takeWhile_append_dropWhile (p := p) (l := l)
  calc l.take (l.takeWhile p).length
      = (l.takeWhile p ++ l.dropWhile p).take (l.takeWhile p).length := by rw [h]
    _ = l.takeWhile p := List.take_left

theorem drop_len_takeWhile {α} (p : α → Bool) (l : List α) :
    l.drop (l.takeWhile p).length = l.dropWhile p := by
  have h := List.takeWhile_append_dropWhile (p := p) (l := l)
  calc l.drop (l.takeWhile p).length
      = (l.takeWhile p ++ l.dropWhile p).drop (l.takeWhile p).length := by rw [h]
    _ = l.dropWhile p := List.drop_left

theorem firstRun_spec (p : Nat → Bool) (w : CPs) (s e : Nat) (h : firstRun p w = some (s, e)) :
    ∃ run, run ≠ [] ∧ s + run.length = e + 1 ∧ e < w.length ∧
      slice w s (e + 1) = run ∧ w.drop (e + 1) = (w.drop s).dropWhile p ∧
      w = w.take s ++ run ++ w.drop (e + 1) ∧
      (∀ c ∈ w.take s, p c = false) ∧ (∀ c ∈ run, p c = true) ∧
      (∀ c, (w.drop (e + 1)).head? = some c → p c = false) := by
  unfold firstRun at h
  simp only at h
  split at h
  · rename_i hlt
    simp only [Option.some.injEq, Prod.mk.injEq] at h
    obtain ⟨hs, he⟩ := h
    have hp : p w[w.findIdx p] = true := List.findIdx_getElem (w := hlt)
    subst hs
    have hdrop : w.drop (w.findIdx p) = w[w.findIdx p] :: w.drop (w.findIdx p + 1) :=
      List.drop_eq_getElem_cons hlt
    have htw : (w.drop (w.findIdx p)).takeWhile p ≠ [] := by
      rw [hdrop, List.takeWhile_cons, if_pos hp]; simp
    generalize hsd : w.findIdx p = s at *
    have hlen : 0 < ((w.drop s).takeWhile p).length := List.length_pos_iff.mpr htw
    have hle : ((w.drop s).takeWhile p).length ≤ (w.drop s).length :=
      (List.takeWhile_prefix p).length_le
    have he1 : e + 1 = s + ((w.drop s).takeWhile p).length := by omega
    have hd : w.drop (e + 1) = (w.drop s).dropWhile p := by
      rw [he1, ← List.drop_drop, drop_len_takeWhile]
    have hsl : slice w s (e + 1) = (w.drop s).takeWhile p := by
      unfold slice
      rw [he1, Nat.add_sub_cancel_left, take_len_takeWhile]
    refine ⟨(w.drop s).takeWhile p, htw, by omega, ?_, hsl, hd, ?_, ?_, ?_, ?_⟩
    · simp only [List.length_drop] at hle; omega
    · rw [hd, List.append_assoc, List.takeWhile_append_dropWhile, List.take_append_drop]
    · intro c hc
      obtain ⟨i, hi, rfl⟩ := List.mem_take_iff_getElem.mp hc
      apply List.not_of_lt_findIdx
      omega
    · exact mem_takeWhile_p p _
    · intro c hc
      rw [hd] at hc
      have := List.head?_dropWhile_not p (w.drop s)
      rw [hc] at this
      simpa using this
  · cases h




theorem slice_length_of_le (w : CPs) (a b : Nat) (hab : a ≤ b) (hb : b ≤ w.length) :
    (slice w a b).length = b - a := by
  simp [slice]; omega

theorem pieceOK_plain (U : UEnv) (text : CPs) (off : Nat) (x : CPs) (l : Option String)
    (hl : l ≠ some "W") (hx : x ≠ []) (hle : off + x.length ≤ text.length)
    (hs : x = slice text off (off + x.length)) : pieceOK U text off (x, l) :=
  ⟨hx, hle, fun _ => hs, fun h => absurd h hl⟩

theorem tiles_suffix (U : UEnv) (text : CPs) (e : Nat) (he : e < text.length) :
    TilesFrom U text (e + 1)
      (if e != text.length - 1 then [(text.drop (e + 1), none)] else []) := by
  by_cases h : e = text.length - 1
  · simp [h, TilesFrom]; omega
  · have : (e != text.length - 1) = true := by simpa using h
    rw [if_pos this]
    refine ⟨pieceOK_plain U text _ _ _ (by simp) ?_ ?_ ?_, ?_⟩
    · intro h0
      have := congrArg List.length h0
      simp at this; omega
    · simp; omega
    · simp only [slice, List.length_drop, Nat.add_sub_cancel_left]
      exact (List.take_of_length_le (by simp)).symm
    · simp [TilesFrom]; omega

theorem tiles_prefix (U : UEnv) (text : CPs) (s : Nat) (hs : s ≤ text.length) (rest : List Sec)
    (h : TilesFrom U text s rest) :
    TilesFrom U text 0 ((if s != 0 then [(text.take s, none)] else []) ++ rest) := by
  by_cases h0 : s = 0
  · subst h0; simpa using h
  · have : (s != 0) = true := by simpa using h0
    rw [if_pos this]
    have hlen : (text.take s).length = s := by simp; omega
    refine ⟨pieceOK_plain U text _ _ _ (by simp) ?_ ?_ ?_, ?_⟩
    · intro h1
      have := congrArg List.length h1
      rw [hlen] at this; simp at this; omega
    · rw [hlen]; simpa using hs
    · simp [slice, hlen]
    · simpa [hlen] using h

theorem detectDigits_ok' (U : UEnv) : DetectorOK U (detectDigits U) := by
  intro text pieces f _ _ h
  unfold detectDigits at h
  split at h
  · cases h
  · rename_i s e hfr
    simp only [Option.some.injEq, Prod.mk.injEq] at h
    obtain ⟨hp, _⟩ := h
    obtain ⟨run, hne, hlen, he, hsl, _, _, _, _, _⟩ := firstRun_spec _ _ _ _ hfr
    subst hp
    refine ⟨by simp, ?_⟩
    rw [List.append_assoc]
    apply tiles_prefix U text s (by omega)
    rw [hsl]
    refine ⟨pieceOK_plain U text _ _ _ (by simpa using lbl_ne_W _ _) hne (by omega) ?_, ?_⟩
    · rw [hlen, hsl]
    · simp only [hlen]
      exact tiles_suffix U text e he

theorem detectDigits_sound' (U : UEnv) (text : CPs) (pieces : List Sec) (d : CPs)
    (h : detectDigits U text = some (pieces, d)) :
    d ≠ [] ∧ (∀ c ∈ d, U.isDigit c = true) ∧ (d, some (lbl 'D' d.length)) ∈ pieces ∧
    ∃ pre post, text = pre ++ d ++ post ∧ (∀ c ∈ pre, U.isDigit c = false) ∧
      (∀ c, post.head? = some c → U.isDigit c = false) := by
  unfold detectDigits at h
  split at h
  · cases h
  · rename_i s e hfr
    simp only [Option.some.injEq, Prod.mk.injEq] at h
    obtain ⟨hp, hd⟩ := h
    obtain ⟨run, hne, hlen, he, hsl, _, hw, hpre, hrun, hpost⟩ := firstRun_spec _ _ _ _ hfr
    rw [hsl] at hd hp
    subst hd hp
    refine ⟨hne, hrun, by simp, text.take s, text.drop (e + 1), hw, hpre, hpost⟩


end Pcfg.Detect
