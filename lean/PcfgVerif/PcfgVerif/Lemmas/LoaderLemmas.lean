import PcfgVerif.Model.Loader
import PcfgVerif.Model.CheckValid
/-! Helper lemmas for `Properties/LoaderStatements.lean` (C07, C14). -/
namespace Pcfg
variable {P : Type}

/-! ## tables -/

theorem lineSep_rejected : ∀ c ∈ pyLineSeps, Generated.CheckValid.rejected.contains c = true := by
  decide

theorem isLineSep_imp_rejected (c : Nat) (h : isLineSep c = true) :
    Generated.CheckValid.rejected.contains c = true := by
  apply lineSep_rejected
  simpa [isLineSep] using h

theorem isLineSep_10 : isLineSep 10 = true := by decide
theorem isLineSep_9 : isLineSep 9 = false := by decide
theorem isLineSep_13 : isLineSep 13 = true := by decide
theorem isPySpace_10 : isPySpace 10 = true := by decide
theorem isSurrogate_9 : isSurrogate 9 = false := by decide
theorem isSurrogate_10 : isSurrogate 10 = false := by decide

/-! ## `splitLinesKeep` -/

theorem splitLinesKeep_cons_ne (sep : Nat → Bool) (c : Nat) (rest cur : CPs) (h : c ≠ 13) :
    splitLinesKeep sep (c :: rest) cur =
      if sep c = true then (c :: cur).reverse :: splitLinesKeep sep rest []
      else splitLinesKeep sep rest (c :: cur) := by
  rw [splitLinesKeep.eq_3]
  intro _ hc _
  exact h hc

theorem splitLinesKeep_body (body rest cur : CPs) (hb : ∀ c ∈ body, isLineSep c = false) :
    splitLinesKeep isLineSep (body ++ 10 :: rest) cur =
      (cur.reverse ++ body ++ [10]) :: splitLinesKeep isLineSep rest [] := by
  induction body generalizing cur with
  | nil =>
    simp only [List.nil_append, List.append_nil]
    rw [splitLinesKeep_cons_ne _ _ _ _ (by decide)]
    simp [isLineSep_10]
  | cons c body ih =>
    have hc : isLineSep c = false := hb c (by simp)
    have hne : c ≠ 13 := by
      intro h; subst h; simp [isLineSep_13] at hc
    rw [List.cons_append, splitLinesKeep_cons_ne _ _ _ _ hne]
    simp only [hc, Bool.false_eq_true, if_false]
    rw [ih _ (fun x hx => hb x (by simp [hx]))]
    simp

/-! ## `rstripWs`, `splitOnCp` -/

theorem rstripWs_append_nl (s : CPs) (hs : s ≠ []) (hl : ∀ c, s.getLast? = some c → isPySpace c = false) :
    rstripWs (s ++ [10]) = s := by
  unfold rstripWs
  rw [List.reverse_append]
  simp only [List.reverse_cons, List.reverse_nil, List.nil_append, List.singleton_append]
  rw [List.dropWhile_cons]
  simp only [isPySpace_10, if_true]
  cases hr : s.reverse with
  | nil => simp at hr; exact absurd hr hs
  | cons a r =>
    have : s.getLast? = some a := by
      rw [List.getLast?_eq_head?_reverse, hr]; rfl
    have ha := hl a this
    rw [List.dropWhile_cons]
    simp only [ha, Bool.false_eq_true, if_false]
    rw [← hr, List.reverse_reverse]

theorem splitOnCp_no_sep (sep : Nat) (p cur : CPs) (hp : ∀ c ∈ p, c ≠ sep) :
    splitOnCp sep p cur = [cur.reverse ++ p] := by
  induction p generalizing cur with
  | nil => simp [splitOnCp]
  | cons c p ih =>
    have hc : c ≠ sep := hp c (by simp)
    rw [splitOnCp.eq_2]
    simp only [beq_iff_eq, hc, if_false]
    rw [ih _ (fun x hx => hp x (by simp [hx]))]
    simp

theorem splitOnCp_field (sep : Nat) (v rest cur : CPs) (hv : ∀ c ∈ v, c ≠ sep) :
    splitOnCp sep (v ++ sep :: rest) cur = (cur.reverse ++ v) :: splitOnCp sep rest [] := by
  induction v generalizing cur with
  | nil => simp [splitOnCp]
  | cons c v ih =>
    have hc : c ≠ sep := hv c (by simp)
    rw [List.cons_append, splitOnCp.eq_2]
    simp only [beq_iff_eq, hc, if_false]
    rw [ih _ (fun x hx => hv x (by simp [hx]))]
    simp

/-! ## written lines -/

theorem writeLine_eq (v p : CPs) : writeLine v p = (v ++ 9 :: p) ++ [10] := by
  simp [writeLine]

theorem writeFile_cons (it : CPs × CPs) (items : List (CPs × CPs)) :
    writeFile (it :: items) = (it.1 ++ 9 :: it.2) ++ 10 :: writeFile items := by
  simp [writeFile, writeLine]

theorem split_writeLine' (v p : CPs) (hv : ∀ c ∈ v, c ≠ 9) (hp1 : p ≠ [])
    (hp : ∀ c ∈ p, c ≠ 9 ∧ isPySpace c = false) :
    pySplit 9 (rstripWs (writeLine v p)) = [v, p] := by
  rw [writeLine_eq, rstripWs_append_nl]
  · unfold pySplit
    rw [splitOnCp_field 9 v p [] hv, splitOnCp_no_sep 9 p [] (fun c hc => (hp c hc).1)]
    simp
  · simp
  · intro c hc
    rw [List.getLast?_append] at hc
    have : (9 :: p).getLast? = p.getLast? := by
      cases p with
      | nil => exact absurd rfl hp1
      | cons a r => simp [List.getLast?_cons_cons]
    rw [this] at hc
    cases hl : p.getLast? with
    | none =>
      rw [List.getLast?_eq_none_iff] at hl
      exact absurd hl hp1
    | some d =>
      rw [hl] at hc
      simp at hc
      subst hc
      exact (hp d (List.mem_of_getLast? hl)).2

theorem any_surrogate_writeLine (v p : CPs) (hv : ∀ c ∈ v, isSurrogate c = false)
    (hp : ∀ c ∈ p, isSurrogate c = false) : (writeLine v p).any isSurrogate = false := by
  rw [List.any_eq_false]
  intro c hc
  simp only [writeLine, List.mem_append, List.mem_singleton] at hc
  rcases hc with ((hc | hc) | hc) | hc
  · simp [hv c hc]
  · subst hc; decide
  · simp [hp c hc]
  · subst hc; decide

theorem codecLines_writeFile' (items : List (CPs × CPs))
    (hc : ∀ it ∈ items, (∀ c ∈ it.1, isLineSep c = false) ∧ (∀ c ∈ it.2, isLineSep c = false)) :
    codecLines (writeFile items) = items.map fun it => writeLine it.1 it.2 := by
  unfold codecLines
  induction items with
  | nil => simp [writeFile, splitLinesKeep]
  | cons it items ih =>
    rw [writeFile_cons, splitLinesKeep_body]
    · rw [ih (fun x hx => hc x (by simp [hx]))]
      simp [writeLine]
    · intro c hcm
      have h := hc it (by simp)
      simp only [List.mem_append, List.mem_cons] at hcm
      rcases hcm with hcm | hcm | hcm
      · exact h.1 c hcm
      · subst hcm; exact isLineSep_9
      · exact h.2 c hcm

/-- a written line whose fields can be carried by the format (raw form of `CleanValue ∧ CleanProb`) -/
def CleanItem (it : CPs × CPs) : Prop :=
  (∀ c ∈ it.1, isLineSep c = false ∧ c ≠ 0x09 ∧ isSurrogate c = false) ∧
  (it.2 ≠ [] ∧ ∀ c ∈ it.2, isLineSep c = false ∧ c ≠ 0x09 ∧ isPySpace c = false ∧ isSurrogate c = false)

theorem CleanItem.split {it : CPs × CPs} (h : CleanItem it) :
    pySplit 9 (rstripWs (writeLine it.1 it.2)) = [it.1, it.2] :=
  split_writeLine' it.1 it.2 (fun c hc => (h.1 c hc).2.1) h.2.1
    (fun c hc => ⟨(h.2.2 c hc).2.1, (h.2.2 c hc).2.2.1⟩)

theorem CleanItem.noSurr {it : CPs × CPs} (h : CleanItem it) :
    (writeLine it.1 it.2).any isSurrogate = false :=
  any_surrogate_writeLine it.1 it.2 (fun c hc => (h.1 c hc).2.2) (fun c hc => (h.2.2 c hc).2.2.2)

theorem codecLines_writeFile_clean (items : List (CPs × CPs)) (hc : ∀ it ∈ items, CleanItem it) :
    codecLines (writeFile items) = items.map fun it => writeLine it.1 it.2 :=
  codecLines_writeFile' items fun it hit =>
    ⟨fun c hcm => ((hc it hit).1 c hcm).1, fun c hcm => ((hc it hit).2.2 c hcm).1⟩

/-! ## scorer loader -/

theorem scorerLoop_writeLines (parseP : CPs → Option P) (items : List (CPs × CPs))
    (hc : ∀ it ∈ items, CleanItem it) (hp : ∀ it ∈ items, (parseP it.2).isSome) :
    scorerLoop parseP (items.map fun it => writeLine it.1 it.2) =
      some (items.filterMap fun it => (parseP it.2).map fun p => (it.1, p)) := by
  induction items with
  | nil => simp [scorerLoop]
  | cons it items ih =>
    have hcl := hc it (by simp)
    have hpi := hp it (by simp)
    obtain ⟨q, hq⟩ := Option.isSome_iff_exists.mp hpi
    rw [List.map_cons, scorerLoop]
    simp only [hcl.noSurr, Bool.false_eq_true, if_false, hcl.split]
    rw [ih (fun x hx => hc x (by simp [hx])) (fun x hx => hp x (by simp [hx]))]
    simp [hq]

/-! ## guesser loader -/

theorem loadLoop_writeLine_cons (parseP : CPs → Option P) (eqv : P → P → Bool)
    (it : CPs × CPs) (rest : List CPs) (prev : P) (sec : List (LGroup P))
    (hcl : CleanItem it) (p : P) (hq : parseP it.2 = some p) :
    loadLoop parseP eqv (writeLine it.1 it.2 :: rest) false prev sec =
      if eqv p prev = true then
        match appendToLast sec it.1 with
        | none => none
        | some sec' => loadLoop parseP eqv rest false prev sec'
      else loadLoop parseP eqv rest false p (sec ++ [⟨[it.1], p⟩]) := by
  rw [loadLoop]
  simp only [Bool.false_eq_true, if_false, hcl.noSurr, hcl.split, hq]
  rfl

theorem appendToLast_snoc (init : List (LGroup P)) (g : LGroup P) (v : CPs) :
    appendToLast (init ++ [g]) v = some (init ++ [{ g with values := g.values ++ [v] }]) := by
  simp [appendToLast]

/-- the (value, group probability) pairs of a section, in order -/
def pairs (gs : List (LGroup P)) : List (CPs × P) :=
  gs.flatMap fun g => g.values.map fun v => (v, g.prob)

theorem pairs_append (a b : List (LGroup P)) : pairs (a ++ b) = pairs a ++ pairs b := by
  simp [pairs]

theorem pairs_map_fst (gs : List (LGroup P)) : (pairs gs).map (·.1) = gs.flatMap (·.values) := by
  induction gs with
  | nil => rfl
  | cons g gs ih =>
    simp only [pairs, List.flatMap_cons, List.map_append] at ih ⊢
    rw [ih]
    simp [Function.comp_def]

/-- neighbouring groups have different probabilities -/
def AdjDiff (eqv : P → P → Bool) : List (LGroup P) → Prop
  | [] => True
  | [_] => True
  | a :: b :: r => eqv b.prob a.prob = false ∧ AdjDiff eqv (b :: r)

theorem AdjDiff_index (eqv : P → P → Bool) (gs : List (LGroup P)) (h : AdjDiff eqv gs) :
    ∀ (i : Nat) g1 g2, gs[i]? = some g1 → gs[i + 1]? = some g2 → eqv g2.prob g1.prob = false := by
  induction gs with
  | nil => intro i g1 g2 h1; simp at h1
  | cons a r ih =>
    cases r with
    | nil => intro i g1 g2 _ h2; simp at h2
    | cons b r =>
      intro i g1 g2 h1 h2
      cases i with
      | zero =>
        simp at h1 h2
        subst h1 h2
        exact h.1
      | succ i =>
        simp only [List.getElem?_cons_succ] at h1 h2
        exact ih h.2 i g1 g2 h1 (by simpa using h2)

theorem AdjDiff_snoc_values (eqv : P → P → Bool) (init : List (LGroup P)) (g : LGroup P)
    (vs : List CPs) (h : AdjDiff eqv (init ++ [g])) :
    AdjDiff eqv (init ++ [{ g with values := vs }]) := by
  induction init with
  | nil => simp [AdjDiff]
  | cons a r ih =>
    cases r with
    | nil => simpa [AdjDiff] using h
    | cons b r =>
      simp only [List.cons_append, AdjDiff] at h ⊢
      exact ⟨h.1, ih h.2⟩

theorem AdjDiff_snoc_new (eqv : P → P → Bool) (init : List (LGroup P)) (g g' : LGroup P)
    (h : AdjDiff eqv (init ++ [g])) (hd : eqv g'.prob g.prob = false) :
    AdjDiff eqv (init ++ [g] ++ [g']) := by
  induction init with
  | nil => simp [AdjDiff, hd]
  | cons a r ih =>
    cases r with
    | nil =>
      simp only [List.cons_append, List.nil_append, AdjDiff] at h ⊢
      exact ⟨h.1, hd, trivial⟩
    | cons b r =>
      simp only [List.cons_append, AdjDiff] at h ⊢
      exact ⟨h.1, ih h.2⟩

/-- item-wise relation between loaded (value, group probability) pairs and written items -/
def RelL (parseP : CPs → Option P) (eqv : P → P → Bool) : List (CPs × P) → List (CPs × CPs) → Prop
  | [], [] => True
  | a :: as, it :: its =>
    (a.1 = it.1 ∧ ∃ p, parseP it.2 = some p ∧ eqv p a.2 = true) ∧ RelL parseP eqv as its
  | _, _ => False

theorem RelL_index (parseP : CPs → Option P) (eqv : P → P → Bool) (ps : List (CPs × P))
    (items : List (CPs × CPs)) (h : RelL parseP eqv ps items) :
    ∀ (i : Nat) (a : CPs × P) (it : CPs × CPs), ps[i]? = some a → items[i]? = some it →
      a.1 = it.1 ∧ ∃ p, parseP it.2 = some p ∧ eqv p a.2 = true := by
  induction ps generalizing items with
  | nil => intro i a it h1; simp at h1
  | cons x ps ih =>
    cases items with
    | nil => simp [RelL] at h
    | cons y items =>
      simp only [RelL] at h
      intro i a it h1 h2
      cases i with
      | zero =>
        simp at h1 h2
        subst h1 h2
        exact h.1
      | succ i =>
        simp only [List.getElem?_cons_succ] at h1 h2
        exact ih items h.2 i a it h1 h2

theorem RelL_map_fst (parseP : CPs → Option P) (eqv : P → P → Bool) (ps : List (CPs × P))
    (items : List (CPs × CPs)) (h : RelL parseP eqv ps items) :
    ps.map (·.1) = items.map (·.1) := by
  induction ps generalizing items with
  | nil =>
    cases items with
    | nil => rfl
    | cons y items => simp [RelL] at h
  | cons x ps ih =>
    cases items with
    | nil => simp [RelL] at h
    | cons y items =>
      simp only [RelL] at h
      simp [h.1.1, ih items h.2]

/-- loop invariant: the last group carries `prev`, or the section is still empty and the next item
(if any) starts a new group -/
def LoadInv (parseP : CPs → Option P) (eqv : P → P → Bool) (items : List (CPs × CPs)) (prev : P)
    (sec : List (LGroup P)) : Prop :=
  (sec = [] ∧ ∀ it ∈ items.head?, ∀ p, parseP it.2 = some p → eqv p prev = false) ∨
  (∃ init g, sec = init ++ [g] ∧ g.prob = prev)

theorem loadLoop_spec (parseP : CPs → Option P) (eqv : P → P → Bool)
    (heq_refl : ∀ a, eqv a a = true)
    (items : List (CPs × CPs))
    (hc : ∀ it ∈ items, CleanItem it)
    (hp : ∀ it ∈ items, (parseP it.2).isSome)
    (prev : P) (sec : List (LGroup P)) (hinv : LoadInv parseP eqv items prev sec) :
    ∃ gs ps, loadLoop parseP eqv (items.map fun it => writeLine it.1 it.2) false prev sec = some gs ∧
      pairs gs = pairs sec ++ ps ∧ RelL parseP eqv ps items ∧
      ((∀ g ∈ sec, g.values ≠ []) → ∀ g ∈ gs, g.values ≠ []) ∧
      (AdjDiff eqv sec → AdjDiff eqv gs) := by
  induction items generalizing prev sec with
  | nil => exact ⟨sec, [], by simp [loadLoop], by simp, trivial, id, id⟩
  | cons it items ih =>
    have hcl := hc it (by simp)
    obtain ⟨p, hq⟩ := Option.isSome_iff_exists.mp (hp it (by simp))
    have hc' : ∀ x ∈ items, CleanItem x := fun x hx => hc x (by simp [hx])
    have hp' : ∀ x ∈ items, (parseP x.2).isSome := fun x hx => hp x (by simp [hx])
    rw [List.map_cons, loadLoop_writeLine_cons parseP eqv it _ prev sec hcl p hq]
    by_cases he : eqv p prev = true
    · -- same probability as the running one: the section cannot be empty
      rcases hinv with ⟨_, hfirst⟩ | ⟨init, g, hsec, hg⟩
      · have := hfirst it (by simp) p hq
        rw [he] at this; cases this
      · subst hsec
        simp only [he, if_true, appendToLast_snoc]
        obtain ⟨gs, ps, hload, hpairs, hrel, hne, hadj⟩ :=
          ih hc' hp' prev (init ++ [{ g with values := g.values ++ [it.1] }])
            (Or.inr ⟨init, _, rfl, hg⟩)
        refine ⟨gs, (it.1, prev) :: ps, hload, ?_, ⟨⟨rfl, p, hq, he⟩, hrel⟩, ?_, ?_⟩
        · rw [hpairs]; simp [pairs, hg]
        · intro hsecne
          apply hne
          intro x hx
          simp only [List.mem_append, List.mem_singleton] at hx
          rcases hx with hx | hx
          · exact hsecne x (by simp [hx])
          · subst hx; simp
        · intro hs
          exact hadj (AdjDiff_snoc_values eqv init g _ hs)
    · have he' : eqv p prev = false := by simpa using he
      simp only [he]
      obtain ⟨gs, ps, hload, hpairs, hrel, hne, hadj⟩ :=
        ih hc' hp' p (sec ++ [⟨[it.1], p⟩]) (Or.inr ⟨sec, _, rfl, rfl⟩)
      refine ⟨gs, (it.1, p) :: ps, hload, ?_, ⟨⟨rfl, p, hq, heq_refl p⟩, hrel⟩, ?_, ?_⟩
      · rw [hpairs]; simp [pairs]
      · intro hsecne
        apply hne
        intro x hx
        simp only [List.mem_append, List.mem_singleton] at hx
        rcases hx with hx | hx
        · exact hsecne x hx
        · subst hx; simp
      · intro hs
        apply hadj
        rcases hinv with ⟨hnil, _⟩ | ⟨init, g, hsec, hg⟩
        · subst hnil; simp [AdjDiff]
        · subst hsec
          exact AdjDiff_snoc_new eqv init g _ hs (by simpa [hg] using he')

/-! ## base structures -/

theorem insertCase_contains_M (reps : List CPs) :
    (insertCase reps).contains [0x4d] = reps.contains [0x4d] := by
  fun_induction insertCase reps with
  | case1 => rfl
  | case2 r lenStr ih =>
    simp only [List.contains_cons, ih]
    have : ([0x4d] == 0x43 :: lenStr) = false := by simp
    simp [this]
  | case3 l r hne ih => simp only [List.contains_cons, ih]

theorem baseLoop_skip (parseP : CPs → Option P) (A : PArith P) (isAlpha : Nat → Bool)
    (hone : ∀ p, A.div p A.one = some p) (tot : P) (lines : List CPs) :
    ∀ bs0, baseLoop parseP A isAlpha false A.one lines = some bs0 →
      (∀ b ∈ bs0, (A.div b.prob tot).isSome) →
      baseLoop parseP A isAlpha true tot lines =
        some ((bs0.filter fun b => !(b.replacements.contains [0x4d])).filterMap fun b =>
          (A.div b.prob tot).map fun q => { b with prob := q }) := by
  induction lines with
  | nil => intro bs0 h _; simp [baseLoop] at h ⊢; subst h; simp
  | cons line rest ih =>
    intro bs0 h hdiv
    rw [baseLoop] at h ⊢
    split at h
    next value probText tl hs =>
      cases hq : parseP probText with
      | none => simp [hq] at h
      | some p =>
        simp only [hq, hone] at h ⊢
        cases hr : splitStructure isAlpha value [] with
        | none => simp [hr] at h
        | some reps =>
          simp only [hr] at h ⊢
          cases hm : baseLoop parseP A isAlpha false A.one rest with
          | none => simp [hm] at h
          | some more =>
            simp [hm] at h
            subst h
            have hd := hdiv ⟨p, reps⟩ (by simp)
            obtain ⟨q, hq2⟩ := Option.isSome_iff_exists.mp hd
            simp only at hq2
            rw [ih more hm (fun b hb => hdiv b (by simp [hb]))]
            simp only [hq2, List.filter_cons]
            by_cases hM : [77] ∈ reps
            · simp [hM]
            · simp [hM, hq2]
    next => simp at h

theorem filter_map_insertCase (A : PArith P) (tot : P) (bs0 : List (BaseS P)) :
    ((bs0.filter fun b => !(b.replacements.contains [0x4d])).filterMap fun b =>
        (A.div b.prob tot).map fun q => { b with prob := q }).map
      (fun b => { b with replacements := insertCase b.replacements }) =
    ((bs0.map fun b => { b with replacements := insertCase b.replacements }).filter
        fun b => !(b.replacements.contains [0x4d])).filterMap fun b =>
      (A.div b.prob tot).map fun q => { b with prob := q } := by
  induction bs0 with
  | nil => rfl
  | cons b bs0 ih =>
    simp only [List.filter_cons, List.map_cons, insertCase_contains_M]
    by_cases hM : b.replacements.contains [0x4d] = true
    · simp only [hM, Bool.not_true, Bool.false_eq_true, if_false]
      exact ih
    · have hM' : b.replacements.contains [0x4d] = false := by simpa using hM
      simp only [hM', Bool.not_false, if_true, List.filterMap_cons]
      cases hd : A.div b.prob tot with
      | none => simpa using ih
      | some q => simpa using ih

theorem loadBase_skip' (parseP : CPs → Option P) (A : PArith P) (isAlpha : Nat → Bool) (text : CPs)
    (hone : ∀ p, A.div p A.one = some p)
    (bs : List (BaseS P)) (hdef : loadBase parseP A isAlpha false text = some bs)
    (tot : P)
    (htot : (match findMarkovProb parseP (textModeLines text) with
      | none => none
      | some none => some A.one
      | some (some pm) => some (A.sub A.one pm)) = some tot)
    (hdiv : ∀ b ∈ bs, (A.div b.prob tot).isSome) :
    loadBase parseP A isAlpha true text =
      some ((bs.filter fun b => !(b.replacements.contains [0x4d])).filterMap fun b =>
        (A.div b.prob tot).map fun q => { b with prob := q }) := by
  unfold loadBase at hdef ⊢
  simp only [Bool.false_eq_true, if_false, Option.map_eq_some_iff] at hdef
  obtain ⟨bs0, hb0, hbs⟩ := hdef
  have hdiv0 : ∀ b ∈ bs0, (A.div b.prob tot).isSome := by
    intro b hb
    have := hdiv _ (by rw [← hbs]; exact List.mem_map_of_mem hb)
    simpa using this
  have tail : (baseLoop parseP A isAlpha true tot (textModeLines text)).map (fun bs =>
      bs.map fun b => { b with replacements := insertCase b.replacements }) =
      some ((bs.filter fun b => !(b.replacements.contains [0x4d])).filterMap fun b =>
        (A.div b.prob tot).map fun q => { b with prob := q }) := by
    rw [baseLoop_skip parseP A isAlpha hone tot _ bs0 hb0 hdiv0, ← hbs]
    simp only [Option.map_some]
    rw [filter_map_insertCase]
  simp only [if_true]
  cases hf : findMarkovProb parseP (textModeLines text) with
  | none => simp [hf] at htot
  | some o =>
    cases o with
    | none =>
      simp only [hf, Option.some.injEq] at htot ⊢
      subst htot
      exact tail
    | some pm =>
      simp only [hf, Option.some.injEq] at htot ⊢
      subst htot
      exact tail

theorem filterMap_div_one (A : PArith P) (hone : ∀ p, A.div p A.one = some p) (bs : List (BaseS P)) :
    (bs.filterMap fun b => (A.div b.prob A.one).map fun q => { b with prob := q }) = bs := by
  induction bs with
  | nil => rfl
  | cons b bs ih =>
    rw [List.filterMap_cons, hone, ih]
    rfl

/-! ## `insertCase` -/

theorem insertCase_filter (reps : List CPs) (h : ∀ r ∈ reps, r.head? ≠ some 0x43) :
    (insertCase reps).filter (fun r => r.head? != some 0x43) = reps := by
  fun_induction insertCase reps with
  | case1 => rfl
  | case2 r lenStr ih =>
    have ih' := ih (fun x hx => h x (by simp [hx]))
    simp [List.filter_cons, ih']
  | case3 l r hne ih =>
    have ih' := ih (fun x hx => h x (by simp [hx]))
    have hl := h l (by simp)
    simp [ih', hl]

theorem insertCase_next (reps : List CPs) :
    ∀ (i : Nat) r, (insertCase reps)[i]? = some r → r.head? = some 0x41 →
      (insertCase reps)[i + 1]? = some (0x43 :: r.tail) := by
  fun_induction insertCase reps with
  | case1 => intro i r h; simp at h
  | case2 rest lenStr ih =>
    intro i r h1 h2
    match i with
    | 0 => simp at h1; subst h1; simp
    | 1 => simp at h1; subst h1; simp at h2
    | k + 2 =>
      simp only [List.getElem?_cons_succ] at h1 ⊢
      exact ih k r h1 h2
  | case3 l rest hne ih =>
    intro i r h1 h2
    match i with
    | 0 =>
      simp at h1; subst h1
      cases l with
      | nil => simp at h2
      | cons a t =>
        simp at h2; subst h2
        exact absurd rfl (hne t)
    | k + 1 =>
      simp only [List.getElem?_cons_succ] at h1 ⊢
      exact ih k r h1 h2

end Pcfg
