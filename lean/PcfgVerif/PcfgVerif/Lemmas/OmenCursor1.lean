import PcfgVerif.Lemmas.OmenIface
/-!
# OMEN cursors, part 1: the one-dimensional `advance` loop, prefix sums, level tables
-/
namespace Omen

/-! ## `advance` -/

theorem advance_some (sizes : Nat → Nat) (M : Nat) (bound : Int) :
    ∀ (fuel level index l' i' : Nat),
      advance sizes M bound fuel level index = some (l', i') →
      l' ≤ M ∧ i' < sizes l' ∧
        ((l' = level ∧ i' = index) ∨
          (level < l' ∧ i' = 0 ∧ (l' : Int) ≤ bound ∧ sizes level ≤ index ∧
            ∀ k, level < k → k < l' → sizes k = 0)) := by
  intro fuel
  induction fuel with
  | zero => intro level index l' i' h; simp [advance] at h
  | succ fuel ih =>
    intro level index l' i' h
    unfold advance at h
    split at h
    · split at h
      · simp at h
        obtain ⟨rfl, rfl⟩ := h
        refine ⟨by assumption, by omega, Or.inl ⟨rfl, rfl⟩⟩
      · split at h
        · simp at h
        · split at h
          · simp at h
          · have := ih _ _ _ _ h
            obtain ⟨h1, h2, h3⟩ := this
            refine ⟨h1, h2, Or.inr ?_⟩
            rcases h3 with ⟨rfl, rfl⟩ | ⟨h4, h5, h6, h7, h8⟩
            · refine ⟨by omega, rfl, by omega, by omega, ?_⟩
              intro k hk1 hk2; omega
            · refine ⟨by omega, h5, h6, by omega, ?_⟩
              intro k hk1 hk2
              by_cases hk : k = level + 1
              · subst hk; omega
              · exact h8 k (by omega) hk2
    · simp at h

theorem advance_none (sizes : Nat → Nat) (M : Nat) (bound : Int) :
    ∀ (fuel level index : Nat), M + 1 ≤ fuel + level →
      advance sizes M bound fuel level index = none → level ≤ M →
      sizes level ≤ index ∧ ∀ k, level < k → k ≤ M → (k : Int) ≤ bound → sizes k = 0 := by
  intro fuel
  induction fuel with
  | zero => intro level index hf h hl; omega
  | succ fuel ih =>
    intro level index hf h hl
    unfold advance at h
    rw [if_pos hl] at h
    split at h
    · simp at h
    · split at h
      · refine ⟨by omega, ?_⟩
        intro k hk1 hk2 hk3; omega
      · split at h
        · refine ⟨by omega, ?_⟩
          intro k hk1 hk2 hk3; omega
        · have := ih (level + 1) 0 (by omega) h (by omega)
          refine ⟨by omega, ?_⟩
          intro k hk1 hk2 hk3
          by_cases hk : k = level + 1
          · subst hk; omega
          · exact this.2 k (by omega) hk2 hk3

/-! ## prefix sums -/

def psum (sizes : Nat → Nat) : Nat → Nat
  | 0 => 0
  | n + 1 => psum sizes n + sizes n

theorem psum_mono (sizes : Nat → Nat) {a b : Nat} (h : a ≤ b) : psum sizes a ≤ psum sizes b := by
  induction b with
  | zero => have : a = 0 := by omega
            subst this; exact Nat.le_refl _
  | succ b ih =>
    by_cases hb : a = b + 1
    · subst hb; exact Nat.le_refl _
    · have := ih (by omega)
      simp only [psum]; omega

theorem psum_shift (f : Nat → Nat) (n : Nat) :
    psum f (n + 1) = f 0 + psum (fun k => f (k + 1)) n := by
  induction n with
  | zero => simp [psum]
  | succ n ih => rw [psum, ih]; simp only [psum]; omega

theorem psum_tbl {α : Type} (tbl : List (List α)) :
    psum (fun l => (tbl.getD l []).length) tbl.length = (tbl.map List.length).sum := by
  induction tbl with
  | nil => simp [psum]
  | cons hd tl ih =>
    rw [List.length_cons, psum_shift]
    simp only [List.getD_cons_zero, List.getD_cons_succ, List.map_cons, List.sum_cons]
    rw [ih]

/-- a valid position has a rank below the total -/
theorem pos_lt (sizes : Nat → Nat) (M l i : Nat) (hl : l ≤ M) (hi : i < sizes l) :
    psum sizes l + i < psum sizes (M + 1) := by
  have h1 : psum sizes (l + 1) ≤ psum sizes (M + 1) := psum_mono sizes (by omega)
  simp only [psum] at h1 ⊢; omega

/-- `advance` from the successor of a valid position strictly increases the rank -/
theorem advance_pos (sizes : Nat → Nat) (M : Nat) (bound : Int) (fuel l i l' i' : Nat)
    (hi : i < sizes l)
    (h : advance sizes M bound fuel l (i + 1) = some (l', i')) :
    psum sizes l + i + 1 ≤ psum sizes l' + i' := by
  obtain ⟨_, _, h3⟩ := advance_some sizes M bound fuel l (i + 1) l' i' h
  rcases h3 with ⟨rfl, rfl⟩ | ⟨h4, rfl, _, _, _⟩
  · omega
  · have : psum sizes (l + 1) ≤ psum sizes l' := psum_mono sizes (by omega)
    simp only [psum] at this; omega

/-! ## level tables -/

theorem mem_getD_flatten {α : Type} (tbl : List (List α)) (a : Nat) (v : α)
    (h : v ∈ tbl.getD a []) : v ∈ tbl.flatten := by
  by_cases ha : a < tbl.length
  · rw [List.mem_flatten]
    refine ⟨tbl[a], List.getElem_mem ha, ?_⟩
    simpa [List.getD_eq_getElem?_getD, ha] using h
  · simp [List.getD_eq_getElem?_getD, List.getElem?_eq_none (Nat.le_of_not_lt ha)] at h

theorem getD_mem_tbl {α : Type} (tbl : List (List α)) (a : Nat)
    (h : 0 < (tbl.getD a []).length) : tbl.getD a [] ∈ tbl := by
  by_cases ha : a < tbl.length
  · have : tbl.getD a [] = tbl[a] := by simp [List.getD_eq_getElem?_getD, ha]
    rw [this]; exact List.getElem_mem ha
  · simp [List.getD_eq_getElem?_getD, List.getElem?_eq_none (Nat.le_of_not_lt ha)] at h

theorem level_nodup {α : Type} (tbl : List (List α)) (hn : tbl.flatten.Nodup) (a : Nat) :
    (tbl.getD a []).Nodup := by
  induction tbl generalizing a with
  | nil => simp
  | cons hd tl ih =>
    rw [List.flatten_cons, List.nodup_append] at hn
    cases a with
    | zero => simpa using hn.1
    | succ a => simpa using ih hn.2.1 a

theorem level_unique {α : Type} (tbl : List (List α)) (hn : tbl.flatten.Nodup) (a a' : Nat) (v : α)
    (h : v ∈ tbl.getD a []) (h' : v ∈ tbl.getD a' []) : a = a' := by
  induction tbl generalizing a a' with
  | nil => simp at h
  | cons hd tl ih =>
    rw [List.flatten_cons, List.nodup_append] at hn
    cases a with
    | zero =>
      cases a' with
      | zero => rfl
      | succ a' =>
        exfalso
        simp only [List.getD_cons_zero, List.getD_cons_succ] at h h'
        exact hn.2.2 v h v (mem_getD_flatten tl a' v h') rfl
    | succ a =>
      cases a' with
      | zero =>
        exfalso
        simp only [List.getD_cons_zero, List.getD_cons_succ] at h h'
        exact hn.2.2 v h' v (mem_getD_flatten tl a v h) rfl
      | succ a' =>
        simp only [List.getD_cons_succ] at h h'
        rw [ih hn.2.1 a a' h h']

theorem getD_eq_getElem' {α : Type} (l : List α) (j : Nat) (d : α) (h : j < l.length) :
    l.getD j d = l[j] := by
  simp [List.getD_eq_getElem?_getD, h]

/-- two valid positions of a duplicate-free table holding the same value coincide -/
theorem pos_unique {α : Type} (tbl : List (List α)) (hn : tbl.flatten.Nodup) (d : α)
    (a j a' j' : Nat) (hj : j < (tbl.getD a []).length) (hj' : j' < (tbl.getD a' []).length)
    (h : (tbl.getD a []).getD j d = (tbl.getD a' []).getD j' d) : a = a' ∧ j = j' := by
  have e1 : (tbl.getD a []).getD j d = (tbl.getD a [])[j] := getD_eq_getElem' _ j d hj
  have e2 : (tbl.getD a' []).getD j' d = (tbl.getD a' [])[j'] := getD_eq_getElem' _ j' d hj'
  have m1 : (tbl.getD a []).getD j d ∈ tbl.getD a [] := by rw [e1]; exact List.getElem_mem hj
  have m2 : (tbl.getD a []).getD j d ∈ tbl.getD a' [] := by rw [h, e2]; exact List.getElem_mem hj'
  have haa : a = a' := level_unique tbl hn a a' _ m1 m2
  subst haa
  refine ⟨rfl, ?_⟩
  rw [e1, e2] at h
  exact (List.getElem_inj (level_nodup tbl hn a)).mp h

theorem tblLevel_iff {α : Type} [BEq α] [LawfulBEq α] (tbl : List (List α))
    (hn : tbl.flatten.Nodup) (v : α) (a : Nat) :
    tblLevel tbl v = some a ↔ a < tbl.length ∧ v ∈ tbl.getD a [] := by
  unfold tblLevel
  rw [List.find?_range_eq_some]
  constructor
  · rintro ⟨hc, hr, _⟩
    exact ⟨List.mem_range.1 hr, by simpa using hc⟩
  · rintro ⟨ha, hv⟩
    refine ⟨by simpa using hv, List.mem_range.2 ha, ?_⟩
    intro k hk
    simp only [Bool.not_eq_eq_eq_not, Bool.not_true, List.contains_eq_mem, decide_eq_false_iff_not]
    intro hv'
    have := level_unique tbl hn k a v hv' hv
    omega

/-! ## `findFirst` -/

theorem findFirst_some {α : Type} (M : Nat) (tbl : List (List α)) (s : Nat)
    (h : findFirst M tbl = some s) :
    s < M ∧ 0 < (tbl.getD s []).length ∧ ∀ k, k < s → (tbl.getD k []).length = 0 := by
  unfold findFirst at h
  rw [List.find?_range_eq_some] at h
  obtain ⟨hc, hr, hall⟩ := h
  refine ⟨List.mem_range.1 hr, ?_, ?_⟩
  · simp only [bne_iff_ne, ne_eq] at hc; omega
  · intro k hk
    have := hall k hk
    simpa using this

end Omen
