import PcfgVerif.Lemmas.OmenFilesB
/-!
# OMEN files, part C: the loaded `cp` dict of a trained ruleset answers like the `cp` of `toTables`
-/
namespace Omen

/-- the letters `e` lists at level `l`, in the order of its `next_letter` dict -/
def TEntry.charsAt (e : TEntry) (l : Nat) : List Char := (e.next.filter (·.2 == l)).map (·.1)

theorem lineChars_cons (ln : NLine) (r : List NLine) (ip : Str) (l : Nat) :
    lineChars (ln :: r) ip l =
      (if ln.2.dropLast == ip && ln.1 == l then ln.2.getLast?.toList else []) ++ lineChars r ip l := by
  unfold lineChars
  by_cases hm : (ln.2.dropLast == ip && ln.1 == l) = true
  · simp only [List.filter_cons, hm, if_true, List.filterMap_cons]
    cases ln.2.getLast? <;> simp
  · have hm' : (ln.2.dropLast == ip && ln.1 == l) = false := by simpa using hm
    simp [hm']

theorem lineChars_append (a b : List NLine) (ip : Str) (l : Nat) :
    lineChars (a ++ b) ip l = lineChars a ip l ++ lineChars b ip l := by
  unfold lineChars
  rw [List.filter_append, List.filterMap_append]

theorem lineChars_entry (key : Str) (next : List (Char × Nat)) (ip : Str) (l : Nat) :
    lineChars (next.map fun p => (p.2, key ++ [p.1])) ip l =
      if key == ip then (next.filter (·.2 == l)).map (·.1) else [] := by
  induction next with
  | nil => simp [lineChars]
  | cons p r ih =>
    rw [List.map_cons, lineChars_cons, ih]
    simp only [List.dropLast_concat, List.getLast?_concat, Option.toList_some]
    by_cases hk : key == ip
    · by_cases hl : p.2 == l
      · simp [hk, hl]
      · have hl' : (p.2 == l) = false := by simpa using hl
        simp [hk, hl']
    · have hk' : (key == ip) = false := by simpa using hk
      simp [hk']

theorem lineChars_entries (es : List TEntry) (hk : (es.map (·.key)).Nodup) (ip : Str) (l : Nat) :
    lineChars (es.flatMap fun e => e.next.map fun p => (p.2, e.key ++ [p.1])) ip l =
      match es.find? (·.key == ip) with
      | none => []
      | some e => e.charsAt l := by
  induction es with
  | nil => simp [lineChars]
  | cons e r ih =>
    have hnd := List.nodup_cons.mp (by simpa using hk : (e.key :: r.map (·.key)).Nodup)
    rw [List.flatMap_cons, lineChars_append, lineChars_entry, List.find?_cons]
    by_cases hke : e.key == ip
    · have hrest : lineChars (r.flatMap fun e => e.next.map fun p => (p.2, e.key ++ [p.1])) ip l = [] := by
        rw [ih hnd.2]
        cases hf : r.find? (·.key == ip) with
        | none => rfl
        | some e' =>
          have h1 := List.mem_of_find?_eq_some hf
          have h2 : e'.key = ip := by simpa using List.find?_some hf
          have h3 : e.key = ip := by simpa using hke
          exact absurd (List.mem_map.mpr ⟨e', h1, by rw [h2, ← h3]⟩) hnd.1
      simp [hke, hrest, TEntry.charsAt]
    · have hke' : (e.key == ip) = false := by simpa using hke
      simp only [hke', Bool.false_eq_true, if_false, List.nil_append]
      exact ih hnd.2

/-- the lines of `CP.level` that concern prefix `ip` are those of the one entry with that key -/
theorem lineChars_cpLines (t : TTables) (hk : (t.entries.map (·.key)).Nodup) (ip : Str) (l : Nat) :
    lineChars t.cpLines ip l = match t.entry ip with
      | none => []
      | some e => e.charsAt l :=
  lineChars_entries t.entries hk ip l

/-- look-up in the per-key level groups of `toTables` -/
theorem lvlChars_byLevel_opt (M : Nat) (next : List (Char × Nat)) (l : Nat) :
    lvlChars (byLevel M next) l =
      if l ≤ M ∧ (next.filter (·.2 == l)).map (·.1) ≠ [] then some ((next.filter (·.2 == l)).map (·.1)) else none := by
  unfold lvlChars
  by_cases h : l ≤ M ∧ (next.filter (·.2 == l)).map (·.1) ≠ []
  · rw [if_pos h]
    have hm : (l, (next.filter (·.2 == l)).map (·.1)) ∈ byLevel M next := (mem_byLevel M next l _).2 ⟨h.1, rfl, h.2⟩
    rw [find?_unique hm (by simp)]
    · rfl
    · rintro ⟨l', cs'⟩ hy hyl
      have hl' : l' = l := by simpa using hyl
      subst hl'
      obtain ⟨_, rfl, _⟩ := (mem_byLevel M next l' cs').1 hy
      rfl
  · rw [if_neg h]
    cases hf : (byLevel M next).find? (·.1 == l) with
    | none => rfl
    | some p =>
      obtain ⟨l', cs'⟩ := p
      have h1 := List.mem_of_find?_eq_some hf
      have h2 : l' = l := by simpa using List.find?_some hf
      subst h2
      obtain ⟨a, b, c⟩ := (mem_byLevel M next l' cs').1 h1
      exact absurd ⟨a, b ▸ c⟩ h

/-- **`CP.level`**: the dict the loader builds from the trainer's lines answers every `(prefix, level)` look-up
like the `cp` of `toTables` -/
theorem loadCp_cpLines (t : TTables) (hg : t.Good) :
    ∃ cp, loadCp t.maxLevel t.cpLines = some cp ∧
      ∀ ip l, look cp ip l = t.toTables.m.cpChars ip l := by
  have hl : ∀ ln ∈ t.cpLines, ln.1 ≤ t.maxLevel := by
    intro ln hln
    unfold TTables.cpLines at hln
    obtain ⟨e, he, hq⟩ := List.mem_flatMap.mp hln
    obtain ⟨p, hp, rfl⟩ := List.mem_map.mp hq
    exact hg.cp_levels e he p hp
  have hne : ∀ ln ∈ t.cpLines, ln.2 ≠ [] := by
    intro ln hln
    unfold TTables.cpLines at hln
    obtain ⟨e, he, hq⟩ := List.mem_flatMap.mp hln
    obtain ⟨p, hp, rfl⟩ := List.mem_map.mp hq
    simp
  obtain ⟨cp, hcp, hlook⟩ := loadCpGo_spec t.maxLevel t.cpLines [] hl hne
  refine ⟨cp, hcp, fun ip l => ?_⟩
  rw [hlook ip l, lineChars_cpLines t hg.keys_nodup]
  have h0 : look [] ip l = none := rfl
  rw [h0]
  unfold Model.cpChars
  rw [toTables_cpOf t hg.keys_nodup]
  cases he : t.entry ip with
  | none => simp [extend]
  | some e =>
    obtain ⟨hmem, _⟩ := entry_some he
    have hlv : ∀ l', (e.next.filter (·.2 == l')).map (·.1) ≠ [] → l' ≤ t.maxLevel := by
      intro l' hne'
      obtain ⟨c, hc⟩ := List.exists_mem_of_ne_nil _ hne'
      have := (mem_levelChars e.next l' c).1 hc
      exact hg.cp_levels e hmem _ this
    simp only [extend, TEntry.charsAt]
    by_cases hcs : (e.next.filter (·.2 == l)).map (·.1) = []
    · simp only [hcs, List.isEmpty_nil, if_true]
      by_cases hb : byLevel t.maxLevel e.next = []
      · simp [hb]
      · simp only [hb, if_false, Option.bind_some]
        rw [lvlChars_byLevel_opt]
        simp [hcs]
    · have hemp : ((e.next.filter (·.2 == l)).map (·.1)).isEmpty = false := by
        cases h : (e.next.filter (·.2 == l)).map (·.1) with
        | nil => exact absurd h hcs
        | cons _ _ => rfl
      have hb : byLevel t.maxLevel e.next ≠ [] :=
        List.ne_nil_of_mem ((mem_byLevel t.maxLevel e.next l _).2 ⟨hlv l hcs, rfl, hcs⟩)
      simp only [hemp, Bool.false_eq_true, if_false, Option.getD_none, List.nil_append, hb, Option.bind_some]
      rw [lvlChars_byLevel_opt, if_pos ⟨hlv l hcs, hcs⟩]

end Omen

namespace Omen

/-- **the OMEN files of a trained ruleset load**, and what `load_rules` builds is `toTables` as far as the generator can
tell: the same `ip` and `ln` tables, the same `max_level`, and the same answer to every `cp[prefix][level]` look-up -/
theorem loadTables_spec (t : TTables) (hg : t.Good) :
    ∃ tb, t.loadTables = some tb ∧ tb.ipTbl = t.toTables.ipTbl ∧ tb.lnTbl = t.toTables.lnTbl ∧
      tb.m.maxLevel = t.toTables.m.maxLevel ∧ ∀ ip l, tb.m.cpChars ip l = t.toTables.m.cpChars ip l := by
  obtain ⟨cp, hcp, hlook⟩ := loadCp_cpLines t hg
  refine ⟨{ m := { maxLevel := t.maxLevel, cp := cp }, ipTbl := t.toTables.ipTbl, lnTbl := t.toTables.lnTbl }, ?_, rfl, rfl, rfl, ?_⟩
  · unfold TTables.loadTables
    rw [loadIp_ipLines t hg.ip_levels, hcp, loadLn_lnLines t hg.ln_levels]
  · intro ip l
    exact hlook ip l

/-- `_find_cp` reads the dict only through `cp[prefix][level]` look-ups: two models that answer those alike (and have the
same `max_level`) give the same result -/
theorem findCp_congr (m1 m2 : Model) (hM : m1.maxLevel = m2.maxLevel)
    (h : ∀ ip l, m1.cpChars ip l = m2.cpChars ip l) (ip : Str) (top bottom : Nat) :
    m1.findCp ip top bottom = m2.findCp ip top bottom := by
  have hgo : ∀ (e1 e2 : List (Nat × List Char)) (he : ∀ l, lvlChars e1 l = lvlChars e2 l) (fuel t : Nat),
      Model.findCp.go bottom e1 fuel t = Model.findCp.go bottom e2 fuel t := by
    intro e1 e2 he fuel
    induction fuel with
    | zero => intro t; rfl
    | succ n ih =>
      intro t
      unfold Model.findCp.go
      by_cases hb : t < bottom
      · simp [hb]
      · simp only [hb, if_false, he t]
        cases lvlChars e2 t with
        | some cs => rfl
        | none =>
          by_cases h0 : t = 0
          · simp [h0]
          · simp only [h0, if_false]
            exact ih (t - 1)
  have hnone : ∀ (e : List (Nat × List Char)) (he : ∀ l, lvlChars e l = none) (fuel t : Nat),
      Model.findCp.go bottom e fuel t = none := by
    intro e he fuel
    induction fuel with
    | zero => intro t; rfl
    | succ n ih =>
      intro t
      unfold Model.findCp.go
      by_cases hb : t < bottom
      · simp [hb]
      · simp only [hb, if_false, he t]
        by_cases h0 : t = 0
        · simp [h0]
        · simp only [h0, if_false]
          exact ih (t - 1)
  unfold Model.findCp
  have hk := h ip
  unfold Model.cpChars at hk
  rw [hM]
  cases h1 : m1.cpOf ip with
  | none =>
    cases h2 : m2.cpOf ip with
    | none => rfl
    | some e2 =>
      simp only []
      rw [h1, h2] at hk
      exact (hnone e2 (fun l => by simpa using (hk l).symm) _ _).symm
  | some e1 =>
    cases h2 : m2.cpOf ip with
    | none =>
      simp only []
      rw [h1, h2] at hk
      exact hnone e1 (fun l => by simpa using hk l) _ _
    | some e2 =>
      simp only []
      rw [h1, h2] at hk
      exact hgo e1 e2 (fun l => by simpa using hk l) _ _

end Omen
