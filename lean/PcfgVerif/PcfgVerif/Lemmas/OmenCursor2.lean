import PcfgVerif.Lemmas.OmenCursor1
/-!
# OMEN cursors, part 2: the cursor step, its orbit, termination rank and coverage
-/
namespace Omen

abbrev Tables.ipSize (t : Tables) (l : Nat) : Nat := (t.ipTbl.getD l []).length
abbrev Tables.lnSize (t : Tables) (l : Nat) : Nat := (t.lnTbl.getD l []).length

structure Cursor.Valid (t : Tables) (c : Cursor) : Prop where
  lenLvl : c.lenLvl ≤ t.m.maxLevel
  lenIdx : c.lenIdx < t.lnSize c.lenLvl
  ipLvl : c.ipLvl ≤ t.m.maxLevel
  ipIdx : c.ipIdx < t.ipSize c.ipLvl

def Tables.startIp (t : Tables) : Nat := (findFirst t.m.maxLevel t.ipTbl).getD 0

/-- what `seek` does with the cursor when the current (length, ip) is exhausted -/
def Tables.step (t : Tables) (target : Nat) (c : Cursor) : Option Cursor :=
  match t.increaseIp target c with
  | some c' => some c'
  | none => t.increaseLen target t.startIp c

/-- the first non-empty ip level exists -/
structure Tables.StartOK (t : Tables) : Prop where
  le : t.startIp ≤ t.m.maxLevel
  pos : 0 < t.ipSize t.startIp
  below : ∀ k, k < t.startIp → t.ipSize k = 0

theorem startOK_of_findFirst (t : Tables) (si : Nat)
    (h : findFirst t.m.maxLevel t.ipTbl = some si) : t.startIp = si ∧ t.StartOK := by
  have e : t.startIp = si := by simp [Tables.startIp, h]
  obtain ⟨h1, h2, h3⟩ := findFirst_some _ _ _ h
  refine ⟨e, ⟨?_, ?_, ?_⟩⟩
  · rw [e]; omega
  · rw [e]; exact h2
  · rw [e]; exact h3

/-! ## characterisation of the two increase functions -/

theorem increaseIp_some (t : Tables) (target : Nat) (c c' : Cursor)
    (h : t.increaseIp target c = some c') :
    c'.lenLvl = c.lenLvl ∧ c'.lenIdx = c.lenIdx ∧ c'.ipLvl ≤ t.m.maxLevel ∧
    c'.ipIdx < t.ipSize c'.ipLvl ∧
    ((c'.ipLvl = c.ipLvl ∧ c'.ipIdx = c.ipIdx + 1) ∨
      (c.ipLvl < c'.ipLvl ∧ c'.ipIdx = 0 ∧ (c'.ipLvl : Int) ≤ (target : Int) - c.lenLvl ∧
        t.ipSize c.ipLvl ≤ c.ipIdx + 1 ∧ ∀ k, c.ipLvl < k → k < c'.ipLvl → t.ipSize k = 0)) := by
  unfold Tables.increaseIp at h
  split at h
  · rename_i l i hadv
    have := advance_some _ _ _ _ _ _ _ _ hadv
    simp only [Option.some.injEq] at h
    subst h
    exact ⟨rfl, rfl, this⟩
  · simp at h

theorem increaseIp_none (t : Tables) (target : Nat) (c : Cursor)
    (h : t.increaseIp target c = none) (hl : c.ipLvl ≤ t.m.maxLevel) :
    t.ipSize c.ipLvl ≤ c.ipIdx + 1 ∧
    ∀ k, c.ipLvl < k → k ≤ t.m.maxLevel → (k : Int) ≤ (target : Int) - c.lenLvl → t.ipSize k = 0 := by
  unfold Tables.increaseIp at h
  split at h
  · simp at h
  · rename_i hadv
    exact advance_none _ _ _ _ _ _ (by omega) hadv hl

theorem increaseLen_some (t : Tables) (target si : Nat) (c c' : Cursor)
    (h : t.increaseLen target si c = some c') :
    c'.ipLvl = si ∧ c'.ipIdx = 0 ∧ c'.lenLvl ≤ t.m.maxLevel ∧
    c'.lenIdx < t.lnSize c'.lenLvl ∧
    ((c'.lenLvl = c.lenLvl ∧ c'.lenIdx = c.lenIdx + 1) ∨
      (c.lenLvl < c'.lenLvl ∧ c'.lenIdx = 0 ∧ (c'.lenLvl : Int) ≤ (target : Int) ∧
        t.lnSize c.lenLvl ≤ c.lenIdx + 1 ∧ ∀ k, c.lenLvl < k → k < c'.lenLvl → t.lnSize k = 0)) := by
  unfold Tables.increaseLen at h
  split at h
  · rename_i l i hadv
    have := advance_some _ _ _ _ _ _ _ _ hadv
    simp only [Option.some.injEq] at h
    subst h
    exact ⟨rfl, rfl, this⟩
  · simp at h

theorem increaseLen_none (t : Tables) (target si : Nat) (c : Cursor)
    (h : t.increaseLen target si c = none) (hl : c.lenLvl ≤ t.m.maxLevel) :
    t.lnSize c.lenLvl ≤ c.lenIdx + 1 ∧
    ∀ k, c.lenLvl < k → k ≤ t.m.maxLevel → (k : Int) ≤ (target : Int) → t.lnSize k = 0 := by
  unfold Tables.increaseLen at h
  split at h
  · simp at h
  · rename_i hadv
    exact advance_none _ _ _ _ _ _ (by omega) hadv hl

/-! ## rank -/

def Tables.sIp (t : Tables) : Nat := psum t.ipSize (t.m.maxLevel + 1)
def Tables.sLn (t : Tables) : Nat := psum t.lnSize (t.m.maxLevel + 1)
def Tables.posIp (t : Tables) (c : Cursor) : Nat := psum t.ipSize c.ipLvl + c.ipIdx
def Tables.posLn (t : Tables) (c : Cursor) : Nat := psum t.lnSize c.lenLvl + c.lenIdx
def Tables.rank (t : Tables) (c : Cursor) : Nat := t.posLn c * (t.sIp + 1) + t.posIp c

theorem posIp_lt (t : Tables) (c : Cursor) (hv : c.Valid t) : t.posIp c < t.sIp :=
  pos_lt _ _ _ _ hv.ipLvl hv.ipIdx

theorem posLn_lt (t : Tables) (c : Cursor) (hv : c.Valid t) : t.posLn c < t.sLn :=
  pos_lt _ _ _ _ hv.lenLvl hv.lenIdx

theorem rank_lt (t : Tables) (c : Cursor) (hv : c.Valid t) :
    t.rank c + 1 ≤ t.sLn * (t.sIp + 1) := by
  have h1 := posIp_lt t c hv
  have h2 := posLn_lt t c hv
  have h3 : (t.posLn c + 1) * (t.sIp + 1) ≤ t.sLn * (t.sIp + 1) := Nat.mul_le_mul_right _ h2
  rw [Nat.succ_mul] at h3
  unfold Tables.rank
  omega

theorem step_valid_rank (t : Tables) (hst : t.StartOK) (target : Nat) (c c' : Cursor)
    (hv : c.Valid t) (h : t.step target c = some c') : c'.Valid t ∧ t.rank c < t.rank c' := by
  unfold Tables.step at h
  split at h
  · rename_i c'' hip
    simp only [Option.some.injEq] at h
    subst h
    obtain ⟨h1, h2, h3, h4, _⟩ := increaseIp_some t target c c'' hip
    refine ⟨⟨by rw [h1]; exact hv.lenLvl, by rw [h1, h2]; exact hv.lenIdx, h3, h4⟩, ?_⟩
    have hpos : t.posIp c + 1 ≤ t.posIp c'' := by
      unfold Tables.increaseIp at hip
      split at hip
      · rename_i l i hadv
        have := advance_pos _ _ _ _ _ _ _ _ hv.ipIdx hadv
        simp only [Option.some.injEq] at hip
        subst hip
        simpa [Tables.posIp] using this
      · simp at hip
    have hln : t.posLn c'' = t.posLn c := by simp [Tables.posLn, h1, h2]
    unfold Tables.rank
    rw [hln]; omega
  · rename_i hip
    obtain ⟨h1, h2, h3, h4, _⟩ := increaseLen_some t target _ c c' h
    have hv' : c'.Valid t :=
      ⟨h3, h4, by rw [h1]; exact hst.le, by rw [h1, h2]; exact hst.pos⟩
    refine ⟨hv', ?_⟩
    have hpos : t.posLn c + 1 ≤ t.posLn c' := by
      unfold Tables.increaseLen at h
      split at h
      · rename_i l i hadv
        have := advance_pos _ _ _ _ _ _ _ _ hv.lenIdx hadv
        simp only [Option.some.injEq] at h
        subst h
        simpa [Tables.posLn] using this
      · simp at h
    have hi := posIp_lt t c hv
    have h5 : (t.posLn c + 1) * (t.sIp + 1) ≤ t.posLn c' * (t.sIp + 1) :=
      Nat.mul_le_mul_right _ hpos
    rw [Nat.succ_mul] at h5
    unfold Tables.rank
    omega

/-! ## orbits -/

inductive Orbit (step : Cursor → Option Cursor) : Cursor → List Cursor → Prop
  | last {c} : step c = none → Orbit step c []
  | cons {c c' rest} : step c = some c' → Orbit step c' rest → Orbit step c (c' :: rest)

theorem orbit_exists (t : Tables) (hst : t.StartOK) (target : Nat) :
    ∀ (n : Nat) (c : Cursor), c.Valid t → t.sLn * (t.sIp + 1) - t.rank c ≤ n →
      ∃ rest, Orbit (t.step target) c rest ∧ rest.length + 1 + t.rank c ≤ t.sLn * (t.sIp + 1) := by
  intro n
  induction n with
  | zero =>
    intro c hv hn
    have := rank_lt t c hv
    omega
  | succ n ih =>
    intro c hv hn
    have hr := rank_lt t c hv
    cases hstep : t.step target c with
    | none => exact ⟨[], Orbit.last hstep, by simp only [List.length_nil]; omega⟩
    | some c' =>
      obtain ⟨hv', hlt⟩ := step_valid_rank t hst target c c' hv hstep
      obtain ⟨rest, ho, hlen⟩ := ih c' hv' (by omega)
      exact ⟨c' :: rest, Orbit.cons hstep ho, by simp only [List.length_cons]; omega⟩

theorem orbit_valid (t : Tables) (hst : t.StartOK) (target : Nat) (c : Cursor) (rest : List Cursor)
    (ho : Orbit (t.step target) c rest) (hv : c.Valid t) :
    ∀ x ∈ rest, x.Valid t ∧ t.rank c < t.rank x := by
  induction ho with
  | last _ => intro x hx; simp at hx
  | @cons c c' rest hstep _ ih =>
    obtain ⟨hv', hlt⟩ := step_valid_rank t hst target c c' hv hstep
    intro x hx
    rcases List.mem_cons.1 hx with rfl | hx
    · exact ⟨hv', hlt⟩
    · obtain ⟨h1, h2⟩ := ih hv' x hx
      exact ⟨h1, by omega⟩

theorem orbit_pairwise (t : Tables) (hst : t.StartOK) (target : Nat) (c : Cursor)
    (rest : List Cursor) (ho : Orbit (t.step target) c rest) (hv : c.Valid t) :
    (c :: rest).Pairwise (fun a b => a ≠ b) := by
  induction ho with
  | last _ => simp
  | @cons c c' rest hstep ho' ih =>
    obtain ⟨hv', hlt⟩ := step_valid_rank t hst target c c' hv hstep
    rw [List.pairwise_cons]
    refine ⟨?_, ih hv'⟩
    intro x hx
    have := orbit_valid t hst target c (c' :: rest) (Orbit.cons hstep ho') hv x hx
    intro hcx
    subst hcx
    omega

/-! ## coverage -/

/-- lexicographic order on `(lenLvl, lenIdx, ipLvl, ipIdx)` -/
def le4 (c x : Cursor) : Prop :=
  c.lenLvl < x.lenLvl ∨ (c.lenLvl = x.lenLvl ∧ (c.lenIdx < x.lenIdx ∨ (c.lenIdx = x.lenIdx ∧
    (c.ipLvl < x.ipLvl ∨ (c.ipLvl = x.ipLvl ∧ c.ipIdx ≤ x.ipIdx)))))

theorem step_cover (t : Tables) (hst : t.StartOK) (target : Nat) (c x : Cursor)
    (hv : c.Valid t) (hx : x.Valid t) (hrel : x.lenLvl + x.ipLvl ≤ target)
    (hle : le4 c x) (hne : c ≠ x) : ∃ c', t.step target c = some c' ∧ le4 c' x := by
  obtain ⟨xl, xi, xa, xj⟩ := x
  obtain ⟨hx1, hx2, hx3, hx4⟩ := hx
  simp only [] at hx1 hx2 hx3 hx4 hrel
  unfold Tables.step
  cases hip : t.increaseIp target c with
  | some c' =>
    refine ⟨c', rfl, ?_⟩
    obtain ⟨h1, h2, h3, h4, h5⟩ := increaseIp_some t target c c' hip
    obtain ⟨l, i, a, j⟩ := c
    obtain ⟨l', i', a', j'⟩ := c'
    simp only [le4, ne_eq, Cursor.mk.injEq] at *
    subst h1 h2
    have e1 : a = xa → t.ipSize a = t.ipSize xa := fun h => by rw [h]
    have e2 : a' = xa → t.ipSize a' = t.ipSize xa := fun h => by rw [h]
    rcases h5 with ⟨rfl, rfl⟩ | ⟨h5, rfl, h6, h7, h8⟩
    · omega
    · have := h8 xa
      omega
  | none =>
    obtain ⟨n1, n2⟩ := increaseIp_none t target c hip hv.ipLvl
    simp only []
    cases hln : t.increaseLen target t.startIp c with
    | some c' =>
      refine ⟨c', rfl, ?_⟩
      obtain ⟨h1, h2, h3, h4, h5⟩ := increaseLen_some t target _ c c' hln
      have hs1 := hst.below xa
      obtain ⟨l, i, a, j⟩ := c
      obtain ⟨l', i', a', j'⟩ := c'
      simp only [le4, ne_eq, Cursor.mk.injEq] at *
      subst h1 h2
      have n2' := n2 xa
      have e1 : a = xa → t.ipSize a = t.ipSize xa := fun h => by rw [h]
      have e2 : l = xl → t.lnSize l = t.lnSize xl := fun h => by rw [h]
      have e3 : t.startIp = xa → t.ipSize t.startIp = t.ipSize xa := fun h => by rw [h]
      rcases h5 with ⟨rfl, rfl⟩ | ⟨h5, rfl, h6, h7, h8⟩
      · omega
      · have h8' := h8 xl
        omega
    | none =>
      exfalso
      obtain ⟨m1, m2⟩ := increaseLen_none t target _ c hln hv.lenLvl
      obtain ⟨l, i, a, j⟩ := c
      simp only [le4, ne_eq, Cursor.mk.injEq] at *
      have n2' := n2 xa
      have m2' := m2 xl
      have e1 : a = xa → t.ipSize a = t.ipSize xa := fun h => by rw [h]
      have e2 : l = xl → t.lnSize l = t.lnSize xl := fun h => by rw [h]
      omega

theorem start_le4 (t : Tables) (hst : t.StartOK) (sl : Nat)
    (hsl : ∀ k, k < sl → t.lnSize k = 0) (x : Cursor) (hx : x.Valid t) :
    le4 ⟨sl, 0, t.startIp, 0⟩ x := by
  obtain ⟨xl, xi, xa, xj⟩ := x
  obtain ⟨hx1, hx2, hx3, hx4⟩ := hx
  simp only [] at hx1 hx2 hx3 hx4
  have h1 := hsl xl
  have h2 := hst.below xa
  simp only [le4]
  omega

theorem orbit_cover (t : Tables) (hst : t.StartOK) (target : Nat) (c : Cursor) (rest : List Cursor)
    (ho : Orbit (t.step target) c rest) (hv : c.Valid t)
    (x : Cursor) (hx : x.Valid t) (hrel : x.lenLvl + x.ipLvl ≤ target) (hle : le4 c x) :
    x ∈ c :: rest := by
  induction ho with
  | @last c hstep =>
    by_cases hcx : c = x
    · simp [hcx]
    · obtain ⟨c', h1, _⟩ := step_cover t hst target c x hv hx hrel hle hcx
      rw [hstep] at h1; simp at h1
  | @cons c c'' rest hstep _ ih =>
    by_cases hcx : c = x
    · simp [hcx]
    · obtain ⟨c', h1, h2⟩ := step_cover t hst target c x hv hx hrel hle hcx
      rw [hstep] at h1
      simp only [Option.some.injEq] at h1
      subst h1
      have hv' := (step_valid_rank t hst target c c'' hv hstep).1
      exact List.mem_cons_of_mem _ (ih hv' h2)

end Omen
