import PcfgVerif.Lemmas.TrainedListedC
import PcfgVerif.Lemmas.DetectC3
import PcfgVerif.Properties.ReproEndToEnd
/-! Every segment of a password of the training list is listed, with non-zero probability, in the grammar the trainer wrote. -/
namespace Pcfg.Trainer
open Pcfg Pcfg.Detect

theorem incAll_count (t : MWTable) (xs : List CPs) (v : CPs) : (incAll t xs).count v = t.count v + xs.count v := by
  unfold incAll
  induction xs generalizing t with
  | nil => simp
  | cons x rest ih =>
    rw [List.foldl_cons, ih, count_bump, List.count_cons]
    by_cases h : v = x
    · subst h; simp; omega
    · have : ¬ (x == v) = true := by simpa using fun e => h e.symm
      simp [h, this]

/-! ### string-keyed counters -/
def SPos (c : SCtr) : Prop := ∀ p ∈ c, 0 < p.2

theorem spos_inc (c : SCtr) (k : String) (h : SPos c) : SPos (c.inc k) := by
  unfold SCtr.inc
  split
  · intro p hp
    obtain ⟨q, hq, rfl⟩ := List.mem_map.mp hp
    have := h q hq
    split <;> simp <;> omega
  · intro p hp
    rcases List.mem_append.mp hp with hp | hp
    · exact h p hp
    · simp at hp; subst hp; simp

theorem mem_inc_self (c : SCtr) (k : String) : ∃ n, (k, n) ∈ c.inc k := by
  unfold SCtr.inc
  split
  · rename_i h
    obtain ⟨q, hq, hk⟩ := List.any_eq_true.mp h
    have hk' : q.1 = k := by simpa using hk
    exact ⟨q.2 + 1, List.mem_map.mpr ⟨q, hq, by simp [hk']⟩⟩
  · exact ⟨1, List.mem_append.mpr (Or.inr (by simp))⟩

theorem mem_inc_mono (c : SCtr) (k s : String) (h : ∃ n, (s, n) ∈ c) : ∃ n, (s, n) ∈ c.inc k := by
  obtain ⟨n, hn⟩ := h
  unfold SCtr.inc
  split
  · by_cases hs : s = k
    · exact ⟨n + 1, List.mem_map.mpr ⟨(s, n), hn, by simp [hs]⟩⟩
    · exact ⟨n, List.mem_map.mpr ⟨(s, n), hn, by simp [hs]⟩⟩
  · exact ⟨n, List.mem_append.mpr (Or.inl hn)⟩

/-! ### folds over the password list -/
theorem fold_inv {S A : Type} (step : S → A → S) (Good : S → Prop) (hstep : ∀ s a, Good s → Good (step s a))
    (xs : List A) (s0 : S) (h0 : Good s0) : Good (xs.foldl step s0) := by
  induction xs generalizing s0 with
  | nil => exact h0
  | cons x rest ih => exact ih _ (hstep _ _ h0)

theorem fold_reach {S A : Type} (step : S → A → S) (Hit : A → S → Prop) (hintro : ∀ s a, Hit a (step s a))
    (hmono : ∀ s a b, Hit a s → Hit a (step s b)) (xs : List A) (s0 : S) (a : A) (ha : a ∈ xs) :
    Hit a (xs.foldl step s0) := by
  induction xs generalizing s0 with
  | nil => simp at ha
  | cons x rest ih =>
    rw [List.foldl_cons]
    rcases List.mem_cons.mp ha with h | h
    · subst h
      exact fold_inv step (Hit a) (fun s b hs => hmono s a b hs) rest _ (hintro _ _)
    · exact ih _ h

/-- counts of the plain Counters are positive -/
def Good (c : Counters) : Prop := Pos c.years ∧ Pos c.context ∧ SPos c.base

theorem good_update (c : Counters) (p : Parsed) (h : Good c) : Good (c.update p) := by
  refine ⟨pos_incAll _ _ h.1, pos_incAll _ _ h.2.1, ?_⟩
  show SPos (if p.supported then c.base.inc p.structure' else c.base)
  split
  · exact spos_inc _ _ h.2.2
  · exact h.2.2

/-- the years, context strings and (if supported) the base structure of a parse are keys of the Counters -/
def Hit (p : Parsed) (c : Counters) : Prop :=
  (∀ v ∈ p.years, 0 < c.years.count v) ∧ (∀ v ∈ p.contexts, 0 < c.context.count v) ∧
  (p.supported = true → ∃ n, (p.structure', n) ∈ c.base)

theorem hit_intro (c : Counters) (p : Parsed) : Hit p (c.update p) := by
  refine ⟨?_, ?_, ?_⟩
  · intro v hv
    show 0 < (incAll c.years p.years).count v
    rw [incAll_count]
    have := List.count_pos_iff.mpr hv
    omega
  · intro v hv
    show 0 < (incAll c.context p.contexts).count v
    rw [incAll_count]
    have := List.count_pos_iff.mpr hv
    omega
  · intro hs
    show ∃ n, (p.structure', n) ∈ (if p.supported then c.base.inc p.structure' else c.base)
    rw [if_pos hs]
    exact mem_inc_self _ _

theorem hit_mono (c : Counters) (p q : Parsed) (h : Hit p c) : Hit p (c.update q) := by
  refine ⟨?_, ?_, ?_⟩
  · intro v hv
    show 0 < (incAll c.years q.years).count v
    rw [incAll_count]
    have := h.1 v hv
    omega
  · intro v hv
    show 0 < (incAll c.context q.contexts).count v
    rw [incAll_count]
    have := h.2.1 v hv
    omega
  · intro hs
    show ∃ n, (p.structure', n) ∈ (if q.supported then c.base.inc q.structure' else c.base)
    split
    · exact mem_inc_mono _ _ _ (h.2.2 hs)
    · exact h.2.2 hs

theorem train_good (U : UEnv) (cfg : MWCfg) (pws : List CPs) : Good (train U cfg pws) := by
  unfold train pass2
  exact fold_inv _ Good (fun s a hs => good_update s _ hs) pws {}
    ⟨pos_nil, pos_nil, by intro p hp; simp at hp⟩

theorem train_hit (U : UEnv) (cfg : MWCfg) (pws : List CPs) (pw : CPs) (h : pw ∈ pws) :
    Hit (parse U cfg (pass1 U cfg pws) pw) (train U cfg pws) := by
  unfold train pass2
  exact fold_reach (fun c pw => c.update (parse U cfg (pass1 U cfg pws) pw))
    (fun a c => Hit (parse U cfg (pass1 U cfg pws) a) c) (fun s a => hit_intro s _) (fun s a b hs => hit_mono s _ _ hs)
    pws {} pw h

theorem train_lpos (U : UEnv) (cfg : MWCfg) (field : Counters → LenCtr) (items : Parsed → List CPs)
    (hf : ∀ c p, field (c.update p) = updateLenIndexed (field c) (items p)) (h0 : field {} = [])
    (pws : List CPs) : LPos (field (train U cfg pws)) := by
  unfold train pass2
  rw [pass2_field U cfg _ field items hf, h0, foldl_update_flatten]
  exact lpos_update _ _ (by intro e he; simp at he)

theorem train_len_hit (U : UEnv) (cfg : MWCfg) (field : Counters → LenCtr) (items : Parsed → List CPs)
    (hf : ∀ c p, field (c.update p) = updateLenIndexed (field c) (items p)) (h0 : field {} = [])
    (pws : List CPs) (pw : CPs) (h : pw ∈ pws) (v : CPs) (hv : v ∈ items (parse U cfg (pass1 U cfg pws) pw)) :
    0 < ((field (train U cfg pws)).get v.length).count v := by
  rw [train_len_indexed U cfg field items hf h0, if_pos rfl]
  exact List.count_pos_iff.mpr (List.mem_flatMap.mpr ⟨pw, h, hv⟩)

end Pcfg.Trainer
