import PcfgVerif.Lemmas.ScoreB3
/-! Helper lemmas for C13 (the scorer's promise), part 4: the score as a product, and the assembly for an
arbitrary `Parsed` whose sections tile the password. -/
namespace Pcfg.ScoreB
open Pcfg Pcfg.Detect

section
variable {P : Type} {mul : P → P → P} {one zero : P} (L : Laws mul one zero)
include L

/-- a non-zero score: the password is supported and the score is the product, in the code's order, of the
looked-up factors -/
theorem score_unfold (gt : P → P → Bool) (limit : P) (g : ScoreG P) (p : Parsed) (omenOk : Bool)
    (hnz : (score mul gt one zero limit g p omenOk).prob ≠ zero) :
    p.supported = true ∧
    (score mul gt one zero limit g p omenOk).prob =
      mul (mul (mul (mul (mul (mul (mul (mul one
        (prodL mul one (p.walks.map (fI zero g 'K'))))
        (prodL mul one (p.years.map (fN zero g 'Y'))))
        (prodL mul one (p.contexts.map (fN zero g 'X'))))
        (prodL mul one (p.alphas.map (fI zero g 'A'))))
        (prodL mul one (p.masks.map (fI zero g 'C'))))
        (prodL mul one (p.digits.map (fI zero g 'D'))))
        (prodL mul one (p.others.map (fI zero g 'O'))))
        (g.look zero "B" (cpsOfString p.structure')) := by
  have e : ∀ (c : Char) (items : List CPs) (acc : P),
      items.foldl (fun a v => mul a (g.look zero (lbl c v.length) v)) acc =
        mul acc (prodL mul one (items.map (fI zero g c))) :=
    fun c items acc => foldl_look L (fI zero g c) items acc
  have e' : ∀ (c : Char) (items : List CPs) (acc : P),
      items.foldl (fun a v => mul a (g.look zero (String.ofList [c]) v)) acc =
        mul acc (prodL mul one (items.map (fN zero g c))) :=
    fun c items acc => foldl_look L (fN zero g c) items acc
  unfold score at hnz ⊢
  by_cases h1 : (!p.emails.isEmpty) = true
  · rw [if_pos h1] at hnz; exact absurd rfl hnz
  · rw [if_neg h1] at hnz ⊢
    by_cases h2 : (!p.websites.isEmpty) = true
    · rw [if_pos h2] at hnz; exact absurd rfl hnz
    · rw [if_neg h2] at hnz ⊢
      by_cases h3 : (!p.supported) = true
      · rw [if_pos h3] at hnz; exact absurd rfl hnz
      · rw [if_neg h3]
        refine ⟨by simpa using h3, ?_⟩
        simp only [↓reduceIte, Bool.false_eq_true, e, e']

end

section
variable {P : Type} {mul : P → P → P} {one zero : P} (L : Laws mul one zero)
include L

/-- the promise for a parse result whose sections tile the password -/
theorem promise_core (le gt : P → P → Bool) (limit : P) (U : UEnv) (upper : Char → List Char)
    (pw : CPs) (hsc : ScalarCPs pw) (hcase : CaseInvAll U upper pw)
    (g : ScoreG P) (V : GView P) (hag : AgreeW zero g V) (omenOk : Bool) (p : Parsed)
    (htile : TilesFrom U pw 0 p.sections)
    (hsupd : p.supported = (baseStructure p.sections).1)
    (hstr : p.structure' = (baseStructure p.sections).2)
    (hcoh : Coherent U pw p)
    (hnz : (score mul gt one zero limit g p omenOk).prob ≠ zero) :
    ∃ (reps : List String) (bp : P) (idx : List Nat), (reps, bp) ∈ V.bases ∧ idx.length = reps.length ∧
      toStr pw ∈ productSpec upper V.E [] (mkPT reps idx) ∧
      probFold ⟨le, mul⟩ bp (reps.map V.colP) idx = (score mul gt one zero limit g p omenOk).prob := by
  obtain ⟨hsup, hscore⟩ := score_unfold L gt limit g p omenOk hnz
  rw [hscore] at hnz ⊢
  obtain ⟨h7, hB⟩ := L.mul_ne_zero hnz
  obtain ⟨h6, hO⟩ := L.mul_ne_zero h7
  obtain ⟨h5, hD⟩ := L.mul_ne_zero h6
  obtain ⟨h4, hC⟩ := L.mul_ne_zero h5
  obtain ⟨h3, hA⟩ := L.mul_ne_zero h4
  obtain ⟨h2, hX⟩ := L.mul_ne_zero h3
  obtain ⟨h1, hY⟩ := L.mul_ne_zero h2
  obtain ⟨_, hK⟩ := L.mul_ne_zero h1
  rw [hsupd] at hsup
  -- the sections
  have hsec : ∀ s ∈ p.sections, SecOK s ∧ s.2 ≠ some "W" := by
    intro s hs
    obtain ⟨l, hl, hok⟩ := hcoh.labels s hs
    obtain ⟨hg, hW⟩ := goodLabel_of_supported p.sections hsup s hs l hl hok
    refine ⟨⟨tiles_nonempty U pw p.sections 0 htile s hs, l, hl, hg⟩, ?_⟩
    rw [hl]
    intro h
    exact hW (Option.some.inj h)
  have hcat : p.sections.flatMap (·.1) = pw := by
    have := tiles_concat U pw p.sections 0 htile (fun s hs => (hsec s hs).2)
    simpa using this
  have hsnz : ∀ s ∈ p.sections, SecNZ zero g s := by
    intro s hs
    refine ⟨?_, ?_, ?_, ?_, ?_⟩
    · intro hl
      have hm := mem_textsOf p.sections 'K' s hs (by rw [hl, labelCat_lbl])
      exact prodL_ne_zero L hK _ (List.mem_map_of_mem (hcoh.walks.mem_iff.mpr hm))
    · intro hl
      have hm := mem_textsOf p.sections 'Y' s hs (by rw [hl, labelCat_Y1])
      exact prodL_ne_zero L hY _ (List.mem_map_of_mem (hcoh.years.mem_iff.mpr hm))
    · intro hl
      have hm := mem_textsOf p.sections 'X' s hs (by rw [hl, labelCat_X1])
      exact prodL_ne_zero L hX _ (List.mem_map_of_mem (hcoh.contexts.mem_iff.mpr hm))
    · intro hl
      have hm := mem_textsOf p.sections 'D' s hs (by rw [hl, labelCat_lbl])
      exact prodL_ne_zero L hD _ (List.mem_map_of_mem (hcoh.digits.mem_iff.mpr hm))
    · intro hl
      have hm := mem_textsOf p.sections 'O' s hs (by rw [hl, labelCat_lbl])
      exact prodL_ne_zero L hO _ (List.mem_map_of_mem (hcoh.others.mem_iff.mpr hm))
  -- the alpha records, matched with the alpha sections
  obtain ⟨recs, hal, hmk, hperm, hrecs⟩ := hcoh.alpha
  obtain ⟨recs', hp', hm'⟩ := perm_map_inv (fun r : AlphaRec => r.orig) hperm recs rfl
  have hrok : ∀ r ∈ recs', RecOK zero U upper g r := by
    intro r hr
    have hr' : r ∈ recs := hp'.mem_iff.mp hr
    obtain ⟨hmask, hlen, hlow⟩ := hrecs r hr'
    refine ⟨?_, ?_, hmask, hlen, tame_of_lowerOf upper U pw r.orig r.word hsc hcase hlen hlow,
      lowerOf_scalar U pw r.orig r.word hsc hlow⟩
    · refine prodL_ne_zero L hA _ ?_
      rw [hal, List.map_map]
      exact List.mem_map.mpr ⟨r, hr', rfl⟩
    · refine prodL_ne_zero L hC _ ?_
      rw [hmk, List.map_map]
      exact List.mem_map.mpr ⟨r, hr', rfl⟩
  obtain ⟨pieces, idx, hin, htext, hpt, hlen, hprob⟩ :=
    built_all L le U upper hag p.sections recs' (fun s hs => (hsec s hs).1) hsnz hm' hrok
  -- the base structure
  have hjoin : p.structure' = String.join (p.sections.map lab) := by rw [hstr]; rfl
  rw [hjoin] at hB
  obtain ⟨reps, hmem, hreps⟩ := hag.base (p.sections.map lab) (by
    intro l hl
    obtain ⟨s, hs, rfl⟩ := List.mem_map.mp hl
    obtain ⟨l', hl', hok⟩ := hcoh.labels s hs
    exact ⟨s.1, by unfold lab; rw [hl']; exact hok⟩) hB
  have hreps' : reps = (p.sections.map lab).flatMap insC := by
    rw [hreps]
    congr 1
    funext l
    exact insC_match l
  subst hreps'
  rw [hjoin]
  refine ⟨_, _, idx, hmem, hlen, ?_, ?_⟩
  · have h := password_in_productSpec upper (isUp U) V.E pieces [] (fun q hq => (hin q hq).1)
      (fun q hq => (hin q hq).2)
    rw [List.nil_append, htext, hpt, hcat] at h
    exact h
  · rw [hprob]
    have eK := prodL_perm L (hcoh.walks.map (fI zero g 'K'))
    have eY := prodL_perm L (hcoh.years.map (fN zero g 'Y'))
    have eX := prodL_perm L (hcoh.contexts.map (fN zero g 'X'))
    have eD := prodL_perm L (hcoh.digits.map (fI zero g 'D'))
    have eO := prodL_perm L (hcoh.others.map (fI zero g 'O'))
    have eA : prodL mul one (p.alphas.map (fI zero g 'A')) =
        prodL mul one (recs'.map fun r => fI zero g 'A' r.word) := by
      rw [hal, List.map_map]
      exact prodL_perm L (hp'.symm.map _)
    have eC : prodL mul one (p.masks.map (fI zero g 'C')) =
        prodL mul one (recs'.map fun r => fI zero g 'C' r.mask) := by
      rw [hmk, List.map_map]
      exact prodL_perm L (hp'.symm.map _)
    rw [eK, eY, eX, eD, eO, eA, eC, L.one_mul]
    unfold Q
    haveI : Std.Associative mul := ⟨L.mul_assoc⟩
    haveI : Std.Commutative mul := ⟨L.mul_comm⟩
    ac_rfl

end

end Pcfg.ScoreB
