import PcfgVerif.Lemmas.TrainedAgreeB
/-! The terminal clause of `Agree` for a trained ruleset. -/
namespace Pcfg.Trainer
open Pcfg Pcfg.Detect

theorem nn_app {α : Type} (l1 l2 : List α) (p : α → Bool) (h1 : l1.find? p = none) (h2 : l2.find? p = none) :
    (l1 ++ l2).find? p = none := by
  rw [List.find?_append, h1, h2]; rfl

theorem nnL (ch ch' : Char) (h : ch ≠ ch') (d : LenCtr) (n : Nat) : (lenLists ch d).find? (·.1 == lbl ch' n) = none :=
  find_lenLists_none ch d _ (fun m => lbl_ne_of_char ch ch' m n h)

theorem nnM (ch ch' : Char) (h : ch ≠ ch') (d : LenCtr) (n : Nat) : (lenMap ch d colOf).find? (·.1 == lbl ch' n) = none :=
  find_lenMap_none ch d _ _ (fun m => lbl_ne_of_char ch ch' m n h)

theorem nnT (ch : Char) (n : Nat) (a b c : List (CPs × Rat)) :
    ([("Y", a), ("X", b), ("B", c)] : ScoreG Rat).find? (·.1 == lbl ch n) = none := by
  have h1 : ("Y" == lbl ch n) = false := beq_eq_false_iff_ne.mpr (fun e => lbl_ne_single ch n "Y" (by decide) e.symm)
  have h2 : ("X" == lbl ch n) = false := beq_eq_false_iff_ne.mpr (fun e => lbl_ne_single ch n "X" (by decide) e.symm)
  have h3 : ("B" == lbl ch n) = false := beq_eq_false_iff_ne.mpr (fun e => lbl_ne_single ch n "B" (by decide) e.symm)
  simp only [List.find?_cons, h1, h2, h3, List.find?_nil]

/-- the scorer's name of a length-indexed variable is the variable's own name -/
theorem scName_lbl (ch : Char) (n : Nat) (h1 : ch ≠ 'Y') (h2 : ch ≠ 'X') : scName (lbl ch n) = lbl ch n := by
  unfold scName
  have a : lbl ch n ≠ "Y1" := lbl_ne_lit ch n "Y1" (by simpa using fun e => h1 e.symm)
  have b : lbl ch n ≠ "X1" := lbl_ne_lit ch n "X1" (by simpa using fun e => h2 e.symm)
  simp [a, b]

section
variable (cov : Rat) (n0 : Nat) (c : Counters)

/-- result shape shared by all cases -/
def TermOK (l : String) (v : CPs) : Prop :=
  ∃ (j : Nat) (vals : List Str), (viewE c).values l j = some vals ∧ toStr v ∈ vals ∧
    (viewP c l)[j]? = some (ScoreG.look (scoreGOf cov n0 c) 0 (scName l) v)

theorem termOK_of (l : String) (v : CPs) (cols : List (List CPs × Rat)) (j : Nat) (vs : List CPs)
    (hf : (viewCols c).find? (·.1 == l) = some (l, cols))
    (hj : cols[j]? = some (vs, ScoreG.look (scoreGOf cov n0 c) 0 (scName l) v)) (hv : v ∈ vs) : TermOK cov n0 c l v := by
  obtain ⟨h1, h2⟩ := view_lookup c l cols hf j vs _ hj
  exact ⟨j, vs.map toStr, h1, List.mem_map.mpr ⟨v, hv, rfl⟩, h2⟩

theorem term_K (n : Nat) (v : CPs) (hne : ScoreG.look (scoreGOf cov n0 c) 0 (scName (lbl 'K' n)) v ≠ 0) :
    TermOK cov n0 c (lbl 'K' n) v := by
  rw [scName_lbl 'K' n (by decide) (by decide)] at hne
  have key := term_len 'K' c.keyboard [] _ [] (lenMap 'A' c.alpha colOf ++ (lenMap 'C' c.masks colOf ++ (lenMap 'D' c.digits colOf ++
    (lenMap 'O' c.other colOf ++ [("Y1", colOf c.years), ("X1", colOf c.context)])))) n v rfl
    (nn_app _ _ _ (nnL 'A' 'K' (by decide) _ n) (nn_app _ _ _ (nnL 'C' 'K' (by decide) _ n) (nn_app _ _ _ (nnL 'D' 'K' (by decide) _ n)
      (nn_app _ _ _ (nnL 'O' 'K' (by decide) _ n) (nnT 'K' n _ _ _))))) rfl
    (by simpa [scoreGOf] using hne)
  obtain ⟨cols, j, vs, hf, hj, hv⟩ := key
  refine termOK_of cov n0 c _ v cols j vs (by simpa [viewCols] using hf) ?_ hv
  rw [scName_lbl 'K' n (by decide) (by decide)]
  simpa [scoreGOf] using hj

theorem term_A (n : Nat) (v : CPs) (hne : ScoreG.look (scoreGOf cov n0 c) 0 (scName (lbl 'A' n)) v ≠ 0) :
    TermOK cov n0 c (lbl 'A' n) v := by
  rw [scName_lbl 'A' n (by decide) (by decide)] at hne
  have key := term_len 'A' c.alpha (lenLists 'K' c.keyboard) _ (lenMap 'K' c.keyboard colOf) (lenMap 'C' c.masks colOf ++ (lenMap 'D' c.digits colOf ++ (lenMap 'O' c.other colOf ++ [("Y1", colOf c.years), ("X1", colOf c.context)]))) n v
    (nnL 'K' 'A' (by decide) _ n)
    (nn_app _ _ _ (nnL 'C' 'A' (by decide) _ n) (nn_app _ _ _ (nnL 'D' 'A' (by decide) _ n) (nn_app _ _ _ (nnL 'O' 'A' (by decide) _ n) (nnT 'A' n _ _ _))))
    (nnM 'K' 'A' (by decide) _ n)
    (by simpa [scoreGOf] using hne)
  obtain ⟨cols, j, vs, hf, hj, hv⟩ := key
  refine termOK_of cov n0 c _ v cols j vs (by simpa [viewCols] using hf) ?_ hv
  rw [scName_lbl 'A' n (by decide) (by decide)]
  simpa [scoreGOf] using hj

theorem term_C (n : Nat) (v : CPs) (hne : ScoreG.look (scoreGOf cov n0 c) 0 (scName (lbl 'C' n)) v ≠ 0) :
    TermOK cov n0 c (lbl 'C' n) v := by
  rw [scName_lbl 'C' n (by decide) (by decide)] at hne
  have key := term_len 'C' c.masks (lenLists 'K' c.keyboard ++ lenLists 'A' c.alpha) _ (lenMap 'K' c.keyboard colOf ++ lenMap 'A' c.alpha colOf) (lenMap 'D' c.digits colOf ++ (lenMap 'O' c.other colOf ++ [("Y1", colOf c.years), ("X1", colOf c.context)])) n v
    (nn_app _ _ _ (nnL 'K' 'C' (by decide) _ n) (nnL 'A' 'C' (by decide) _ n))
    (nn_app _ _ _ (nnL 'D' 'C' (by decide) _ n) (nn_app _ _ _ (nnL 'O' 'C' (by decide) _ n) (nnT 'C' n _ _ _)))
    (nn_app _ _ _ (nnM 'K' 'C' (by decide) _ n) (nnM 'A' 'C' (by decide) _ n))
    (by simpa [scoreGOf] using hne)
  obtain ⟨cols, j, vs, hf, hj, hv⟩ := key
  refine termOK_of cov n0 c _ v cols j vs (by simpa [viewCols] using hf) ?_ hv
  rw [scName_lbl 'C' n (by decide) (by decide)]
  simpa [scoreGOf] using hj

theorem term_D (n : Nat) (v : CPs) (hne : ScoreG.look (scoreGOf cov n0 c) 0 (scName (lbl 'D' n)) v ≠ 0) :
    TermOK cov n0 c (lbl 'D' n) v := by
  rw [scName_lbl 'D' n (by decide) (by decide)] at hne
  have key := term_len 'D' c.digits (lenLists 'K' c.keyboard ++ (lenLists 'A' c.alpha ++ lenLists 'C' c.masks)) _ (lenMap 'K' c.keyboard colOf ++ (lenMap 'A' c.alpha colOf ++ lenMap 'C' c.masks colOf)) (lenMap 'O' c.other colOf ++ [("Y1", colOf c.years), ("X1", colOf c.context)]) n v
    (nn_app _ _ _ (nnL 'K' 'D' (by decide) _ n) (nn_app _ _ _ (nnL 'A' 'D' (by decide) _ n) (nnL 'C' 'D' (by decide) _ n)))
    (nn_app _ _ _ (nnL 'O' 'D' (by decide) _ n) (nnT 'D' n _ _ _))
    (nn_app _ _ _ (nnM 'K' 'D' (by decide) _ n) (nn_app _ _ _ (nnM 'A' 'D' (by decide) _ n) (nnM 'C' 'D' (by decide) _ n)))
    (by simpa [scoreGOf] using hne)
  obtain ⟨cols, j, vs, hf, hj, hv⟩ := key
  refine termOK_of cov n0 c _ v cols j vs (by simpa [viewCols] using hf) ?_ hv
  rw [scName_lbl 'D' n (by decide) (by decide)]
  simpa [scoreGOf] using hj

theorem term_O (n : Nat) (v : CPs) (hne : ScoreG.look (scoreGOf cov n0 c) 0 (scName (lbl 'O' n)) v ≠ 0) :
    TermOK cov n0 c (lbl 'O' n) v := by
  rw [scName_lbl 'O' n (by decide) (by decide)] at hne
  have key := term_len 'O' c.other (lenLists 'K' c.keyboard ++ (lenLists 'A' c.alpha ++ (lenLists 'C' c.masks ++ lenLists 'D' c.digits))) _ (lenMap 'K' c.keyboard colOf ++ (lenMap 'A' c.alpha colOf ++ (lenMap 'C' c.masks colOf ++ lenMap 'D' c.digits colOf))) [("Y1", colOf c.years), ("X1", colOf c.context)] n v
    (nn_app _ _ _ (nnL 'K' 'O' (by decide) _ n) (nn_app _ _ _ (nnL 'A' 'O' (by decide) _ n) (nn_app _ _ _ (nnL 'C' 'O' (by decide) _ n) (nnL 'D' 'O' (by decide) _ n))))
    (nnT 'O' n _ _ _)
    (nn_app _ _ _ (nnM 'K' 'O' (by decide) _ n) (nn_app _ _ _ (nnM 'A' 'O' (by decide) _ n) (nn_app _ _ _ (nnM 'C' 'O' (by decide) _ n) (nnM 'D' 'O' (by decide) _ n))))
    (by simpa [scoreGOf] using hne)
  obtain ⟨cols, j, vs, hf, hj, hv⟩ := key
  refine termOK_of cov n0 c _ v cols j vs (by simpa [viewCols] using hf) ?_ hv
  rw [scName_lbl 'O' n (by decide) (by decide)]
  simpa [scoreGOf] using hj

theorem nnMlit (ch : Char) (d : LenCtr) (s : String) (hs : s.toList.head? ≠ some ch) :
    (lenMap ch d colOf).find? (·.1 == s) = none :=
  find_lenMap_none ch d _ _ (fun m => lbl_ne_lit ch m s hs)

theorem view_find_tail (s : String) (hK : s.toList.head? ≠ some 'K') (hA : s.toList.head? ≠ some 'A') (hC : s.toList.head? ≠ some 'C')
    (hD : s.toList.head? ≠ some 'D') (hO : s.toList.head? ≠ some 'O') :
    (viewCols c).find? (·.1 == s) = ([("Y1", colOf c.years), ("X1", colOf c.context)] : List (String × List (List CPs × Rat))).find? (·.1 == s) := by
  unfold viewCols
  rw [find_append_none _ _ _ (nnMlit 'K' _ s hK), find_append_none _ _ _ (nnMlit 'A' _ s hA),
    find_append_none _ _ _ (nnMlit 'C' _ s hC), find_append_none _ _ _ (nnMlit 'D' _ s hD),
    find_append_none _ _ _ (nnMlit 'O' _ s hO)]

theorem term_Y (v : CPs) (hne : ScoreG.look (scoreGOf cov n0 c) 0 (scName "Y1") v ≠ 0) : TermOK cov n0 c "Y1" v := by
  have hs : scName "Y1" = "Y" := by decide
  rw [hs, look_tail _ _ _ "Y" (by decide)] at hne
  have hl : ScoreG.look [("Y", listOf c.years), ("X", listOf c.context), ("B", baseList cov n0 c.base)] 0 "Y" v =
      (((listOf c.years).find? (·.1 == v)).map (·.2)).getD 0 := by
    unfold ScoreG.look; simp
  rw [hl] at hne
  obtain ⟨j, vs, hj, hv⟩ := runs_mem (listOf c.years) v _ (mem_of_look (listOf c.years) v hne)
  refine termOK_of cov n0 c "Y1" v (colOf c.years) j vs ?_ ?_ hv
  · rw [view_find_tail c "Y1" (by decide) (by decide) (by decide) (by decide) (by decide)]
    simp
  · rw [hs, look_tail _ _ _ "Y" (by decide), hl]; exact hj

theorem term_X (v : CPs) (hne : ScoreG.look (scoreGOf cov n0 c) 0 (scName "X1") v ≠ 0) : TermOK cov n0 c "X1" v := by
  have hs : scName "X1" = "X" := by decide
  rw [hs, look_tail _ _ _ "X" (by decide)] at hne
  have hl : ScoreG.look [("Y", listOf c.years), ("X", listOf c.context), ("B", baseList cov n0 c.base)] 0 "X" v =
      (((listOf c.context).find? (·.1 == v)).map (·.2)).getD 0 := by
    unfold ScoreG.look; simp
  rw [hl] at hne
  obtain ⟨j, vs, hj, hv⟩ := runs_mem (listOf c.context) v _ (mem_of_look (listOf c.context) v hne)
  refine termOK_of cov n0 c "X1" v (colOf c.context) j vs ?_ ?_ hv
  · rw [view_find_tail c "X1" (by decide) (by decide) (by decide) (by decide) (by decide)]
    simp
  · rw [hs, look_tail _ _ _ "X" (by decide), hl]; exact hj

/-- **the terminal clause of `Agree`** for the view of a trained ruleset -/
theorem agree_term (l : String) (v : CPs) (hl : TermLabel l)
    (hne : ScoreG.look (scoreGOf cov n0 c) 0 (scName l) v ≠ 0) : TermOK cov n0 c l v := by
  rcases hl with ⟨ch, n, hch, rfl⟩ | rfl | rfl
  · rcases hch with rfl | rfl | rfl | rfl | rfl
    · exact term_K cov n0 c n v hne
    · exact term_A cov n0 c n v hne
    · exact term_C cov n0 c n v hne
    · exact term_D cov n0 c n v hne
    · exact term_O cov n0 c n v hne
  · exact term_Y cov n0 c v hne
  · exact term_X cov n0 c v hne

end
end Pcfg.Trainer
