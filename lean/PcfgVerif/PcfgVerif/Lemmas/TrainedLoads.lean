import PcfgVerif.Lemmas.LoadAll
import PcfgVerif.Lemmas.RunsLoader
import PcfgVerif.Lemmas.TrainedAgreeB
/-! The terminal part of a trained ruleset, written folder by folder and loaded section by section, is `viewCols`. -/
namespace Pcfg.Trainer
open Pcfg Pcfg.Detect Pcfg.LoadMulti Pcfg.RuleDir

theorem rat_sum_nonneg (l : List Rat) (h : ∀ x ∈ l, 0 ≤ x) : 0 ≤ l.sum := by
  induction l with
  | nil => decide
  | cons x xs ih =>
    rw [List.sum_cons]
    exact Rat.add_nonneg (h x (by simp)) (ih (fun y hy => h y (List.mem_cons_of_mem _ hy)))

theorem rat_div_nonneg (a b : Rat) (ha : 0 ≤ a) (hb : 0 ≤ b) : 0 ≤ a / b := by
  rw [Rat.div_def]
  by_cases h : b = 0
  · subst h; simp
  · have hb' : 0 < b := by grind
    exact Rat.mul_nonneg ha (by have := Rat.inv_pos.mpr hb'; grind)

/-- written probabilities are not negative (in particular never the loader's start value −1) -/
theorem listOf_nonneg (t : MWTable) : ∀ it ∈ listOf t, 0 ≤ it.2 := by
  intro it hit
  obtain ⟨c, hc, hp⟩ := (calcProbs_mem ratOps (toQ t) it.1 it.2).mp hit
  obtain ⟨q, _, he⟩ := List.mem_map.mp hc
  have hc0 : (0 : Rat) ≤ c := by
    have : c = (q.2 : Rat) := (congrArg Prod.snd he).symm
    rw [this]; exact_mod_cast Nat.zero_le _
  rw [hp, totalCount_rat]
  refine rat_div_nonneg _ _ hc0 (rat_sum_nonneg _ ?_)
  intro x hx
  obtain ⟨p, hp', rfl⟩ := List.mem_map.mp hx
  obtain ⟨q', _, he'⟩ := List.mem_map.mp hp'
  have : p.2 = (q'.2 : Rat) := (congrArg Prod.snd he').symm
  rw [this]; exact_mod_cast Nat.zero_le _

section
variable (parseP : CPs → Option Rat) (showP : Rat → CPs) (hround : ∀ p, parseP (showP p) = some p) (hshow : ∀ p, CleanProb (showP p))

/-- the text of the list file of one Counter -/
def fileText (t : MWTable) : CPs := writeFile ((listOf t).map fun it => (it.1, showP it.2))

/-- one section of a trained ruleset: folder written by `save_indexed_counters` over any previous content, read with the loader -/
def trainedSect (ch : Char) (d : LenCtr) (old : List (String × CPs)) : Sect (List (LGroup Rat)) where
  ch := ch
  d := d
  read := fun fn => (lookup (saveIndexed (fun n : Nat => toString n) ".txt" old (d.map fun e => (e.1, fileText showP e.2))) fn).bind
    (loadFromFile parseP (fun a b => a == b) (-1))
  val := fun e => loadFromFile parseP (fun a b => a == b) (-1) (fileText showP e.2)

include hround hshow in
theorem trainedSect_good (ch : Char) (d : LenCtr) (old : List (String × CPs)) (hnd : (d.map (·.1)).Nodup)
    (hclean : ∀ e ∈ d, ∀ it ∈ e.2, CleanValue it.1) : (trainedSect parseP showP ch d old).Good := by
  refine ⟨hnd, ?_, ?_⟩
  · intro e he
    have hnames : ((d.map fun e => (e.1, fileText showP e.2)).map fun kc : Nat × CPs => toString kc.1 ++ ".txt").Nodup := by
      rw [List.map_map]
      exact nodup_map_comp (·.1) (fun n : Nat => toString n ++ ".txt") txt_inj d hnd
    show (lookup _ (toString e.1 ++ ".txt")).bind _ = _
    rw [saveIndexed_lookup (fun n : Nat => toString n) ".txt" old _ hnames (e.1, fileText showP e.2) (List.mem_map.mpr ⟨e, he, rfl⟩)]
    rfl
  · intro e he
    obtain ⟨gs, hgs, _⟩ := loader_returns_runs parseP showP (-1) hround (listOf e.2)
      (by
        intro it hit
        obtain ⟨c, hc, _⟩ := (calcProbs_mem ratOps (toQ e.2) it.1 it.2).mp hit
        obtain ⟨q, hq, heq⟩ := List.mem_map.mp hc
        have : q.1 = it.1 := congrArg Prod.fst heq
        rw [← this]; exact hclean e he q hq)
      hshow
      (by intro it hit h; have := listOf_nonneg e.2 it hit; rw [h] at this; exact absurd this (by decide))
    show (loadFromFile parseP (fun a b => a == b) (-1) (fileText showP e.2)).isSome
    unfold fileText
    rw [hgs]; rfl

include hround hshow in
/-- **the terminal columns the guesser ends up with are `viewCols`**: the seven terminal sections of a trained ruleset — one folder
each, any previous content, file names `<n>.txt`, listed in the config, read back in source order into one grammar — load, and
the variable of every (section, length) holds the maximal runs of equal probability of that Counter's list (`colOf`) -/
theorem trained_terminals_load (secs : List (Char × LenCtr × List (String × CPs)))
    (hdist : (secs.map (·.1)).Nodup) (hnd : ∀ s ∈ secs, (s.2.1.map (·.1)).Nodup)
    (hclean : ∀ s ∈ secs, ∀ e ∈ s.2.1, ∀ it ∈ e.2, CleanValue it.1) :
    ∃ g', loadAll (secs.map fun s => trainedSect parseP showP s.1 s.2.1 s.2.2) [] = some g' ∧
      ∀ s ∈ secs, ∀ e ∈ s.2.1, ∃ gs, lookup g' (lbl s.1 e.1) = some gs ∧ gs.map (fun g => (g.values, g.prob)) = colOf e.2 := by
  obtain ⟨g', hload, hvals, _⟩ := loadAll_spec (secs.map fun s => trainedSect parseP showP s.1 s.2.1 s.2.2)
    (by rw [List.map_map]; exact hdist)
    (by
      intro t ht
      obtain ⟨s, hs, rfl⟩ := List.mem_map.mp ht
      exact trainedSect_good parseP showP hround hshow s.1 s.2.1 s.2.2 (hnd s hs) (hclean s hs)) []
  refine ⟨g', hload, ?_⟩
  intro s hs e he
  have hv := hvals (trainedSect parseP showP s.1 s.2.1 s.2.2) (List.mem_map.mpr ⟨s, hs, rfl⟩) e he
  obtain ⟨gs, hgs, hruns⟩ := loader_returns_runs parseP showP (-1) hround (listOf e.2)
    (by
      intro it hit
      obtain ⟨c, hc, _⟩ := (calcProbs_mem ratOps (toQ e.2) it.1 it.2).mp hit
      obtain ⟨q, hq, heq⟩ := List.mem_map.mp hc
      have : q.1 = it.1 := congrArg Prod.fst heq
      rw [← this]; exact hclean s hs e he q hq)
    hshow
    (by intro it hit h; have := listOf_nonneg e.2 it hit; rw [h] at this; exact absurd this (by decide))
  refine ⟨gs, ?_, hruns⟩
  have hv' : lookup g' (lbl s.1 e.1) = loadFromFile parseP (fun a b => a == b) (-1) (fileText showP e.2) := hv
  rw [hv']
  exact hgs

end
end Pcfg.Trainer
