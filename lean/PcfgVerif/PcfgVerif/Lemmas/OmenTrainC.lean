import PcfgVerif.Lemmas.OmenTrainB
/-!
# OMEN trainer, part C: the loaded tables are well-formed and `levelOf` is the trainer's level
-/
namespace Omen

def TTables.ipRow (t : TTables) (l : Nat) : List Str := (t.entries.filter (·.ipLevel == l)).map (·.key)

def TTables.lnRow (t : TTables) (l : Nat) : List Nat :=
  (List.range t.lns.length).filterMap fun i =>
    if t.lns.getD i 0 == l && t.ngram ≤ i + 1 then some (i + 1 - (t.ngram - 1)) else none

theorem toTables_ipTbl (t : TTables) : t.toTables.ipTbl = (List.range (t.maxLevel + 1)).map t.ipRow := rfl
theorem toTables_lnTbl (t : TTables) : t.toTables.lnTbl = (List.range (t.maxLevel + 1)).map t.lnRow := rfl
theorem toTables_maxLevel (t : TTables) : t.toTables.m.maxLevel = t.maxLevel := rfl

theorem mem_ipRow (t : TTables) (l : Nat) (k : Str) :
    k ∈ t.ipRow l ↔ ∃ e ∈ t.entries, e.ipLevel = l ∧ e.key = k := by
  simp [TTables.ipRow, and_assoc]

theorem mem_lnRow (t : TTables) (l : Nat) (x : Nat) :
    x ∈ t.lnRow l ↔ ∃ i, i < t.lns.length ∧ t.lns.getD i 0 = l ∧ t.ngram ≤ i + 1 ∧
      x = i + 1 - (t.ngram - 1) := by
  unfold TTables.lnRow
  simp only [List.mem_filterMap, List.mem_range]
  constructor
  · rintro ⟨i, hi, h⟩
    split at h
    · rename_i hc
      simp only [Bool.and_eq_true, beq_iff_eq, decide_eq_true_eq] at hc
      simp only [Option.some.injEq] at h
      exact ⟨i, hi, hc.1, hc.2, h.symm⟩
    · cases h
  · rintro ⟨i, hi, h1, h2, rfl⟩
    refine ⟨i, hi, ?_⟩
    rw [if_pos (by rw [h1]; simp [h2])]

theorem ipTbl_nodup (t : TTables) (hk : (t.entries.map (·.key)).Nodup) :
    t.toTables.ipTbl.flatten.Nodup := by
  rw [toTables_ipTbl, ← List.flatMap_def]
  apply nodup_flatMap List.nodup_range
  · intro l _
    exact List.Nodup.sublist (List.Sublist.map _ List.filter_sublist) hk
  · intro a _ b _ hab y hy hy'
    obtain ⟨e, he, rfl, rfl⟩ := (mem_ipRow t a y).1 hy
    obtain ⟨e', he', rfl, hk'⟩ := (mem_ipRow t b _).1 hy'
    have := eq_of_nodup_map hk he' he hk'
    subst this
    exact hab rfl

theorem lnTbl_nodup (t : TTables) : t.toTables.lnTbl.flatten.Nodup := by
  rw [toTables_lnTbl, ← List.flatMap_def]
  apply nodup_flatMap List.nodup_range
  · intro l _
    unfold TTables.lnRow
    apply nodup_filterMap _ List.nodup_range
    intro a _ b _ c ha hb
    split at ha
    · split at hb
      · rename_i h1 h2
        simp only [Bool.and_eq_true, beq_iff_eq, decide_eq_true_eq] at h1 h2
        simp only [Option.some.injEq] at ha hb
        omega
      · cases hb
    · cases ha
  · intro a _ b _ hab y hy hy'
    obtain ⟨i, _, h1, h2, rfl⟩ := (mem_lnRow t a y).1 hy
    obtain ⟨j, _, h1', h2', h3⟩ := (mem_lnRow t b _).1 hy'
    have : i = j := by omega
    subst this
    exact hab (h1.symm.trans h1')

theorem toTables_WF_core (t : TTables) (hg : t.Good) : t.toTables.WF (t.ngram - 1) := by
  constructor
  · intro l hl s hs
    rw [toTables_ipTbl, List.mem_map] at hl
    obtain ⟨a, _, rfl⟩ := hl
    obtain ⟨e, he, _, rfl⟩ := (mem_ipRow t a s).1 hs
    exact hg.key_len e he
  · exact ipTbl_nodup t hg.keys_nodup
  · exact lnTbl_nodup t
  · intro l hl n hn
    rw [toTables_lnTbl, List.mem_map] at hl
    obtain ⟨a, _, rfl⟩ := hl
    obtain ⟨i, _, _, h2, rfl⟩ := (mem_lnRow t a n).1 hn
    omega
  · simp [toTables_ipTbl, toTables_maxLevel]
  · simp [toTables_lnTbl, toTables_maxLevel]
  · rw [toTables_cp, List.map_filterMap]
    apply nodup_filterMap _ (nodup_of_nodup_map hg.keys_nodup)
    intro a ha b hb c h1 h2
    split at h1
    · cases h1
    · split at h2
      · cases h2
      · simp only [Option.map_some, Option.some.injEq] at h1 h2
        exact eq_of_nodup_map hg.keys_nodup ha hb (h1.trans h2.symm)
  · rintro ⟨k, v⟩ hm
    obtain ⟨e, he, rfl, _⟩ := (mem_toTables_cp t k v).1 hm
    exact hg.key_len e he
  · rintro ⟨k, v⟩ hm
    obtain ⟨e, he, rfl, rfl, _⟩ := (mem_toTables_cp t k v).1 hm
    refine ⟨byLevel_levels _ _, ?_⟩
    rintro ⟨l, cs⟩ hp
    obtain ⟨h1, _, h3⟩ := (mem_byLevel _ _ l cs).1 hp
    exact ⟨h1, h3⟩
  · rintro ⟨k, v⟩ hm
    obtain ⟨e, he, rfl, rfl, _⟩ := (mem_toTables_cp t k v).1 hm
    exact byLevel_chars _ _ (hg.letters_nodup e he)

theorem tblLevel_ip (t : TTables) (hg : t.Good) (k : Str) :
    tblLevel t.toTables.ipTbl k = (t.entry k).map (·.ipLevel) := by
  have hiff := tblLevel_iff t.toTables.ipTbl (ipTbl_nodup t hg.keys_nodup) k
  have hget : ∀ a, t.toTables.ipTbl.getD a [] = if a < t.maxLevel + 1 then t.ipRow a else [] := by
    intro a; rw [toTables_ipTbl, getD_map_range]
  have hlen : t.toTables.ipTbl.length = t.maxLevel + 1 := by simp [toTables_ipTbl]
  cases h : t.entry k with
  | some e =>
    obtain ⟨he, hek⟩ := entry_some h
    have := hg.ip_levels e he
    rw [Option.map_some, hiff, hlen, hget, if_pos (by omega)]
    exact ⟨by omega, (mem_ipRow t _ k).2 ⟨e, he, rfl, hek⟩⟩
  | none =>
    cases h' : tblLevel t.toTables.ipTbl k with
    | none => rfl
    | some a =>
      rw [hiff, hlen, hget] at h'
      rw [if_pos h'.1] at h'
      obtain ⟨e, he, _, hek⟩ := (mem_ipRow t a k).1 h'.2
      exact absurd hek (entry_none h e he)

theorem tblLevel_ln (t : TTables) (hg : t.Good) (x a : Nat) :
    tblLevel t.toTables.lnTbl x = some a ↔
      ∃ i, i < t.lns.length ∧ t.lns.getD i 0 = a ∧ t.ngram ≤ i + 1 ∧ x = i + 1 - (t.ngram - 1) := by
  rw [tblLevel_iff t.toTables.lnTbl (lnTbl_nodup t), toTables_lnTbl, getD_map_range]
  simp only [List.length_map, List.length_range]
  constructor
  · rintro ⟨h1, h2⟩
    rw [if_pos h1] at h2
    exact (mem_lnRow t a x).1 h2
  · intro h
    have h0 := h
    obtain ⟨i, hi, h1, _⟩ := h0
    have ha : a < t.maxLevel + 1 := by
      have : t.lns.getD i 0 ∈ t.lns := by
        rw [getD_eq_getElem' _ _ _ hi]; exact List.getElem_mem _
      have := hg.ln_levels _ this
      omega
    rw [if_pos ha]
    exact ⟨ha, (mem_lnRow t a x).2 h⟩

theorem levelOf_eq_trainerLevel_core (t : TTables) (hg : t.Good) (s : Str) :
    t.toTables.levelOf (t.ngram - 1) s = t.trainerLevel s := by
  have hn := hg.ngram_ge
  unfold Tables.levelOf TTables.trainerLevel
  simp only []
  by_cases h1 : s.length < t.ngram
  · rw [if_pos (by omega), if_pos (by simp [h1])]
  · rw [if_neg (by omega)]
    rw [tblLevel_ip t hg, toTables_transCost t hg]
    by_cases h2 : s.length > t.lns.length
    · rw [if_pos (by simp [h2])]
      have : tblLevel t.toTables.lnTbl (s.drop (t.ngram - 1)).length = none := by
        cases h' : tblLevel t.toTables.lnTbl (s.drop (t.ngram - 1)).length with
        | none => rfl
        | some a =>
          obtain ⟨i, hi, _, h3, h4⟩ := (tblLevel_ln t hg _ a).1 h'
          rw [List.length_drop] at h4
          omega
      rw [this]
      cases (t.entry (s.take (t.ngram - 1))).map (·.ipLevel) <;> rfl
    · rw [if_neg (by simp [h1, h2])]
      have hi : s.length - 1 < t.lns.length := by omega
      have hln : tblLevel t.toTables.lnTbl (s.drop (t.ngram - 1)).length = some t.lns[s.length - 1] := by
        rw [tblLevel_ln t hg]
        refine ⟨s.length - 1, hi, getD_eq_getElem' _ _ _ hi, by omega, ?_⟩
        rw [List.length_drop]; omega
      rw [hln, List.getElem?_eq_getElem hi]
      cases t.entry (s.take (t.ngram - 1)) with
      | none => rfl
      | some e =>
        simp only [Option.map_some]
        cases t.chain (s.take (t.ngram - 1)) (s.drop (t.ngram - 1)) with
        | none => rfl
        | some c => simp only [Option.some.injEq]; omega

end Omen
