import PcfgVerif.Lemmas.GridBasic
import PcfgVerif.Lemmas.Best
/-! Characterisation of the generated decision fragments and of the loops built from them
(`areYouMyChild`, `isParentAround`, `findChildren` skip test, `restoreGuard`). -/
namespace Pcfg
variable {P : Type}

/-- the total preorder of a `PAlg`, as a `Best.Ord` -/
def PAlg.ord (A : PAlg P) : Best.Ord P := ⟨A.le, A.le_refl, A.le_trans, A.le_total⟩

theorem PAlg.not_le {A : PAlg P} {a b : P} (h : A.le a b = false) : A.le b a = true := by
  rcases A.le_total a b with h' | h'
  · rw [h] at h'; cases h'
  · exact h'

/-! ### loops -/

theorem loopRet_all (body : Nat → Option Bool) (h : ∀ p, body p = none ∨ body p = some false) :
    ∀ l, loopRet body true l = l.all (fun p => (body p).isNone)
  | [] => rfl
  | p :: ps => by
    rcases h p with e | e <;> simp [loopRet, e, loopRet_all body h ps]

theorem loopRet_any (body : Nat → Option Bool) (h : ∀ p, body p = none ∨ body p = some true) :
    ∀ l, loopRet body false l = l.any (fun p => (body p).isSome)
  | [] => rfl
  | p :: ps => by
    rcases h p with e | e <;> simp [loopRet, e, loopRet_any body h ps]

/-! ### fragments -/

theorem aymcBody_cases (O : POps P) (pos k item : Nat) (np pp : P) :
    Generated.PQ.aymcBody O pos k item np pp = none ∨
      Generated.PQ.aymcBody O pos k item np pp = some false := by
  simp only [Generated.PQ.aymcBody]
  repeat' split
  all_goals simp

theorem aymcBody_isNone (A : PAlg P) (pos k item : Nat) (np pp : P) :
    (Generated.PQ.aymcBody A.toPOps pos k item np pp).isNone =
      (pos == k || item == 0 || Best.survives A.ord (pp, k) (np, pos)) := by
  simp only [Generated.PQ.aymcBody, CmpOp.nat, POps.cmp, Best.survives, Best.Ord.lt, Best.Ord.eqv,
    POps.lt, POps.eqv, PAlg.ord]
  by_cases h1 : pos = k
  · simp [h1]
  · by_cases h2 : item = 0
    · simp [h2]
    · rcases Bool.eq_false_or_eq_true (A.le pp np) with h3 | h3 <;>
        rcases Bool.eq_false_or_eq_true (A.le np pp) with h4 | h4 <;>
        by_cases h5 : pos < k <;> simp [h1, h2, h3, h4, h5]

theorem fcSkip_eq (a b : Nat) : Generated.PQ.fcSkip a b = (a == b + 1) := by
  simp [Generated.PQ.fcSkip, CmpOp.nat]

theorem aymcDefault_eq : Generated.PQ.aymcDefault = true := rfl
theorem rootIndex_eq : Generated.PQ.rootIndex = 0 := rfl

theorem queueLt_eq (O : POps P) (a b : P) : Generated.PQ.queueLt O a b = !(O.le a b) := by
  simp [Generated.PQ.queueLt, POps.cmp, POps.lt]

/-! ### candidates (the parents of a node, with the position that was incremented) -/

def cands (O : POps P) (s : Struct P) (v : List Nat) : List (P × Nat) :=
  (List.range v.length).filterMap fun pos =>
    if 0 < v.getD pos 0 then some (findProb O s (dec v pos), pos) else none

theorem mem_cands (O : POps P) (s : Struct P) (v : List Nat) (y : P × Nat) :
    y ∈ cands O s v ↔ 0 < v.getD y.2 0 ∧ y.1 = findProb O s (dec v y.2) := by
  simp only [cands, List.mem_filterMap, List.mem_range]
  constructor
  · rintro ⟨pos, hpos, h⟩
    split at h
    · rename_i hp
      simp at h; subst h; exact ⟨hp, rfl⟩
    · simp at h
  · rintro ⟨h1, h2⟩
    refine ⟨y.2, getD_pos_lt h1, ?_⟩
    rw [if_pos h1, ← h2]

theorem cands_pairwise (O : POps P) (s : Struct P) (v : List Nat) :
    (cands O s v).Pairwise (fun a b => a.2 < b.2) := by
  apply List.Pairwise.filterMap _ _ (List.pairwise_lt_range (n := v.length))
  intro a a' haa b hb b' hb'
  split at hb <;> simp at hb
  split at hb' <;> simp at hb'
  subst hb; subst hb'; exact haa

theorem areYouMyChild_eq (A : PAlg P) (s : Struct P) (c : List Nat) (k : Nat) (pp : P) :
    areYouMyChild A.toPOps s c k pp = Best.unbeaten A.ord (cands A.toPOps s c) (pp, k) := by
  unfold areYouMyChild
  rw [aymcDefault_eq, loopRet_all _ (fun p => aymcBody_cases _ _ _ _ _ _)]
  simp only [Best.unbeaten, cands, List.all_filterMap]
  congr 1
  funext pos
  rw [aymcBody_isNone]
  generalize c.getD pos 0 = n
  by_cases h : 0 < n
  · have : (n == 0) = false := by simp; omega
    simp [h, this]
  · have : n = 0 := by omega
    simp [this]

end Pcfg
