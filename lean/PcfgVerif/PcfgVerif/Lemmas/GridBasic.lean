import PcfgVerif.Model.GridSpec
/-! Basic facts on index vectors (`inc`, `dec`, `validIdx`, `allIdx`, `allNodes`) and monotonicity
of `probFold`. -/
namespace Pcfg
variable {P : Type}

/-! ### `inc` / `dec` -/

@[simp] theorem length_inc : ∀ (i : List Nat) (k : Nat), (inc i k).length = i.length
  | [], _ => rfl
  | _ :: _, 0 => rfl
  | _ :: is, k + 1 => by simp [inc, length_inc is k]

@[simp] theorem length_dec : ∀ (i : List Nat) (k : Nat), (dec i k).length = i.length
  | [], _ => rfl
  | _ :: _, 0 => rfl
  | _ :: is, k + 1 => by simp [dec, length_dec is k]

theorem getD_inc : ∀ (i : List Nat) (k j : Nat),
    (inc i k).getD j 0 = if j = k ∧ k < i.length then i.getD j 0 + 1 else i.getD j 0
  | [], _, _ => by simp [inc]
  | a :: is, 0, 0 => by simp [inc]
  | a :: is, 0, j + 1 => by simp [inc]
  | a :: is, k + 1, 0 => by simp [inc]
  | a :: is, k + 1, j + 1 => by
    simp only [inc, List.getD_cons_succ, getD_inc is k j]; simp

theorem getD_dec : ∀ (i : List Nat) (k j : Nat),
    (dec i k).getD j 0 = if j = k then i.getD j 0 - 1 else i.getD j 0
  | [], _, _ => by simp [dec]
  | a :: is, 0, 0 => by simp [dec]
  | a :: is, 0, j + 1 => by simp [dec]
  | a :: is, k + 1, 0 => by simp [dec]
  | a :: is, k + 1, j + 1 => by
    simp only [dec, List.getD_cons_succ, getD_dec is k j]; simp

theorem ext_getD {a b : List Nat} (hl : a.length = b.length)
    (h : ∀ j, a.getD j 0 = b.getD j 0) : a = b := by
  apply List.ext_getElem hl
  intro i h1 h2
  have := h i
  simpa [List.getD_eq_getElem?_getD, h1, h2] using this

theorem dec_inc (i : List Nat) (k : Nat) : dec (inc i k) k = i := by
  apply ext_getD (by simp)
  intro j
  rw [getD_dec, getD_inc]
  by_cases hj : j = k
  · subst hj
    by_cases hl : j < i.length
    · simp [hl]
    · have : i.getD j 0 = 0 := by simp [List.getD_eq_getElem?_getD, Nat.le_of_not_lt hl]
      simp [hl]
  · simp [hj]

theorem inc_dec (i : List Nat) (k : Nat) (h : 0 < i.getD k 0) : inc (dec i k) k = i := by
  have hk : k < i.length := by
    by_cases hl : k < i.length
    · exact hl
    · have : i.getD k 0 = 0 := by simp [List.getD_eq_getElem?_getD, Nat.le_of_not_lt hl]
      omega
  apply ext_getD (by simp)
  intro j
  rw [getD_inc, getD_dec]
  by_cases hj : j = k
  · subst hj; rw [if_pos rfl, if_pos ⟨rfl, by simpa using hk⟩]; omega
  · simp [hj]

theorem getD_pos_lt {i : List Nat} {k : Nat} (h : 0 < i.getD k 0) : k < i.length := by
  by_cases hl : k < i.length
  · exact hl
  · have : i.getD k 0 = 0 := by simp [List.getD_eq_getElem?_getD, Nat.le_of_not_lt hl]
    omega

theorem sum_inc : ∀ (i : List Nat) (k : Nat), k < i.length → (inc i k).sum = i.sum + 1
  | [], _, h => by simp at h
  | a :: is, 0, _ => by simp [inc]; omega
  | a :: is, k + 1, h => by
    have := sum_inc is k (by simpa using h)
    simp [inc, this]; omega

theorem sum_dec (i : List Nat) (k : Nat) (h : 0 < i.getD k 0) : (dec i k).sum + 1 = i.sum := by
  have := sum_inc (dec i k) k (by simpa using getD_pos_lt h)
  rw [inc_dec i k h] at this
  omega

theorem inc_ne_self (i : List Nat) (k : Nat) (h : k < i.length) : inc i k ≠ i := by
  intro e
  have := sum_inc i k h
  rw [e] at this
  omega

theorem inc_inj_pos (i : List Nat) (k k' : Nat) (h : k < i.length) (e : inc i k = inc i k') :
    k = k' := by
  have h1 := getD_inc i k k
  rw [e, getD_inc] at h1
  by_cases hk : k = k'
  · exact hk
  · simp [hk, h] at h1

/-! ### `validIdx` -/

theorem validIdx_iff : ∀ (cols : List (List P)) (i : List Nat),
    validIdx cols i = true ↔
      i.length = cols.length ∧ ∀ j, j < cols.length → i.getD j 0 < (cols.getD j []).length
  | [], [] => by simp [validIdx]
  | [], _ :: _ => by simp [validIdx]
  | _ :: _, [] => by simp [validIdx]
  | c :: cs, a :: is => by
    simp only [validIdx, Bool.and_eq_true, decide_eq_true_eq, validIdx_iff cs is, List.length_cons]
    constructor
    · rintro ⟨h0, hl, h⟩
      refine ⟨by omega, ?_⟩
      intro j hj
      cases j with
      | zero => simpa using h0
      | succ j => simpa using h j (by omega)
    · rintro ⟨hl, h⟩
      refine ⟨by simpa using h 0 (by omega), by omega, ?_⟩
      intro j hj
      simpa using h (j + 1) (by omega)

theorem validIdx_length {cols : List (List P)} {i : List Nat} (h : validIdx cols i = true) :
    i.length = cols.length := ((validIdx_iff cols i).mp h).1

theorem validIdx_dec {cols : List (List P)} {i : List Nat} (h : validIdx cols i = true) (k : Nat) :
    validIdx cols (dec i k) = true := by
  rw [validIdx_iff] at h ⊢
  refine ⟨by simpa using h.1, ?_⟩
  intro j hj
  have := h.2 j hj
  rw [getD_dec]
  split <;> omega

theorem validIdx_inc {cols : List (List P)} {i : List Nat} (h : validIdx cols i = true) (k : Nat)
    (hroom : i.getD k 0 + 1 < (cols.getD k []).length) : validIdx cols (inc i k) = true := by
  rw [validIdx_iff] at h ⊢
  refine ⟨by simpa using h.1, ?_⟩
  intro j hj
  have := h.2 j hj
  rw [getD_inc]
  split
  · rename_i hjk; rw [hjk.1]; exact hroom
  · exact this

theorem validIdx_sum_le : ∀ (cols : List (List P)) (i : List Nat), validIdx cols i = true →
    i.sum ≤ (cols.map List.length).sum
  | [], [], _ => by simp
  | [], _ :: _, h => by simp [validIdx] at h
  | _ :: _, [], h => by simp [validIdx] at h
  | c :: cs, a :: is, h => by
    simp only [validIdx, Bool.and_eq_true, decide_eq_true_eq] at h
    have := validIdx_sum_le cs is h.2
    simp; omega

/-! ### `allIdx`, `allNodes` -/

theorem mem_allIdx : ∀ (cols : List (List P)) (i : List Nat),
    i ∈ allIdx cols ↔ validIdx cols i = true
  | [], [] => by simp [allIdx, validIdx]
  | [], _ :: _ => by simp [allIdx, validIdx]
  | c :: cs, [] => by simp [allIdx, validIdx]
  | c :: cs, a :: is => by
    simp [allIdx, validIdx, mem_allIdx cs is]

theorem nodup_allIdx : ∀ (cols : List (List P)), (allIdx cols).Nodup
  | [] => by simp [allIdx]
  | c :: cs => by
    simp only [allIdx, List.Nodup]
    rw [List.pairwise_flatMap]
    constructor
    · intro a _
      rw [List.pairwise_map]
      exact (nodup_allIdx cs).imp (by intro x y hxy e; exact hxy (by simpa using e))
    · exact List.nodup_range.imp (by
        intro a b hab x hx y hy e
        simp only [List.mem_map] at hx hy
        obtain ⟨x', _, rfl⟩ := hx
        obtain ⟨y', _, rfl⟩ := hy
        simp at e
        exact hab e.1)

section
variable [Inhabited P]

theorem struct_mem (g : Grid P) (b : Nat) (h : b < g.length) : g.struct b ∈ g := by
  simp [Grid.struct, List.getD_eq_getElem?_getD, h]

theorem mem_allNodes (g : Grid P) (v : Node) : v ∈ allNodes g ↔ ValidNode g v := by
  simp only [allNodes, List.mem_flatMap, List.mem_range, List.mem_map, mem_allIdx, ValidNode]
  constructor
  · rintro ⟨b, hb, i, hi, rfl⟩; exact ⟨hb, hi⟩
  · rintro ⟨hb, hi⟩; exact ⟨v.b, hb, v.idx, hi, rfl⟩

theorem nodup_allNodes (g : Grid P) : (allNodes g).Nodup := by
  simp only [allNodes, List.Nodup]
  rw [List.pairwise_flatMap]
  constructor
  · intro b _
    rw [List.pairwise_map]
    exact (nodup_allIdx _).imp (by intro x y hxy e; exact hxy (by simpa using e))
  · exact List.nodup_range.imp (by
      intro a b hab x hx y hy e
      simp only [List.mem_map] at hx hy
      obtain ⟨x', _, rfl⟩ := hx
      obtain ⟨y', _, rfl⟩ := hy
      simp at e
      exact hab e.1)

/-- Boolean version of `ValidNode` -/
def validNodeB (g : Grid P) (v : Node) : Bool :=
  decide (v.b < g.length) && validIdx (g.struct v.b).cols v.idx

theorem validNodeB_iff (g : Grid P) (v : Node) : validNodeB g v = true ↔ ValidNode g v := by
  simp [validNodeB, ValidNode]

end

/-! ### monotonicity of `probFold` -/

theorem col_mono (A : PAlg P) (c : List P) (hc : c.Pairwise (fun a b => A.le b a = true))
    (i i' : Nat) (hi : i < c.length) (hii : i' ≤ i) :
    A.le (c[i]) (c[i']'(by omega)) = true := by
  by_cases e : i' = i
  · subst e; exact A.le_refl _
  · exact (List.pairwise_iff_getElem.mp hc) i' i (by omega) hi (by omega)

theorem probFold_mono (A : PAlg P) : ∀ (cols : List (List P)),
    (∀ c ∈ cols, c.Pairwise (fun a b => A.le b a = true)) →
    ∀ (acc acc' : P) (i i' : List Nat), A.le acc acc' = true →
      validIdx cols i = true → validIdx cols i' = true →
      (∀ j, i'.getD j 0 ≤ i.getD j 0) →
      A.le (probFold A.toPOps acc cols i) (probFold A.toPOps acc' cols i') = true
  | [], _, acc, acc', [], [], h, _, _, _ => by simpa [probFold] using h
  | [], _, _, _, _ :: _, _, _, h, _, _ => by simp [validIdx] at h
  | [], _, _, _, [], _ :: _, _, _, h, _ => by simp [validIdx] at h
  | _ :: _, _, _, _, [], _, _, h, _, _ => by simp [validIdx] at h
  | _ :: _, _, _, _, _ :: _, [], _, _, h, _ => by simp [validIdx] at h
  | c :: cs, hwf, acc, acc', a :: is, a' :: is', h, hv, hv', hle => by
    simp only [validIdx, Bool.and_eq_true, decide_eq_true_eq] at hv hv'
    have ha : a' ≤ a := by simpa using hle 0
    simp only [probFold, List.getElem?_eq_getElem hv.1, List.getElem?_eq_getElem hv'.1]
    apply probFold_mono A cs (fun c' hc' => hwf c' (List.mem_cons_of_mem _ hc')) _ _ is is' _
      hv.2 hv'.2 (fun j => by simpa using hle (j + 1))
    have h1 : A.le (A.mul acc c[a]) (A.mul acc' c[a]) = true := A.mul_mono_left _ _ _ h
    have h2 : A.le (A.mul acc' c[a]) (A.mul acc' c[a']) = true :=
      A.mul_mono_right _ _ _ (col_mono A c (hwf c (List.mem_cons_self)) a a' hv.1 ha)
    exact A.le_trans _ _ _ h1 h2

theorem findProb_mono (A : PAlg P) (s : Struct P) (hwf : ∀ c ∈ s.cols, c.Pairwise (fun a b => A.le b a = true))
    (i i' : List Nat) (hv : validIdx s.cols i = true) (hv' : validIdx s.cols i' = true)
    (hle : ∀ j, i'.getD j 0 ≤ i.getD j 0) :
    A.le (findProb A.toPOps s i) (findProb A.toPOps s i') = true :=
  probFold_mono A s.cols hwf _ _ i i' (A.le_refl _) hv hv' hle

theorem findProb_dec_ge (A : PAlg P) (s : Struct P)
    (hwf : ∀ c ∈ s.cols, c.Pairwise (fun a b => A.le b a = true))
    (i : List Nat) (hv : validIdx s.cols i = true) (k : Nat) :
    A.le (findProb A.toPOps s i) (findProb A.toPOps s (dec i k)) = true := by
  apply findProb_mono A s hwf i (dec i k) hv (validIdx_dec hv k)
  intro j; rw [getD_dec]; split <;> omega

end Pcfg
