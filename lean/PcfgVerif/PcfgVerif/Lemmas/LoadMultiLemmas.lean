import PcfgVerif.Model.LoadMulti
namespace Pcfg.LoadMulti
variable {β : Type}

theorem lookup_setVar (g : List (String × β)) (k k' : String) (c : β) :
    lookup (setVar g k c) k' = if k' = k then some c else lookup g k' := by
  unfold lookup setVar
  rw [List.find?_append]
  by_cases h : k' = k
  · subst h
    have : (g.filter fun e => e.1 != k').find? (·.1 == k') = none := by
      apply List.find?_eq_none.mpr
      intro e he
      have := (List.mem_filter.mp he).2
      simpa using this
    rw [this]
    simp
  · rw [if_neg h]
    have hk : (k == k') = false := beq_eq_false_iff_ne.mpr (fun e => h e.symm)
    have e1 : (g.filter fun e => e.1 != k).find? (·.1 == k') = g.find? (·.1 == k') := by
      induction g with
      | nil => rfl
      | cons a rest ih =>
        rw [List.filter_cons]
        by_cases ha : a.1 = k
        · have : (a.1 != k) = false := by simp [ha]
          simp only [this, Bool.false_eq_true, if_false]
          rw [ih, List.find?_cons]
          have : (a.1 == k') = false := by rw [ha]; exact hk
          simp [this]
        · have : (a.1 != k) = true := by simp [ha]
          simp only [this, if_true]
          rw [List.find?_cons, List.find?_cons, ih]
    rw [e1]
    cases hf : g.find? (·.1 == k') with
    | none => simp [hk]
    | some x => simp

/-- the variable of the file listed **last** under a name holds that file's content; other variables keep what they had -/
theorem loadMultiple_lookup (read : String → Option β) (cat : String) (files : List String) (g g' : List (String × β))
    (h : loadMultiple read cat files g = some g') (k : String) :
    lookup g' k = match files.reverse.find? (fun f => cat ++ stem f == k) with
      | some f => read f
      | none => lookup g k := by
  induction files generalizing g with
  | nil =>
    simp only [loadMultiple, Option.some.injEq] at h
    subst h; rfl
  | cons f rest ih =>
    unfold loadMultiple at h
    cases hr : read f with
    | none => rw [hr] at h; simp at h
    | some c =>
      rw [hr] at h
      have := ih _ h
      rw [this, List.reverse_cons, List.find?_append]
      cases hf : rest.reverse.find? (fun f => cat ++ stem f == k) with
      | some f' => simp
      | none =>
        simp only [Option.none_or, List.find?_cons, List.find?_nil]
        rw [lookup_setVar]
        by_cases hk : k = cat ++ stem f
        · subst hk; simp [hr]
        · have : (cat ++ stem f == k) = false := beq_eq_false_iff_ne.mpr (fun e => hk e.symm)
          simp [this, hk]

theorem inj_of_nodup_map {α γ : Type} (f : α → γ) (l : List α) (h : (l.map f).Nodup) (x y : α) (hx : x ∈ l) (hy : y ∈ l)
    (e : f x = f y) : x = y := by
  induction l with
  | nil => simp at hx
  | cons a rest ih =>
    rw [List.map_cons, List.nodup_cons] at h
    rcases List.mem_cons.mp hx with hx1 | hx1
    · rcases List.mem_cons.mp hy with hy1 | hy1
      · rw [hx1, hy1]
      · have hm : f a ∈ rest.map f := List.mem_map.mpr ⟨y, hy1, by rw [← hx1]; exact e.symm⟩
        exact absurd hm h.1
    · rcases List.mem_cons.mp hy with hy1 | hy1
      · have hm : f a ∈ rest.map f := List.mem_map.mpr ⟨x, hx1, by rw [← hy1]; exact e⟩
        exact absurd hm h.1
      · exact ih h.2 hx1 hy1

/-- with pairwise different variable names every listed file ends up under its own variable -/
theorem loadMultiple_each (read : String → Option β) (cat : String) (files : List String) (g g' : List (String × β))
    (h : loadMultiple read cat files g = some g') (hnd : (files.map fun f => cat ++ stem f).Nodup) (f : String) (hf : f ∈ files) :
    lookup g' (cat ++ stem f) = read f := by
  rw [loadMultiple_lookup read cat files g g' h]
  have : files.reverse.find? (fun x => cat ++ stem x == cat ++ stem f) = some f := by
    have hmem : f ∈ files.reverse := List.mem_reverse.mpr hf
    cases hfind : files.reverse.find? (fun x => cat ++ stem x == cat ++ stem f) with
    | none =>
      have := List.find?_eq_none.mp hfind f hmem
      simp at this
    | some x =>
      have hx := List.mem_reverse.mp (List.mem_of_find?_eq_some hfind)
      have hk : cat ++ stem x = cat ++ stem f := by simpa using List.find?_some hfind
      have := inj_of_nodup_map (fun f => cat ++ stem f) files hnd x f hx hf hk
      rw [this]
  rw [this]

/-- all files readable ⇒ the function succeeds -/
theorem loadMultiple_ok (read : String → Option β) (cat : String) (files : List String) (g : List (String × β))
    (h : ∀ f ∈ files, (read f).isSome) : (loadMultiple read cat files g).isSome := by
  induction files generalizing g with
  | nil => rfl
  | cons f rest ih =>
    unfold loadMultiple
    obtain ⟨c, hc⟩ := Option.isSome_iff_exists.mp (h f (by simp))
    rw [hc]
    exact ih _ (fun x hx => h x (List.mem_cons_of_mem _ hx))

end Pcfg.LoadMulti
