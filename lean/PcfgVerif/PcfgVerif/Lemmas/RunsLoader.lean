import PcfgVerif.Lemmas.TrainedAgreeA
import PcfgVerif.Properties.C07
/-! The groups the loader model returns on a written list are the maximal runs of equal probability of that list (`runs`):
the columns of `Trainer.viewOf` are what `_load_from_file` builds from the trainer's files. -/
namespace Pcfg.Trainer
open Pcfg Pcfg.Detect

/-- a block of values of one probability in front of a list whose first run has another probability -/
theorem runs_block {α : Type} (vs : List α) (hvs : vs ≠ []) (p : Rat) (rest : List (α × Rat))
    (hd : ∀ g ∈ (runs rest).head?, g.2 ≠ p) :
    runs (vs.map (fun v => (v, p)) ++ rest) = (vs, p) :: runs rest := by
  induction vs with
  | nil => exact absurd rfl hvs
  | cons v more ih =>
    cases more with
    | nil =>
      simp only [List.map_cons, List.map_nil, List.cons_append, List.nil_append]
      rw [runs]
      cases hr : runs rest with
      | nil => rfl
      | cons g gs =>
        obtain ⟨ws, q⟩ := g
        have : q ≠ p := hd (ws, q) (by rw [hr]; rfl)
        simp only
        rw [if_neg (fun e => this e.symm)]
    | cons v' more' =>
      have := ih (by simp)
      simp only [List.map_cons, List.cons_append] at this ⊢
      rw [runs, this]
      simp

/-- uniqueness: a split of a list into non-empty blocks of constant probability, neighbouring blocks differing, is `runs` -/
theorem runs_unique (gs : List (LGroup Rat)) (hne : ∀ g ∈ gs, g.values ≠ [])
    (hadj : ∀ (i : Nat) g1 g2, gs[i]? = some g1 → gs[i + 1]? = some g2 → g2.prob ≠ g1.prob) :
    runs (pairs gs) = gs.map fun g => (g.values, g.prob) := by
  induction gs with
  | nil => rfl
  | cons g rest ih =>
    have ih' := ih (fun x hx => hne x (List.mem_cons_of_mem _ hx))
      (fun i g1 g2 h1 h2 => hadj (i + 1) g1 g2 (by simpa using h1) (by simpa using h2))
    have hp : pairs (g :: rest) = g.values.map (fun v => (v, g.prob)) ++ pairs rest := by simp [pairs]
    rw [hp, runs_block g.values (hne g (by simp)) g.prob (pairs rest) ?_, ih']
    · rfl
    · intro x hx
      rw [ih'] at hx
      cases rest with
      | nil => simp at hx
      | cons g2 rest2 =>
        simp only [List.map_cons, List.head?_cons, Option.mem_def, Option.some.injEq] at hx
        subst hx
        exact hadj 0 g g2 rfl rfl

/-- **the loader model applied to the file the trainer writes returns the runs of the written list** (exact rationals; printing
and parsing a probability round-trip, values clean, no probability equal to the loader's sentinel −1) -/
theorem loader_returns_runs (parseP : CPs → Option Rat) (showP : Rat → CPs) (neg1 : Rat)
    (hround : ∀ p, parseP (showP p) = some p) (items : List (CPs × Rat))
    (hclean : ∀ it ∈ items, CleanValue it.1) (hshow : ∀ p, CleanProb (showP p)) (hsent : ∀ it ∈ items, it.2 ≠ neg1) :
    ∃ gs, loadFromFile parseP (fun a b => a == b) neg1 (writeFile (items.map fun it => (it.1, showP it.2))) = some gs ∧
      gs.map (fun g => (g.values, g.prob)) = runs items := by
  obtain ⟨gs, hload, hvals, hne, hidx, hadj⟩ := C07.C07_guesser_roundtrip parseP (fun a b => a == b) neg1 (by intro a; simp)
    (by intro a b h; simpa using (beq_iff_eq.mp h).symm) (by intro a b c h1 h2; simp at *; rw [h1, h2])
    (items.map fun it => (it.1, showP it.2))
    (by intro it hit; obtain ⟨x, hx, rfl⟩ := List.mem_map.mp hit; exact ⟨hclean x hx, hshow _⟩)
    (by intro it hit; obtain ⟨x, hx, rfl⟩ := List.mem_map.mp hit; exact ⟨x.2, hround _, by simpa using hsent x hx⟩)
  refine ⟨gs, hload, ?_⟩
  have hpairs : pairs gs = items := by
    apply List.ext_getElem?
    intro i
    have hlen : (pairs gs).length = items.length := by
      have := congrArg List.length hvals
      rw [← pairs_map_fst] at this
      simpa using this
    cases ha : (pairs gs)[i]? with
    | none =>
      have : items.length ≤ i := by rw [← hlen]; exact List.getElem?_eq_none_iff.mp ha
      exact (List.getElem?_eq_none_iff.mpr this).symm
    | some a =>
      have hi : i < items.length := by rw [← hlen]; exact (List.getElem?_eq_some_iff.mp ha).1
      have hit : (items.map fun it => (it.1, showP it.2))[i]? = some (items[i].1, showP items[i].2) := by
        rw [List.getElem?_map, List.getElem?_eq_getElem hi]; rfl
      obtain ⟨h1, p, hp, he⟩ := hidx i a _ ha hit
      rw [hround] at hp
      cases hp
      have h2 : items[i].2 = a.2 := by simpa using he
      rw [List.getElem?_eq_getElem hi]
      congr 1
      exact Prod.ext h1 h2.symm
  rw [← hpairs, runs_unique gs hne]
  intro i g1 g2 h1 h2 e
  have := hadj i g1 g2 h1 h2
  simp [e] at this

end Pcfg.Trainer
