import PcfgVerif.Model.GridSpec
import PcfgVerif.Lemmas.Adopt
import PcfgVerif.Lemmas.AdoptOrder
import PcfgVerif.Lemmas.GridFrag
/-! Generic refinement: if the queue model's `nodeChildren` / start list agree (up to permutation)
with an abstract adoption system, every reachable state satisfies the abstract invariants. -/

namespace Adopt
variable {α : Type} [DecidableEq α] (S : Sys α)

theorem Inv.perm {s : St α} {q' : List α} (h : Inv S s) (hp : s.queue.Perm q') :
    Inv S ⟨q', s.popped⟩ := by
  intro v
  have := h v
  simp only [List.count_append] at *
  rw [← hp.count_eq]; exact this

theorem OrdInv.perm {P : Type} (W : Weight S P) {s : St α} {q' : List α} (h : OrdInv S W s)
    (hp : s.queue.Perm q') : OrdInv S W ⟨q', s.popped⟩ :=
  ⟨fun q hq p hpp => h.q_le_p q (hp.mem_iff.mpr hq) p hpp, h.sorted⟩

theorem inv_mem_all {s : St α} (h : Inv S s) (v : α) (hv : v ∈ s.popped ++ s.queue) : v ∈ S.all := by
  have hc := h v
  have : 0 < (s.popped ++ s.queue).count v := List.count_pos_iff.mpr hv
  by_cases hm : v ∈ S.all
  · exact hm
  · simp [Sys.due, hm] at hc
    rw [List.count_append] at this; omega

theorem inv_nodup {s : St α} (h : Inv S s) : (s.popped ++ s.queue).Nodup :=
  List.nodup_iff_count.mpr (fun a => by rw [h a]; split <;> omega)

theorem length_le_of_nodup_subset : ∀ (l l2 : List α), l.Nodup → (∀ a ∈ l, a ∈ l2) →
    l.length ≤ l2.length
  | [], _, _, _ => by simp
  | a :: l, l2, hn, hs => by
    rw [List.nodup_cons] at hn
    have ha : a ∈ l2 := hs a (by simp)
    have := length_le_of_nodup_subset l (l2.erase a) hn.2 (by
      intro b hb
      have hne : b ≠ a := fun e => hn.1 (e ▸ hb)
      exact (List.mem_erase_of_ne hne).mpr (hs b (by simp [hb])))
    rw [List.length_erase_of_mem ha] at this
    have : 0 < l2.length := List.length_pos_of_mem ha
    simp only [List.length_cons]; omega

/-- the sub-system of the nodes satisfying `alive` -/
def Sys.restrict (alive : α → Bool) : Sys α where
  all := S.all.filter alive
  all_nodup := S.all_nodup.sublist List.filter_sublist
  adopter v := (S.adopter v).filter alive
  rank := S.rank
  adopter_mem := by
    intro v p hv h
    rw [Option.filter_eq_some_iff] at h
    rw [List.mem_filter] at hv ⊢
    exact ⟨S.adopter_mem v p hv.1 h.1, h.2⟩
  adopter_rank := by
    intro v p h
    rw [Option.filter_eq_some_iff] at h
    exact S.adopter_rank v p h.1

theorem restrict_children (alive : α → Bool)
    (hdown : ∀ v p, S.adopter v = some p → alive p = true → alive v = true)
    (x : α) (hx : alive x = true) : (S.restrict alive).children x = S.children x := by
  simp only [Sys.children, Sys.restrict, List.filter_filter]
  apply List.filter_congr
  intro v _
  by_cases h : S.adopter v = some x
  · simp [h, hx, hdown v x h hx]
  · have : ¬ (Option.filter alive (S.adopter v) = some x) := by
      rw [Option.filter_eq_some_iff]; exact fun h' => h h'.1
    simp [h, this]

end Adopt

namespace Pcfg
variable {P : Type} [Inhabited P]

theorem isTop_mem {O : POps P} {g : Grid P} {q : List Node} {x : Node}
    (h : isTop O g q x = true) : x ∈ q := by
  simp only [isTop, Bool.and_eq_true, List.contains_iff_mem] at h
  exact h.1

theorem isTop_max (A : PAlg P) {g : Grid P} {q : List Node} {x : Node}
    (h : isTop A.toPOps g q x = true) :
    ∀ y ∈ q, A.le (nodeProb A.toPOps g y) (nodeProb A.toPOps g x) = true := by
  simp only [isTop, Bool.and_eq_true, List.all_eq_true, queueLt_eq, Bool.not_not] at h
  exact h.2

omit [Inhabited P] in
theorem exists_max (A : PAlg P) (f : Node → P) : ∀ (q : List Node), q ≠ [] →
    ∃ x ∈ q, ∀ y ∈ q, A.le (f y) (f x) = true
  | [], h => absurd rfl h
  | [a], _ => ⟨a, by simp, by simp [A.le_refl]⟩
  | a :: b :: r, _ => by
    obtain ⟨x, hx, hmax⟩ := exists_max A f (b :: r) (by simp)
    rcases A.le_total (f a) (f x) with h | h
    · refine ⟨x, List.mem_cons_of_mem _ hx, fun y hy => ?_⟩
      rcases List.mem_cons.mp hy with rfl | hy
      · exact h
      · exact hmax y hy
    · refine ⟨a, by simp, fun y hy => ?_⟩
      rcases List.mem_cons.mp hy with rfl | hy
      · exact A.le_refl _
      · exact A.le_trans _ _ _ (hmax y hy) h

theorem exists_isTop (A : PAlg P) (g : Grid P) (q : List Node) (hq : q ≠ []) :
    ∃ x, isTop A.toPOps g q x = true := by
  obtain ⟨x, hx, hmax⟩ := exists_max A (nodeProb A.toPOps g) q hq
  refine ⟨x, ?_⟩
  simp only [isTop, Bool.and_eq_true, List.contains_iff_mem, List.all_eq_true, queueLt_eq,
    Bool.not_not]
  exact ⟨hx, hmax⟩

def probWeight (A : PAlg P) (g : Grid P) (S : Adopt.Sys Node)
    (hcl : ∀ v p, S.adopter v = some p →
      A.le (nodeProb A.toPOps g v) (nodeProb A.toPOps g p) = true) : Adopt.Weight S P where
  w := nodeProb A.toPOps g
  le a b := A.le a b = true
  le_refl := A.le_refl
  le_trans := A.le_trans
  child_le := hcl

theorem reach_inv (A : PAlg P) (g : Grid P) (S : Adopt.Sys Node) (start : List Node)
    (hroots : start.Perm S.roots)
    (hch : ∀ x ∈ S.all, (nodeChildren A.toPOps g x).Perm (S.children x))
    (hcl : ∀ v p, S.adopter v = some p →
      A.le (nodeProb A.toPOps g v) (nodeProb A.toPOps g p) = true)
    (s : PQState) (h : Reach A.toPOps g start s) :
    Adopt.Inv S ⟨s.queue, s.popped⟩ ∧
      Adopt.OrdInv S (probWeight A g S hcl) ⟨s.queue, s.popped⟩ := by
  induction h with
  | init =>
    constructor
    · exact Adopt.Inv.perm S (Adopt.inv_init S) hroots.symm
    · exact ⟨by simp, by simp⟩
  | @step s x _ htop ih =>
    have hx : x ∈ s.queue := isTop_mem htop
    have hxall : x ∈ S.all := Adopt.inv_mem_all S ih.1 x (by simp [hx])
    have hperm : (s.queue.erase x ++ S.children x).Perm (s.queue.erase x ++ nodeChildren A.toPOps g x) :=
      List.Perm.append (List.Perm.refl _) (hch x hxall).symm
    constructor
    · exact Adopt.Inv.perm S (Adopt.inv_step S ⟨s.queue, s.popped⟩ x ih.1 hx) hperm
    · exact Adopt.OrdInv.perm S _
        (Adopt.ord_step S _ ⟨s.queue, s.popped⟩ x ih.2 hx (isTop_max A htop)) hperm

/-- everything the statements need, for any adoption system the model refines -/
theorem reach_summary (A : PAlg P) (g : Grid P) (S : Adopt.Sys Node) (start : List Node)
    (hroots : start.Perm S.roots)
    (hch : ∀ x ∈ S.all, (nodeChildren A.toPOps g x).Perm (S.children x))
    (hcl : ∀ v p, S.adopter v = some p →
      A.le (nodeProb A.toPOps g v) (nodeProb A.toPOps g p) = true)
    (s : PQState) (h : Reach A.toPOps g start s) :
    (s.popped ++ s.queue).Nodup ∧ NonIncreasing A.toPOps g s.popped ∧
      (∀ v ∈ s.popped ++ s.queue, v ∈ S.all) ∧ (s.queue = [] → s.popped.Perm S.all) ∧
      s.popped.length ≤ S.all.length := by
  have ⟨hi, ho⟩ := reach_inv A g S start hroots hch hcl s h
  have hnd := Adopt.inv_nodup S hi
  have hall := Adopt.inv_mem_all S hi
  refine ⟨hnd, ho.sorted, hall, fun hq => Adopt.exhausted_perm S _ hi hq, ?_⟩
  apply Adopt.length_le_of_nodup_subset
  · exact (List.nodup_append.mp hnd).1
  · intro a ha; exact hall a (by simp at ha ⊢; exact Or.inl ha)

end Pcfg
