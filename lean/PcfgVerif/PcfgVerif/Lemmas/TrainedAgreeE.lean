import PcfgVerif.Lemmas.TrainedAgreeD
import PcfgVerif.Model.Loader
/-! The base-structure clause of `Agree`: the guesser's tokeniser (`splitStructure`) applied to a structure string written by the
trainer gives back the labels, and `insertCase` adds the `C<n>` after every `A<n>`. -/
namespace Pcfg.Trainer
open Pcfg Pcfg.Detect

/-- a label as the tokeniser sees it: one letter followed by non-letters -/
def Tok (isAlpha : Nat → Bool) (t : CPs) : Prop :=
  ∃ a ds, t = a :: ds ∧ isAlpha a = true ∧ ∀ d ∈ ds, isAlpha d = false

theorem split_nonalpha (isAlpha : Nat → Bool) (ds rest : CPs) (hd : ∀ d ∈ ds, isAlpha d = false) (acc : List CPs) (l : CPs) :
    splitStructure isAlpha (ds ++ rest) (acc ++ [l]) = splitStructure isAlpha rest (acc ++ [l ++ ds]) := by
  induction ds generalizing l with
  | nil => simp
  | cons d more ih =>
    have h0 : isAlpha d = false := hd d (by simp)
    rw [List.cons_append, splitStructure]
    simp only [h0, Bool.false_eq_true, if_false, List.reverse_append, List.reverse_cons, List.reverse_nil, List.nil_append,
      List.singleton_append]
    rw [List.reverse_reverse, ih (fun x hx => hd x (List.mem_cons_of_mem _ hx))]
    simp

theorem split_tokens (isAlpha : Nat → Bool) (toks : List CPs) (ht : ∀ t ∈ toks, Tok isAlpha t) (acc : List CPs) :
    splitStructure isAlpha toks.flatten acc = some (acc ++ toks) := by
  induction toks generalizing acc with
  | nil => simp [splitStructure]
  | cons t rest ih =>
    obtain ⟨a, ds, rfl, ha, hd⟩ := ht t (by simp)
    rw [List.flatten_cons, List.cons_append, splitStructure]
    simp only [ha, if_true]
    rw [split_nonalpha isAlpha ds _ hd, ih (fun x hx => ht x (List.mem_cons_of_mem _ hx))]
    simp

end Pcfg.Trainer

namespace Pcfg.Trainer
open Pcfg Pcfg.Detect

def strOf (v : CPs) : String := String.ofList (v.map Char.ofNat)

theorem strOf_cps (l : String) : strOf (cpsOfString l) = l := by
  unfold strOf cpsOfString
  rw [List.map_map]
  have : (Char.ofNat ∘ Char.toNat) = id := by
    funext c; simp [Char.ofNat_toNat]
  rw [this, List.map_id, String.ofList_toList]

theorem toNat_eq_65 (c : Char) (h : c.toNat = 0x41) : c = 'A' := by
  have := congrArg Char.ofNat h
  rw [Char.ofNat_toNat] at this
  exact this

/-- `insertCase` on the code points of the labels = the replacement list of `Agree.base` -/
theorem insertCase_labels (labels : List String) :
    (insertCase (labels.map cpsOfString)).map strOf =
      labels.flatMap fun l => match l.toList with
        | 'A' :: n => [l, String.ofList ('C' :: n)]
        | _ => [l] := by
  induction labels with
  | nil => rfl
  | cons l rest ih =>
    rw [List.map_cons, List.flatMap_cons]
    cases hl : l.toList with
    | nil =>
      have : cpsOfString l = [] := by unfold cpsOfString; rw [hl]; rfl
      rw [this]
      simp only [insertCase, List.map_cons]
      rw [ih, ← this, strOf_cps]; rfl
    | cons ch n =>
      have hc : cpsOfString l = ch.toNat :: n.map Char.toNat := by unfold cpsOfString; rw [hl]; rfl
      by_cases hA : ch = 'A'
      · subst hA
        rw [hc]
        have : ('A' : Char).toNat = 0x41 := by decide
        rw [this]
        simp only [insertCase, List.map_cons]
        rw [ih]
        have e1 : strOf (0x41 :: n.map Char.toNat) = l := by
          rw [← this, ← hc, strOf_cps]
        have e2 : strOf (0x43 :: n.map Char.toNat) = String.ofList ('C' :: n) := by
          unfold strOf
          rw [List.map_cons, List.map_map]
          have : (Char.ofNat ∘ Char.toNat) = id := by funext c; simp [Char.ofNat_toNat]
          rw [this, List.map_id]
        rw [e1, e2]; rfl
      · have hne : ch.toNat ≠ 0x41 := fun h => hA (toNat_eq_65 ch h)
        rw [hc]
        have step : insertCase ((ch.toNat :: n.map Char.toNat) :: rest.map cpsOfString) =
            (ch.toNat :: n.map Char.toNat) :: insertCase (rest.map cpsOfString) := by
          simp [insertCase, hne]
        rw [step, List.map_cons, ih, ← hc, strOf_cps]
        have : (match ch :: n with
          | 'A' :: n => [l, String.ofList ('C' :: n)]
          | _ => [l]) = [l] := by
          split
          · rename_i n' heq
            exact absurd (List.cons.inj heq).1 hA
          · rfl
        rw [this]; rfl

end Pcfg.Trainer
