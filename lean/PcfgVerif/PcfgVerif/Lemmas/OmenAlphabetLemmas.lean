import PcfgVerif.Model.OmenCount
import PcfgVerif.Model.OmenText
import PcfgVerif.Lemmas.OmenFilesB
import PcfgVerif.Lemmas.LoaderLemmas
/-!
# The OMEN alphabet: what `AlphabetGenerator` returns, and `Omen/alphabet.txt`
-/
namespace Omen
open Pcfg

section Assoc
variable {κ β : Type} [BEq κ] [LawfulBEq κ]

theorem assocUpd_keys_nodup (al : List (κ × β)) (k : κ) (f : Option β → β) (h : (al.map (·.1)).Nodup) :
    ((assocUpd al k f).map (·.1)).Nodup := by
  unfold assocUpd
  by_cases hany : al.any (·.1 == k) = true
  · rw [if_pos hany]
    have : (al.map fun p => if p.1 == k then (p.1, f (some p.2)) else p).map (·.1) = al.map (·.1) := by
      rw [List.map_map]
      apply List.map_congr_left
      intro p _
      by_cases hp : p.1 == k <;> simp [Function.comp, hp]
    rw [this]
    exact h
  · rw [if_neg hany, List.map_append]
    refine List.nodup_append.mpr ⟨h, by simp, ?_⟩
    intro x hx y hy
    simp only [List.map_cons, List.map_nil, List.mem_singleton] at hy
    subst hy
    intro hxy
    subst hxy
    apply hany
    obtain ⟨p, hp, hpx⟩ := List.mem_map.mp hx
    exact List.any_eq_true.mpr ⟨p, hp, by simp [hpx]⟩

end Assoc

theorem alphabetCounts_nodup (ngram : Nat) (pws : List Str) : ((alphabetCounts ngram pws).map (·.1)).Nodup := by
  unfold alphabetCounts
  have inner : ∀ (cs : List Char) (d : List (Char × Nat)), (d.map (·.1)).Nodup →
      ((cs.foldl (fun d c => if c == '\t' then d else bumpChar d c) d).map (·.1)).Nodup := by
    intro cs
    induction cs with
    | nil => intro d hd; exact hd
    | cons c r ih =>
      intro d hd
      simp only [List.foldl_cons]
      apply ih
      by_cases ht : c == '\t'
      · simp only [ht, if_true]; exact hd
      · simp only [ht, Bool.false_eq_true, if_false]
        exact assocUpd_keys_nodup d c _ hd
  have outer : ∀ (ps : List Str) (d : List (Char × Nat)), (d.map (·.1)).Nodup →
      ((ps.foldl (fun d pw => if pw.length < ngram then d else
        pw.foldl (fun d c => if c == '\t' then d else bumpChar d c) d) d).map (·.1)).Nodup := by
    intro ps
    induction ps with
    | nil => intro d hd; exact hd
    | cons p r ih =>
      intro d hd
      simp only [List.foldl_cons]
      apply ih
      by_cases hl : p.length < ngram
      · simp only [hl, if_true]; exact hd
      · simp only [hl, if_false]; exact inner p d hd
  exact outer pws [] (by simp)

/-- **the learned alphabet**: at most `size` letters, no letter twice, each one a counted letter, and in the order of the
stable sort by decreasing count (the letters kept are the most frequent ones, ties in first-seen order) -/
theorem alphabetOf_spec (size ngram : Nat) (pws : List Str) :
    (alphabetOf size ngram pws).length ≤ size ∧ (alphabetOf size ngram pws).Nodup ∧
    (∀ c ∈ alphabetOf size ngram pws, c ∈ (alphabetCounts ngram pws).map (·.1)) ∧
    alphabetOf size ngram pws =
      (((alphabetCounts ngram pws).mergeSort fun a b => decide (a.2 ≥ b.2)).take size).map (·.1) := by
  have hperm := List.mergeSort_perm (alphabetCounts ngram pws) (fun a b => decide (a.2 ≥ b.2))
  have hnd : ((((alphabetCounts ngram pws).mergeSort fun a b => decide (a.2 ≥ b.2))).map (·.1)).Nodup :=
    (hperm.map (·.1)).nodup_iff.mpr (alphabetCounts_nodup ngram pws)
  refine ⟨?_, ?_, ?_, rfl⟩
  · unfold alphabetOf
    rw [List.length_map, List.length_take]
    omega
  · unfold alphabetOf
    exact hnd.sublist ((List.take_sublist _ _).map _)
  · intro c hc
    unfold alphabetOf at hc
    obtain ⟨p, hp, rfl⟩ := List.mem_map.mp hc
    exact List.mem_map.mpr ⟨p, hperm.mem_iff.mp (List.mem_of_mem_take hp), rfl⟩

/-! ## `Omen/alphabet.txt` -/

theorem codecLines_alphabetText (letters : CPs) (h : ∀ c ∈ letters, isLineSep c = false) :
    codecLines (alphabetText letters) = letters.map fun c => [c, 10] := by
  unfold codecLines alphabetText
  induction letters with
  | nil => simp [splitLinesKeep]
  | cons c r ih =>
    simp only [List.flatMap_cons, List.map_cons]
    have hc : isLineSep c = false := h c (by simp)
    have := splitLinesKeep_body [c] (r.flatMap fun c => [c, 10]) [] (by intro x hx; simp only [List.mem_singleton] at hx; subst hx; exact hc)
    simp only [List.singleton_append] at this
    rw [show [c, 10] ++ (r.flatMap fun c => [c, 10]) = c :: 10 :: (r.flatMap fun c => [c, 10]) from rfl, this]
    rw [ih (fun x hx => h x (by simp [hx]))]
    simp

/-- **`alphabet.txt` reads back as the alphabet written**, letter by letter - blanks, U+00A0, U+3000 included (only CR / LF are
stripped, and no accepted password contains those) -/
theorem loadAlphabet_alphabetText (letters : CPs) (h : ∀ c ∈ letters, isLineSep c = false) :
    loadAlphabet (alphabetText letters) = letters.map fun c => [c] := by
  unfold loadAlphabet
  rw [codecLines_alphabetText letters h, List.map_map]
  apply List.map_congr_left
  intro c hc
  have hne : c ≠ 10 ∧ c ≠ 13 := by
    have := h c hc
    constructor
    · intro e; subst e; simp [isLineSep_10] at this
    · intro e; subst e; simp [isLineSep_13] at this
  simp only [Function.comp, rstripChars, List.reverse_cons, List.reverse_nil, List.nil_append, List.singleton_append]
  have h10 : ([10, 13] : List Nat).contains 10 = true := by decide
  have hc' : ([10, 13] : List Nat).contains c = false := by
    cases hh : ([10, 13] : List Nat).contains c with
    | false => rfl
    | true =>
      have : c = 10 ∨ c = 13 := by simpa using hh
      omega
  rw [List.dropWhile_cons_of_pos h10, List.dropWhile_cons_of_neg (by rw [hc']; exact Bool.false_ne_true)]
  rfl

end Omen
