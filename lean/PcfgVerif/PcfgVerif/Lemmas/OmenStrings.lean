import PcfgVerif.Model.OmenSpec
/-! OMEN: the strings spelled by `allTrees len ip target` are exactly the bodies of length `len` with `transCost ip body = some target`, each once. -/
namespace Omen

theorem lvlChars_cons (p : Nat × List Char) (e : List (Nat × List Char)) (l : Nat) :
    lvlChars (p :: e) l = if p.1 = l then some p.2 else lvlChars e l := by
  unfold lvlChars
  by_cases h : p.1 = l <;> simp [h]

/-- A -/
theorem lvlChars_eq_some_iff (e : List (Nat × List Char)) (hl : (e.map (·.1)).Nodup) (l : Nat)
    (cs : List Char) : lvlChars e l = some cs ↔ (l, cs) ∈ e := by
  induction e with
  | nil => simp [lvlChars]
  | cons p e ih =>
    rw [lvlChars_cons]
    simp only [List.map_cons, List.nodup_cons] at hl
    obtain ⟨hp, hl⟩ := hl
    specialize ih hl
    by_cases h : p.1 = l
    · simp only [h, if_true, List.mem_cons]
      constructor
      · intro h1; left; cases h1; rw [← h]
      · rintro (h1 | h1)
        · rw [← h1]
        · exfalso; apply hp; rw [h]; exact List.mem_map.2 ⟨_, h1, rfl⟩
    · simp only [h, if_false, ih, List.mem_cons]
      constructor
      · exact Or.inr
      · rintro (h1 | h1)
        · exfalso; apply h; rw [← h1]
        · exact h1

theorem find_contains_iff (e : List (Nat × List Char)) (hc : (e.flatMap (·.2)).Nodup) (l : Nat)
    (c : Char) : (e.find? fun p => p.2.contains c).map (·.1) = some l ↔
      ∃ cs, (l, cs) ∈ e ∧ c ∈ cs := by
  induction e with
  | nil => simp
  | cons p e ih =>
    simp only [List.flatMap_cons, List.nodup_append] at hc
    obtain ⟨_, hc, hd⟩ := hc
    specialize ih hc
    by_cases h : c ∈ p.2
    · have hb : (fun q : Nat × List Char => q.2.contains c) p = true := by simpa using h
      rw [List.find?_cons_of_pos (p := fun q : Nat × List Char => q.2.contains c) (a := p) (l := e) hb]
      simp only [Option.map_some, Option.some.injEq, List.mem_cons]
      constructor
      · intro h1; exact ⟨p.2, Or.inl (by rw [← h1]), h⟩
      · rintro ⟨cs, h1 | h1, h2⟩
        · rw [← h1]
        · exfalso; exact hd c h c (List.mem_flatMap.2 ⟨_, h1, h2⟩) rfl
    · have hb : ¬ (fun q : Nat × List Char => q.2.contains c) p = true := by simpa using h
      rw [List.find?_cons_of_neg (p := fun q : Nat × List Char => q.2.contains c) (a := p) (l := e) hb, ih]
      simp only [List.mem_cons]
      constructor
      · rintro ⟨cs, h1, h2⟩; exact ⟨cs, Or.inr h1, h2⟩
      · rintro ⟨cs, h1 | h1, h2⟩
        · exfalso; apply h; rw [← h1]; exact h2
        · exact ⟨cs, h1, h2⟩

/-- what `Tables.WF` gives for one `cp` entry -/
structure EntryWF (M : Nat) (e : List (Nat × List Char)) : Prop where
  levels : (e.map (·.1)).Nodup
  bound : ∀ p ∈ e, p.1 ≤ M ∧ p.2 ≠ []
  chars : (e.flatMap (·.2)).Nodup

def Model.EntriesWF (m : Model) : Prop :=
  ∀ ip e, m.cpOf ip = some e → EntryWF m.maxLevel e

theorem cpOf_mem_key {m : Model} {ip : Str} {e : List (Nat × List Char)} (h : m.cpOf ip = some e) :
    ∃ k, (k, e) ∈ m.cp := by
  unfold Model.cpOf at h
  rw [Option.map_eq_some_iff] at h
  obtain ⟨a, ha, rfl⟩ := h
  exact ⟨a.1, List.mem_of_find?_eq_some ha⟩

theorem Tables.WF.entriesWF {t : Tables} {ipLen : Nat} (hwf : t.WF ipLen) : t.m.EntriesWF := by
  intro ip e h
  obtain ⟨k, hk⟩ := cpOf_mem_key h
  exact ⟨(hwf.cp_levels _ hk).1, (hwf.cp_levels _ hk).2, hwf.cp_chars _ hk⟩

/-- K1 -/
theorem lvlChars_mem_iff {M : Nat} {e : List (Nat × List Char)} (he : EntryWF M e) (l : Nat) (c : Char) :
    (∃ cs, lvlChars e l = some cs ∧ c ∈ cs) ↔
      (e.find? fun p => p.2.contains c).map (·.1) = some l := by
  rw [find_contains_iff e he.chars]
  simp only [lvlChars_eq_some_iff e he.levels]

/-- K2 -/
theorem lvlChars_nodup {M : Nat} {e : List (Nat × List Char)} (he : EntryWF M e) {l : Nat}
    {cs : List Char} (h : lvlChars e l = some cs) : cs.Nodup ∧ l ≤ M := by
  rw [lvlChars_eq_some_iff e he.levels] at h
  exact ⟨(List.pairwise_flatMap.1 he.chars).1 _ h, (he.bound _ h).1⟩

theorem cpLevel_iff {m : Model} (H : m.EntriesWF) (ip : Str) (c : Char) (l : Nat) :
    m.cpLevel ip c = some l ↔
      ∃ e cs, m.cpOf ip = some e ∧ lvlChars e l = some cs ∧ c ∈ cs := by
  unfold Model.cpLevel
  cases h : m.cpOf ip with
  | none => simp
  | some e =>
    simp only [← lvlChars_mem_iff (H ip e h), Option.some.injEq]
    constructor
    · rintro ⟨cs, h1, h2⟩; exact ⟨e, cs, rfl, h1, h2⟩
    · rintro ⟨_, cs, rfl, h1, h2⟩; exact ⟨cs, h1, h2⟩

theorem transCost_cons_iff (m : Model) (ip : Str) (c : Char) (b : List Char) (target : Nat) :
    m.transCost ip (c :: b) = some target ↔
      ∃ l, m.cpLevel ip c = some l ∧ l ≤ target ∧ m.transCost (nextIp ip c) b = some (target - l) := by
  rw [Model.transCost]
  cases h1 : m.cpLevel ip c with
  | none => simp
  | some l =>
    cases h2 : m.transCost (nextIp ip c) b with
    | none => simp
    | some r =>
      simp only [Option.some.injEq, exists_eq_left']
      omega

theorem transCost_singleton_iff (m : Model) (ip : Str) (c : Char) (target : Nat) :
    m.transCost ip [c] = some target ↔ m.cpLevel ip c = some target := by
  rw [transCost_cons_iff]
  simp only [Model.transCost, Option.some.injEq]
  constructor
  · rintro ⟨l, h1, h2, h3⟩
    rw [h1]; congr 1; omega
  · intro h; exact ⟨target, h, Nat.le_refl _, by omega⟩

/-- the strings spelled by `allTrees` -/
def Model.strs (m : Model) (len : Nat) (ip : Str) (target : Nat) : List (List Char) :=
  (m.allTrees len ip target).map fun tr => tr.filterMap m.charAt

theorem charAt_eq {m : Model} {ip : Str} {e : List (Nat × List Char)} {l i : Nat} {cs : List Char}
    (h1 : m.cpOf ip = some e) (h2 : lvlChars e l = some cs) :
    m.charAt ⟨ip, l, i⟩ = cs[i]? := by
  simp [Model.charAt, h1, h2]

theorem flatMap_congr' {α β : Type} {l : List α} {f g : α → List β} (h : ∀ a ∈ l, f a = g a) :
    l.flatMap f = l.flatMap g := by
  induction l with
  | nil => rfl
  | cons a l ih =>
    rw [List.flatMap_cons, List.flatMap_cons, h a (List.mem_cons_self ..),
      ih fun b hb => h b (List.mem_cons_of_mem _ hb)]

theorem flatMap_zipIdx {α β : Type} (cs : List α) (F : α × Nat → List β) (G : α → List β)
    (h : ∀ c i, cs[i]? = some c → F (c, i) = G c) : cs.zipIdx.flatMap F = cs.flatMap G := by
  have : cs.flatMap G = (cs.zipIdx.map (·.1)).flatMap G := by rw [List.zipIdx_map_fst]
  rw [this, List.flatMap_map]
  apply flatMap_congr'
  rintro ⟨c, i⟩ hm
  exact h c i (List.mem_zipIdx_iff_getElem?.1 hm)

theorem strs_zero (m : Model) (ip : Str) (target : Nat) : m.strs 0 ip target = [] := by
  simp [Model.strs, Model.allTrees]

theorem strs_one (m : Model) (ip : Str) (target : Nat) :
    m.strs 1 ip target =
      if target ≤ m.maxLevel then
        match (m.cpOf ip).bind (lvlChars · target) with
        | some cs => cs.map fun c => [c]
        | none => []
      else [] := by
  unfold Model.strs
  rw [Model.allTrees]
  split
  · cases h1 : m.cpOf ip with
    | none => simp
    | some e =>
      cases h2 : lvlChars e target with
      | none => simp [h2]
      | some cs =>
        simp only [Option.bind_some, h2, List.map_map]
        apply List.ext_getElem
        · simp
        · intro i hi hi'
          simp only [List.length_map, List.length_range] at hi
          simp [charAt_eq h1 h2, hi]
  · rfl

theorem strs_succ_succ (m : Model) (len : Nat) (ip : Str) (target : Nat) :
    m.strs (len + 2) ip target =
      match m.cpOf ip with
      | none => []
      | some e =>
        (List.range (min target m.maxLevel + 1)).reverse.flatMap fun l =>
          match lvlChars e l with
          | none => []
          | some cs => cs.flatMap fun c =>
              (m.strs (len + 1) (nextIp ip c) (target - l)).map (c :: ·) := by
  unfold Model.strs
  rw [Model.allTrees]
  cases h1 : m.cpOf ip with
  | none => rfl
  | some e =>
    simp only [List.map_flatMap]
    apply flatMap_congr'
    intro l _
    cases h2 : lvlChars e l with
    | none => rfl
    | some cs =>
      simp only [List.map_flatMap]
      apply flatMap_zipIdx
      intro c i hci
      simp [List.map_map, Function.comp_def, charAt_eq h1 h2, hci]

theorem nodup_flatMap {α β : Type} {l : List α} {f : α → List β} (hl : l.Nodup)
    (h1 : ∀ x ∈ l, (f x).Nodup)
    (h2 : ∀ a ∈ l, ∀ b ∈ l, a ≠ b → ∀ y ∈ f a, y ∉ f b) : (l.flatMap f).Nodup := by
  unfold List.Nodup
  rw [List.pairwise_flatMap]
  refine ⟨h1, ?_⟩
  refine List.Pairwise.imp_of_mem ?_ hl
  intro a b ha hb hab x hx y hy hxy
  subst hxy
  exact h2 a ha b hb hab x hx hy

theorem nodup_map_of_injective {α β : Type} {l : List α} {f : α → β}
    (hf : ∀ a b, f a = f b → a = b) (hl : l.Nodup) : (l.map f).Nodup := by
  unfold List.Nodup
  rw [List.pairwise_map]
  exact List.Pairwise.imp (fun hab h => hab (hf _ _ h)) hl

theorem nodup_reverse_range (n : Nat) : (List.range n).reverse.Nodup := by
  unfold List.Nodup
  rw [List.pairwise_reverse]
  exact List.Pairwise.imp (fun hab h => hab h.symm) List.nodup_range

/-- membership in one level block of `strs_succ_succ` -/
theorem mem_block (e : List (Nat × List Char)) (l : Nat) (X : Char → List (List Char))
    (body : List Char) :
    body ∈ (match lvlChars e l with
      | none => []
      | some cs => cs.flatMap fun c => (X c).map (c :: ·)) ↔
    ∃ cs c b, lvlChars e l = some cs ∧ c ∈ cs ∧ b ∈ X c ∧ body = c :: b := by
  cases h : lvlChars e l with
  | none => simp
  | some cs =>
    simp only [List.mem_flatMap, List.mem_map, Option.some.injEq]
    constructor
    · rintro ⟨c, hc, b, hb, rfl⟩; exact ⟨cs, c, b, rfl, hc, hb, rfl⟩
    · rintro ⟨_, c, b, rfl, hc, hb, rfl⟩; exact ⟨c, hc, b, hb, rfl⟩

theorem strs_core (m : Model) (H : m.EntriesWF) (len : Nat) :
    ∀ (ip : Str) (target : Nat),
      (m.strs (len + 1) ip target).Nodup ∧
      ∀ body : List Char, body ∈ m.strs (len + 1) ip target ↔
        (body.length = len + 1 ∧ m.transCost ip body = some target) := by
  induction len with
  | zero =>
    intro ip target
    rw [strs_one]
    cases h1 : m.cpOf ip with
    | none =>
      have hnone : ∀ c l, m.cpLevel ip c ≠ some l := by
        intro c l hc
        obtain ⟨e, cs, he, _⟩ := (cpLevel_iff H ip c l).1 hc
        rw [h1] at he; cases he
      refine ⟨by split <;> simp, ?_⟩
      intro body
      constructor
      · intro hb; split at hb <;> simp at hb
      · rintro ⟨hlen, hcost⟩
        match body, hlen with
        | [c], _ =>
          rw [transCost_singleton_iff] at hcost
          exact absurd hcost (hnone c target)
    | some e =>
      have he := H ip e h1
      cases h2 : lvlChars e target with
      | none =>
        refine ⟨by split <;> simp [h2], ?_⟩
        intro body
        constructor
        · intro hb; split at hb <;> simp [h2] at hb
        · rintro ⟨hlen, hcost⟩
          match body, hlen with
          | [c], _ =>
            rw [transCost_singleton_iff] at hcost
            obtain ⟨e', cs, he', hl, _⟩ := (cpLevel_iff H ip c target).1 hcost
            rw [h1] at he'; cases he'
            rw [h2] at hl; cases hl
      | some cs =>
        obtain ⟨hnd, hle⟩ := lvlChars_nodup he h2
        simp only [hle, if_true, Option.bind_some, h2]
        refine ⟨nodup_map_of_injective (by intro a b h; cases h; rfl) hnd, ?_⟩
        intro body
        simp only [List.mem_map]
        constructor
        · rintro ⟨c, hc, rfl⟩
          refine ⟨rfl, ?_⟩
          rw [transCost_singleton_iff]
          exact (cpLevel_iff H ip c target).2 ⟨e, cs, h1, h2, hc⟩
        · rintro ⟨hlen, hcost⟩
          match body, hlen with
          | [c], _ =>
            rw [transCost_singleton_iff] at hcost
            obtain ⟨e', cs', he', hl, hc⟩ := (cpLevel_iff H ip c target).1 hcost
            rw [h1] at he'; cases he'
            rw [h2] at hl; cases hl
            exact ⟨c, hc, rfl⟩
  | succ len ih =>
    intro ip target
    rw [strs_succ_succ]
    cases h1 : m.cpOf ip with
    | none =>
      refine ⟨List.nodup_nil, ?_⟩
      intro body
      constructor
      · intro hb; cases hb
      · rintro ⟨hlen, hcost⟩
        match body, hlen with
        | c :: b, _ =>
          obtain ⟨l, hl, _⟩ := (transCost_cons_iff m ip c b target).1 hcost
          obtain ⟨e, cs, he, _⟩ := (cpLevel_iff H ip c l).1 hl
          rw [h1] at he; cases he
    | some e =>
      have he := H ip e h1
      constructor
      · -- Nodup
        apply nodup_flatMap (nodup_reverse_range _)
        · intro l _
          cases h2 : lvlChars e l with
          | none => exact List.nodup_nil
          | some cs =>
            apply nodup_flatMap (lvlChars_nodup he h2).1
            · intro c _
              exact nodup_map_of_injective (by intro a b h; cases h; rfl) (ih _ _).1
            · intro c _ c' _ hcc y hy hy'
              simp only [List.mem_map] at hy hy'
              obtain ⟨b, _, rfl⟩ := hy
              obtain ⟨b', _, hb'⟩ := hy'
              cases hb'
              exact hcc rfl
        · intro l _ l' _ hll y hy hy'
          rw [mem_block] at hy hy'
          obtain ⟨cs, c, b, hl, hc, _, rfl⟩ := hy
          obtain ⟨cs', c', b', hl', hc', _, hb'⟩ := hy'
          cases hb'
          have e1 := (lvlChars_mem_iff he l c).1 ⟨cs, hl, hc⟩
          have e2 := (lvlChars_mem_iff he l' c).1 ⟨cs', hl', hc'⟩
          rw [e1] at e2
          cases e2
          exact hll rfl
      · intro body
        simp only [List.mem_flatMap, mem_block, List.mem_reverse, List.mem_range]
        constructor
        · rintro ⟨l, hlt, cs, c, b, hl, hc, hb, rfl⟩
          obtain ⟨hlen, hcost⟩ := ((ih _ _).2 b).1 hb
          refine ⟨by simp [hlen], ?_⟩
          rw [transCost_cons_iff]
          exact ⟨l, (cpLevel_iff H ip c l).2 ⟨e, cs, h1, hl, hc⟩, by omega, hcost⟩
        · rintro ⟨hlen, hcost⟩
          match body, hlen with
          | c :: b, hlen =>
            obtain ⟨l, hl, hlt, hcost'⟩ := (transCost_cons_iff m ip c b target).1 hcost
            obtain ⟨e', cs, he', hl', hc⟩ := (cpLevel_iff H ip c l).1 hl
            rw [h1] at he'; cases he'
            have hM := (lvlChars_nodup he hl').2
            refine ⟨l, by omega, cs, c, b, hl', hc, ?_, rfl⟩
            exact ((ih _ _).2 b).2 ⟨by simpa using hlen, hcost'⟩

theorem allTrees_strings_core (t : Tables) (ipLen : Nat) (hwf : t.WF ipLen) (len : Nat) (ip : Str)
    (target : Nat) :
    ((t.m.allTrees len ip target).map fun tr => tr.filterMap t.m.charAt).Nodup ∧
    ∀ body : List Char, body ∈ ((t.m.allTrees len ip target).map fun tr => tr.filterMap t.m.charAt) ↔
      (body.length = len ∧ 0 < len ∧ t.m.transCost ip body = some target) := by
  cases len with
  | zero =>
    have : t.m.allTrees 0 ip target = [] := by rw [Model.allTrees]
    rw [this]
    exact ⟨List.nodup_nil, fun body => by simp⟩
  | succ len =>
    obtain ⟨h1, h2⟩ := strs_core t.m hwf.entriesWF len ip target
    refine ⟨h1, fun body => ?_⟩
    rw [show (0 < len + 1) = True from eq_true (Nat.succ_pos _), true_and]
    exact h2 body

end Omen

