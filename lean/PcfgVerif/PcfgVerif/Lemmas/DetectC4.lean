import PcfgVerif.Lemmas.DetectC2
/-! Lemmas for DetectStatementsC, part 4: `detectAlpha`. -/
namespace Pcfg.Detect

theorem build_nil (U : UEnv) (text : CPs) (cur : Nat) : detectAlpha.build U text [] cur = ([], []) := rfl

theorem build_cons (U : UEnv) (text : CPs) (w : CPs) (ws : List CPs) (cur : Nat) :
    detectAlpha.build U text (w :: ws) cur =
      ((slice text cur (cur + w.length), some (lbl 'A' w.length)) ::
          (detectAlpha.build U text ws (cur + w.length)).1,
       (slice text cur (cur + w.length)).map (fun c => if U.isUpper c then cpOf 'U' else cpOf 'L') ::
          (detectAlpha.build U text ws (cur + w.length)).2) := rfl

theorem detectAlpha_inv (U : UEnv) (cfg : MWCfg) (t : MWTable) (text : CPs)
    (pieces : List Sec) (words masks : List CPs)
    (h : detectAlpha U cfg t text = some (pieces, (words, masks))) :
    ∃ s e, firstRun U.isAlpha (U.lowerS text) = some (s, e) ∧
      words = (mwParse cfg t (slice (U.lowerS text) s (e + 1))).2 ∧
      masks = (detectAlpha.build U text words s).2 ∧
      pieces = (if s != 0 then [(text.take s, none)] else []) ++
        ((detectAlpha.build U text words s).1 ++
        (if e != text.length - 1 then [(text.drop (e + 1), none)] else [])) := by
  unfold detectAlpha at h
  simp only at h
  split at h
  · cases h
  · rename_i s e hfr
    simp only [Option.some.injEq, Prod.mk.injEq] at h
    obtain ⟨h1, h2, h3⟩ := h
    refine ⟨s, e, hfr, h2.symm, ?_, ?_⟩
    · rw [← h3, ← h2]
    · rw [← h1, ← h2, List.append_assoc]

theorem build_length (U : UEnv) (text : CPs) (words : List CPs) (cur : Nat) :
    (detectAlpha.build U text words cur).1.length = words.length ∧
    (detectAlpha.build U text words cur).2.length = words.length := by
  induction words generalizing cur with
  | nil => simp [build_nil]
  | cons w ws ih => simp [build_cons, ih]

theorem build_labels (U : UEnv) (text : CPs) (words : List CPs) (cur : Nat) :
    (detectAlpha.build U text words cur).1.map (·.2) = words.map (fun w => some (lbl 'A' w.length)) := by
  induction words generalizing cur with
  | nil => simp [build_nil]
  | cons w ws ih => simp [build_cons, ih]

theorem build_masks (U : UEnv) (text : CPs) (words : List CPs) (cur : Nat)
    (hle : cur + words.flatten.length ≤ text.length) :
    ∀ (i : Nat) w m, words[i]? = some w → (detectAlpha.build U text words cur).2[i]? = some m →
      m.length = w.length := by
  induction words generalizing cur with
  | nil => intro i w m h; simp at h
  | cons a ws ih =>
    simp only [List.flatten_cons, List.length_append] at hle
    intro i w m hw hm
    rw [build_cons] at hm
    cases i with
    | zero =>
      simp only [List.getElem?_cons_zero, Option.some.injEq] at hw hm
      subst hw hm
      rw [List.length_map, slice_length_of_le _ _ _ (by omega) (by omega)]
      omega
    | succ j =>
      simp only [List.getElem?_cons_succ] at hw hm
      exact ih (cur + a.length) (by omega) j w m hw hm

theorem build_tiles (U : UEnv) (text : CPs) (words : List CPs) (cur : Nat) (rest : List Sec)
    (hne : ∀ w ∈ words, w ≠ [])
    (hle : cur + words.flatten.length ≤ text.length)
    (hrest : TilesFrom U text (cur + words.flatten.length) rest) :
    TilesFrom U text cur ((detectAlpha.build U text words cur).1 ++ rest) := by
  induction words generalizing cur with
  | nil => simpa [build_nil] using hrest
  | cons a ws ih =>
    simp only [List.flatten_cons, List.length_append] at hle hrest
    rw [build_cons]
    have ha : a ≠ [] := hne a (by simp)
    have hal : 0 < a.length := List.length_pos_iff.mpr ha
    have hsl : (slice text cur (cur + a.length)).length = a.length := by
      rw [slice_length_of_le _ _ _ (by omega) (by omega)]; omega
    refine ⟨pieceOK_plain U text _ _ _ (by simpa using lbl_ne_W _ _) ?_ ?_ ?_, ?_⟩
    · intro h0; rw [h0] at hsl; simp at hsl; omega
    · show cur + (slice text cur (cur + a.length)).length ≤ text.length
      omega
    · show slice text cur (cur + a.length) = slice text cur (cur + (slice text cur (cur + a.length)).length)
      rw [hsl]
    · simp only [hsl]
      apply ih
      · intro w hw; exact hne w (by simp [hw])
      · omega
      · rw [Nat.add_assoc]; exact hrest



theorem lenPres_lower (U : UEnv) (text : CPs) (hl : LenPres U text) :
    (U.lowerS text).length = text.length := by
  have := hl 0 text.length
  simpa [slice] using this

/-- the geometric facts shared by `detectAlpha_ok` and `detectAlpha_sound` -/
theorem detectAlpha_geom (U : UEnv) (cfg : MWCfg) (t : MWTable) (text : CPs) (hl : LenPres U text)
    (pieces : List Sec) (words masks : List CPs)
    (h : detectAlpha U cfg t text = some (pieces, (words, masks))) :
    ∃ s e, e < text.length ∧ s + words.flatten.length = e + 1 ∧ words ≠ [] ∧
      (∀ w ∈ words, w ≠ [] ∧ ∀ c ∈ w, U.isAlpha c = true) ∧
      masks = (detectAlpha.build U text words s).2 ∧
      pieces = (if s != 0 then [(text.take s, none)] else []) ++
        ((detectAlpha.build U text words s).1 ++
        (if e != text.length - 1 then [(text.drop (e + 1), none)] else [])) := by
  obtain ⟨s, e, hfr, hw, hm, hp⟩ := detectAlpha_inv U cfg t text pieces words masks h
  obtain ⟨run, hne, hlen, he, hsl, _, _, _, hrun, _⟩ := firstRun_spec _ _ _ _ hfr
  rw [hsl] at hw
  have hflat : words.flatten = run := by rw [hw]; exact mwParse_flatten cfg t run
  refine ⟨s, e, by rw [← lenPres_lower U text hl]; exact he, by rw [hflat]; exact hlen, ?_, ?_, hm, hp⟩
  · rw [hw]; exact mwParse_ne_nil cfg t run
  · intro w hw'
    refine ⟨?_, ?_⟩
    · rw [hw] at hw'; exact mwParse_nonempty cfg t run hne w hw'
    · intro c hc
      apply hrun
      rw [← hflat]
      exact List.mem_flatten.mpr ⟨w, hw', hc⟩

theorem detectAlpha_ok' (U : UEnv) (cfg : MWCfg) (t : MWTable) (_hmin : 0 < cfg.minLen) :
    DetectorOK U (detectAlpha U cfg t) := by
  intro text pieces f _ hl h
  obtain ⟨words, masks⟩ := f
  obtain ⟨s, e, he, hlen, hwne, hw, _, hp⟩ := detectAlpha_geom U cfg t text hl pieces words masks h
  subst hp
  refine ⟨?_, ?_⟩
  · intro h0
    have h1 := congrArg List.length h0
    simp only [List.length_append, (build_length U text words s).1, List.length_nil] at h1
    have := List.length_pos_iff.mpr hwne
    omega
  · apply tiles_prefix U text s (by omega)
    apply build_tiles U text words s _ (fun w hw' => (hw w hw').1) (by omega)
    rw [hlen]
    exact tiles_suffix U text e he

theorem detectAlpha_sound' (U : UEnv) (cfg : MWCfg) (t : MWTable) (text : CPs) (hl : LenPres U text)
    (pieces : List Sec) (words masks : List CPs)
    (h : detectAlpha U cfg t text = some (pieces, (words, masks))) :
    words.length = masks.length ∧
    (∀ w ∈ words, w ≠ [] ∧ ∀ c ∈ w, U.isAlpha c = true) ∧
    (∀ (i : Nat) w m, words[i]? = some w → masks[i]? = some m → m.length = w.length) ∧
    (pieces.filter (fun s => s.2.isSome)).map (fun s => s.2) = words.map (fun w => some (lbl 'A' w.length)) := by
  obtain ⟨s, e, he, hlen, hwne, hw, hm, hp⟩ := detectAlpha_geom U cfg t text hl pieces words masks h
  subst hm hp
  refine ⟨(build_length U text words s).2.symm, hw, build_masks U text words s (by omega), ?_⟩
  have hall : ∀ x ∈ (detectAlpha.build U text words s).1, x.2.isSome = true := by
    intro x hx
    have : x.2 ∈ (detectAlpha.build U text words s).1.map (·.2) := List.mem_map.mpr ⟨x, hx, rfl⟩
    rw [build_labels] at this
    obtain ⟨w, _, hw⟩ := List.mem_map.mp this
    rw [← hw]; rfl
  have hpre : (if s != 0 then [(text.take s, (none : Option String))] else []).filter (fun s => s.2.isSome) = [] := by
    split <;> simp
  have hsuf : (if e != text.length - 1 then [(text.drop (e + 1), (none : Option String))] else []).filter
      (fun s => s.2.isSome) = [] := by
    split <;> simp
  rw [List.filter_append, List.filter_append, hpre, hsuf, List.nil_append, List.append_nil,
    List.filter_eq_self.mpr hall]
  exact build_labels U text words s


end Pcfg.Detect
