import PcfgVerif.Lemmas.TrainedListedE
/-! Groups of a written list as the guesser's loader forms them (maximal runs of equal probability), and look-ups in tables
indexed by `label ++ length`. -/
namespace Pcfg.Trainer
open Pcfg Pcfg.Detect

/-- maximal runs of equal probability, in list order: the groups `_load_from_file` builds (`C07_guesser_roundtrip`) -/
def runs {α : Type} : List (α × Rat) → List (List α × Rat)
  | [] => []
  | (v, p) :: rest =>
    match runs rest with
    | (vs, q) :: gs => if p = q then (v :: vs, q) :: gs else ([v], p) :: (vs, q) :: gs
    | [] => [([v], p)]

theorem runs_mem {α : Type} (l : List (α × Rat)) (v : α) (p : Rat) (h : (v, p) ∈ l) :
    ∃ (j : Nat) (vs : List α), (runs l)[j]? = some (vs, p) ∧ v ∈ vs := by
  induction l with
  | nil => simp at h
  | cons a rest ih =>
    obtain ⟨w, q⟩ := a
    rcases List.mem_cons.mp h with h | h
    · cases h
      unfold runs
      cases hr : runs rest with
      | nil => exact ⟨0, [v], by simp, by simp⟩
      | cons g gs =>
        obtain ⟨vs, q'⟩ := g
        simp only
        by_cases hq : p = q'
        · subst hq; simp only [if_true]
          exact ⟨0, v :: vs, by simp, by simp⟩
        · simp only [hq, if_false]
          exact ⟨0, [v], by simp, by simp⟩
    · obtain ⟨j, vs, hj, hv⟩ := ih h
      unfold runs
      cases hr : runs rest with
      | nil => rw [hr] at hj; simp at hj
      | cons g gs =>
        obtain ⟨ws, q'⟩ := g
        rw [hr] at hj
        simp only
        by_cases hq : q = q'
        · subst hq; simp only [if_true]
          cases j with
          | zero =>
            simp only [List.getElem?_cons_zero, Option.some.injEq, Prod.mk.injEq] at hj
            obtain ⟨h1, h2⟩ := hj
            subst h1; subst h2
            exact ⟨0, w :: ws, by simp, List.mem_cons_of_mem _ hv⟩
          | succ j' =>
            exact ⟨j' + 1, vs, by simpa using hj, hv⟩
        · simp only [hq, if_false]
          exact ⟨j + 1, vs, by simpa using hj, hv⟩

/-- every member of a group is a key of the list -/
theorem runs_sub {α : Type} (l : List (α × Rat)) (g : List α × Rat) (hg : g ∈ runs l) (v : α) (hv : v ∈ g.1) :
    ∃ p, (v, p) ∈ l := by
  induction l generalizing g with
  | nil => simp [runs] at hg
  | cons a rest ih =>
    obtain ⟨w, q⟩ := a
    unfold runs at hg
    cases hr : runs rest with
    | nil =>
      rw [hr] at hg
      simp only [List.mem_singleton] at hg
      subst hg
      simp only [List.mem_singleton] at hv
      subst hv
      exact ⟨q, by simp⟩
    | cons g0 gs =>
      obtain ⟨ws, q'⟩ := g0
      rw [hr] at hg
      simp only at hg
      by_cases hq : q = q'
      · simp only [hq, if_true] at hg
        rcases List.mem_cons.mp hg with hg | hg
        · subst hg
          rcases List.mem_cons.mp hv with hv | hv
          · subst hv; exact ⟨q, by simp⟩
          · obtain ⟨p, hp⟩ := ih (ws, q') (by rw [hr]; simp) hv
            exact ⟨p, List.mem_cons_of_mem _ hp⟩
        · obtain ⟨p, hp⟩ := ih g (by rw [hr]; exact List.mem_cons_of_mem _ hg) hv
          exact ⟨p, List.mem_cons_of_mem _ hp⟩
      · simp only [hq, if_false] at hg
        rcases List.mem_cons.mp hg with hg | hg
        · subst hg
          simp only [List.mem_singleton] at hv
          subst hv; exact ⟨q, by simp⟩
        · obtain ⟨p, hp⟩ := ih g (by rw [hr]; exact hg) hv
          exact ⟨p, List.mem_cons_of_mem _ hp⟩

/-! ### tables indexed by `label ++ length` -/
def lenMap {β : Type} (ch : Char) (d : LenCtr) (f : MWTable → β) : List (String × β) := d.map fun e => (lbl ch e.1, f e.2)

theorem lenLists_eq (ch : Char) (d : LenCtr) : lenLists ch d = lenMap ch d listOf := rfl

theorem find_lenMap {β : Type} (ch : Char) (d : LenCtr) (f : MWTable → β) (n : Nat) :
    (lenMap ch d f).find? (·.1 == lbl ch n) = (d.find? (·.1 == n)).map fun e => (lbl ch e.1, f e.2) := by
  unfold lenMap
  induction d with
  | nil => rfl
  | cons e rest ih =>
    rw [List.map_cons, List.find?_cons, List.find?_cons]
    by_cases hk : e.1 = n
    · have h1 : (lbl ch e.1 == lbl ch n) = true := by rw [hk]; exact beq_self_eq_true _
      have h2 : (e.1 == n) = true := by rw [hk]; exact beq_self_eq_true _
      simp only [h1, h2, Option.map_some]
    · have h1 : (lbl ch e.1 == lbl ch n) = false := by
        apply beq_eq_false_iff_ne.mpr
        intro h; exact hk (lbl_inj ch _ _ h)
      have h2 : (e.1 == n) = false := beq_eq_false_iff_ne.mpr hk
      simp only [h1, h2]
      exact ih

theorem find_lenMap_none {β : Type} (ch : Char) (d : LenCtr) (f : MWTable → β) (name : String) (h : ∀ m, lbl ch m ≠ name) :
    (lenMap ch d f).find? (·.1 == name) = none := by
  apply List.find?_eq_none.mpr
  intro e he
  obtain ⟨q, _, rfl⟩ := List.mem_map.mp he
  simpa using h q.1

/-- a value found with a non-zero number is an entry of the list -/
theorem mem_of_look {α : Type} [BEq α] [LawfulBEq α] (items : List (α × Rat)) (v : α)
    (h : ((items.find? (·.1 == v)).map (·.2)).getD 0 ≠ 0) :
    (v, ((items.find? (·.1 == v)).map (·.2)).getD 0) ∈ items := by
  cases hf : items.find? (·.1 == v) with
  | none => rw [hf] at h; simp at h
  | some q =>
    have hm := List.mem_of_find?_eq_some hf
    have hk := List.find?_some hf
    simp only [beq_iff_eq] at hk
    simp only [Option.map_some, Option.getD_some]
    rw [← hk]; exact hm

end Pcfg.Trainer
