import PcfgVerif.Lemmas.LoadMultiLemmas
import PcfgVerif.Lemmas.RuleDirLemmas
import PcfgVerif.Lemmas.TrainedAgreeA
/-! A length-indexed folder written by the trainer (`save_indexed_counters`), listed in `config.ini` (`create_filename_list`) and read
back by `_load_from_multiple_files`: every length's variable holds the content of that length's file. -/
namespace Pcfg.Trainer
open Pcfg Pcfg.Detect Pcfg.LoadMulti Pcfg.RuleDir

theorem writeIn_eq_setVar {γ : Type} (dir : List (String × γ)) (fn : String) (c : γ) : writeIn dir fn c = setVar dir fn c := rfl

/-- the file written last under a name holds the content; files not written keep theirs -/
theorem fold_writeIn_lookup {κ γ : Type} (name : κ → String) (suffix : String) (counters : List (κ × γ)) (dir : List (String × γ))
    (f : String) :
    lookup (counters.foldl (fun dir kc => writeIn dir (name kc.1 ++ suffix) kc.2) dir) f =
      match counters.reverse.find? (fun kc => name kc.1 ++ suffix == f) with
      | some kc => some kc.2
      | none => lookup dir f := by
  induction counters generalizing dir with
  | nil => rfl
  | cons kc rest ih =>
    rw [List.foldl_cons, ih, List.reverse_cons, List.find?_append]
    cases hf : rest.reverse.find? (fun kc => name kc.1 ++ suffix == f) with
    | some x => simp
    | none =>
      simp only [Option.none_or, List.find?_cons, List.find?_nil]
      rw [writeIn_eq_setVar, lookup_setVar]
      by_cases hk : f = name kc.1 ++ suffix
      · subst hk; simp
      · have : (name kc.1 ++ suffix == f) = false := beq_eq_false_iff_ne.mpr (fun e => hk e.symm)
        simp [this, hk]

theorem saveIndexed_lookup {κ γ : Type} (name : κ → String) (suffix : String) (old : List (String × γ)) (counters : List (κ × γ))
    (hnd : (counters.map fun kc => name kc.1 ++ suffix).Nodup) (kc : κ × γ) (hkc : kc ∈ counters) :
    lookup (saveIndexed name suffix old counters) (name kc.1 ++ suffix) = some kc.2 := by
  unfold saveIndexed
  rw [fold_writeIn_lookup]
  have hmem : kc ∈ counters.reverse := List.mem_reverse.mpr hkc
  cases hfind : counters.reverse.find? (fun x => name x.1 ++ suffix == name kc.1 ++ suffix) with
  | none =>
    have := List.find?_eq_none.mp hfind kc hmem
    simp at this
  | some x =>
    have hx := List.mem_reverse.mp (List.mem_of_find?_eq_some hfind)
    have hk : name x.1 ++ suffix = name kc.1 ++ suffix := by simpa using List.find?_some hfind
    have := inj_of_nodup_map (fun kc : κ × γ => name kc.1 ++ suffix) counters hnd x kc hx hkc hk
    rw [this]

/-- `"<n>.txt".split('.')[0]` is the decimal numeral -/
theorem stem_txt (n : Nat) : stem (toString n ++ ".txt") = toString n := by
  unfold stem
  rw [String.toList_append]
  have hd : ∀ c ∈ (toString n).toList, (c != '.') = true := by
    intro c hc
    rw [Nat.toString_eq_repr, Nat.toList_repr] at hc
    have := Nat.isDigit_of_mem_toDigits (by decide) (by decide) hc
    have hne : c ≠ '.' := by
      intro e; subst e; simp [Char.isDigit] at this
    simpa using hne
  have : ((toString n).toList ++ ".txt".toList).takeWhile (· != '.') = (toString n).toList := by
    rw [List.takeWhile_append_of_pos hd]
    simp
  rw [this, String.ofList_toList]

theorem cat_stem (ch : Char) (n : Nat) : String.ofList [ch] ++ stem (toString n ++ ".txt") = lbl ch n := by
  rw [stem_txt]; rfl

theorem nodup_map_comp {α κ γ : Type} (f : α → κ) (g : κ → γ) (hinj : ∀ a b, g a = g b → a = b) (l : List α)
    (h : (l.map f).Nodup) : (l.map fun x => g (f x)).Nodup := by
  induction l with
  | nil => simp
  | cons a rest ih =>
    rw [List.map_cons, List.nodup_cons] at h ⊢
    refine ⟨?_, ih h.2⟩
    intro hm
    obtain ⟨y, hy, e⟩ := List.mem_map.mp hm
    exact h.1 (List.mem_map.mpr ⟨y, hy, hinj _ _ e⟩)

theorem txt_inj (a b : Nat) (h : toString a ++ ".txt" = toString b ++ ".txt") : a = b := by
  have := congrArg stem h
  rw [stem_txt, stem_txt, Nat.toString_eq_repr, Nat.toString_eq_repr] at this
  exact Nat.repr_injective this

/-- reading the listed files of a length-indexed category back (`read` abstract) -/
theorem multi_generic {β : Type} (ch : Char) (d : LenCtr) (hnd : (d.map (·.1)).Nodup) (read : String → Option β)
    (val : Nat × MWTable → Option β) (hread : ∀ e ∈ d, read (toString e.1 ++ ".txt") = val e)
    (hsome : ∀ e ∈ d, (val e).isSome) (g0 : List (String × β)) :
    ∃ g', loadMultiple read (String.ofList [ch]) (d.map fun e => toString e.1 ++ ".txt") g0 = some g' ∧
      (∀ e ∈ d, lookup g' (lbl ch e.1) = val e) ∧
      (∀ k, (∀ n, lbl ch n ≠ k) → lookup g' k = lookup g0 k) := by
  have hok := loadMultiple_ok read (String.ofList [ch]) (d.map fun e => toString e.1 ++ ".txt") g0 (by
      intro f hf
      obtain ⟨e, he, rfl⟩ := List.mem_map.mp hf
      rw [hread e he]; exact hsome e he)
  obtain ⟨g', hg'⟩ := Option.isSome_iff_exists.mp hok
  refine ⟨g', hg', ?_, ?_⟩
  · intro e he
    have hfun : (fun e : Nat × MWTable => String.ofList [ch] ++ stem (toString e.1 ++ ".txt")) = fun e => lbl ch e.1 := by
      funext e; exact cat_stem ch e.1
    have hvn : ((d.map fun e => toString e.1 ++ ".txt").map fun f => String.ofList [ch] ++ stem f).Nodup := by
      rw [List.map_map]
      show (d.map fun e : Nat × MWTable => String.ofList [ch] ++ stem (toString e.1 ++ ".txt")).Nodup
      rw [hfun]
      exact nodup_map_comp (·.1) (lbl ch) (lbl_inj ch) d hnd
    have h1 := loadMultiple_each read (String.ofList [ch]) _ g0 g' hg' hvn (toString e.1 ++ ".txt") (List.mem_map.mpr ⟨e, he, rfl⟩)
    have h2 : lbl ch e.1 = String.ofList [ch] ++ stem (toString e.1 ++ ".txt") := (cat_stem ch e.1).symm
    rw [h2, h1, hread e he]
  · intro k hk
    rw [loadMultiple_lookup read (String.ofList [ch]) _ g0 g' hg' k]
    have : (d.map fun e => toString e.1 ++ ".txt").reverse.find? (fun f => String.ofList [ch] ++ stem f == k) = none := by
      apply List.find?_eq_none.mpr
      intro f hf
      obtain ⟨e, _, rfl⟩ := List.mem_map.mp (List.mem_reverse.mp hf)
      have h2 : String.ofList [ch] ++ stem (toString e.1 ++ ".txt") = lbl ch e.1 := cat_stem ch e.1
      rw [h2]
      simpa using hk e.1
    rw [this]

/-- **a trained length-indexed folder loads into its variables**: write one file per length of the counter dict (whatever the folder
held before), list them in the config, read them back with `_load_from_multiple_files`: the load succeeds when every file parses,
and the variable `<letter><n>` holds exactly the parsed content of the file written for length n; variables of other
categories are untouched -/
theorem trained_folder_loads {γ β : Type} (ch : Char) (d : LenCtr) (hnd : (d.map (·.1)).Nodup) (content : MWTable → γ)
    (parse : γ → Option β) (hparse : ∀ e ∈ d, (parse (content e.2)).isSome) (old : List (String × γ)) (g0 : List (String × β)) :
    ∃ g', loadMultiple (fun fn => (lookup (saveIndexed (fun n : Nat => toString n) ".txt" old (d.map fun e => (e.1, content e.2))) fn).bind parse)
        (String.ofList [ch]) (filenameList (fun n : Nat => toString n) ".txt" (d.map fun e => (e.1, content e.2))) g0 = some g' ∧
      (∀ e ∈ d, lookup g' (lbl ch e.1) = parse (content e.2)) ∧
      (∀ k, (∀ n, lbl ch n ≠ k) → lookup g' k = lookup g0 k) := by
  have hnames : ((d.map fun e => (e.1, content e.2)).map fun kc : Nat × γ => toString kc.1 ++ ".txt").Nodup := by
    rw [List.map_map]
    exact nodup_map_comp (·.1) (fun n : Nat => toString n ++ ".txt") txt_inj d hnd
  have hfiles : filenameList (fun n : Nat => toString n) ".txt" (d.map fun e => (e.1, content e.2)) =
      d.map fun e => toString e.1 ++ ".txt" := by
    unfold filenameList; rw [List.map_map]; rfl
  rw [hfiles]
  refine multi_generic ch d hnd _ (fun e => parse (content e.2)) ?_ hparse g0
  intro e he
  show (lookup _ (toString e.1 ++ ".txt")).bind parse = parse (content e.2)
  rw [saveIndexed_lookup (fun n : Nat => toString n) ".txt" old _ hnames (e.1, content e.2) (List.mem_map.mpr ⟨e, he, rfl⟩)]
  rfl

end Pcfg.Trainer
