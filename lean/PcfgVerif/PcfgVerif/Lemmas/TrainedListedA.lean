import PcfgVerif.Lemmas.TrainerLemmas
import PcfgVerif.Lemmas.DetectC1
import Std.Data.String.ToNat
/-! Counters built by the trainer hold positive counts; names of the scorer's lists are pairwise different. -/
namespace Pcfg.Trainer
open Pcfg.Detect

def Pos (t : MWTable) : Prop := ∀ p ∈ t, 0 < p.2

theorem pos_nil : Pos [] := by intro p hp; simp at hp

theorem pos_bump (t : MWTable) (w : CPs) (h : Pos t) : Pos (t.bump w none) := by
  unfold MWTable.bump
  split
  · intro p hp
    obtain ⟨q, hq, rfl⟩ := List.mem_map.mp hp
    have := h q hq
    split <;> simp <;> omega
  · intro p hp
    rcases List.mem_append.mp hp with hp | hp
    · exact h p hp
    · simp at hp; subst hp; simp

theorem pos_incAll (t : MWTable) (xs : List CPs) (h : Pos t) : Pos (incAll t xs) := by
  unfold incAll
  induction xs generalizing t with
  | nil => exact h
  | cons x rest ih => exact ih _ (pos_bump t x h)

/-- a positive count comes from an entry -/
theorem mem_of_count_pos (t : MWTable) (v : CPs) (h : 0 < t.count v) : ∃ c, (v, c) ∈ t := by
  unfold MWTable.count at h
  cases hf : t.find? (·.1 == v) with
  | none => simp [hf] at h
  | some p =>
    have hm := List.mem_of_find?_eq_some hf
    have hk := List.find?_some hf
    simp only [beq_iff_eq] at hk
    exact ⟨p.2, by rw [← hk]; exact hm⟩

def LPos (d : LenCtr) : Prop := ∀ e ∈ d, Pos e.2

theorem lpos_add (d : LenCtr) (x : CPs) (h : LPos d) : LPos (d.add x) := by
  unfold LenCtr.add
  split
  · intro e he
    obtain ⟨q, hq, rfl⟩ := List.mem_map.mp he
    split
    · exact pos_bump _ _ (h q hq)
    · exact h q hq
  · intro e he
    rcases List.mem_append.mp he with he | he
    · exact h e he
    · simp at he; subst he; exact pos_bump _ _ pos_nil

theorem lpos_update (d : LenCtr) (items : List CPs) (h : LPos d) : LPos (updateLenIndexed d items) := by
  unfold updateLenIndexed
  induction items generalizing d with
  | nil => exact h
  | cons x rest ih => exact ih _ (lpos_add d x h)

/-- the bucket `get n` is an element of the dict when it is not empty -/
theorem get_mem (d : LenCtr) (n : Nat) (h : d.get n ≠ []) : (n, d.get n) ∈ d := by
  unfold LenCtr.get at h ⊢
  cases hf : d.find? (·.1 == n) with
  | none => simp [hf] at h
  | some e =>
    have hm := List.mem_of_find?_eq_some hf
    have hk := List.find?_some hf
    simp only [beq_iff_eq] at hk
    simp only [Option.map_some, Option.getD_some]
    rw [← hk]; exact hm

/-! ## names -/

theorem lbl_inj (c : Char) (n m : Nat) (h : lbl c n = lbl c m) : n = m := by
  have h1 := congrArg String.toList h
  rw [lbl_toList, lbl_toList] at h1
  have h2 : (toString n).toList = (toString m).toList := by simpa using h1
  have h3 : toString n = toString m := String.toList_inj.mp h2
  rw [Nat.toString_eq_repr, Nat.toString_eq_repr] at h3
  exact Nat.repr_injective h3

theorem lbl_ne_of_char (c d : Char) (n m : Nat) (h : c ≠ d) : lbl c n ≠ lbl d m := by
  intro e
  have h1 := congrArg String.toList e
  rw [lbl_toList, lbl_toList] at h1
  exact h (by simpa using (List.cons.inj h1).1)

theorem lbl_length (c : Char) (n : Nat) : 2 ≤ (lbl c n).toList.length := by
  rw [lbl_toList]
  have : (toString n).toList ≠ [] := by
    rw [Nat.toString_eq_repr]
    intro h
    exact Nat.repr_ne_empty (String.toList_eq_nil_iff.mp h)
  have := List.length_pos_iff.mpr this
  simp only [List.length_cons]; omega

theorem lbl_ne_single (c : Char) (n : Nat) (s : String) (hs : s.toList.length = 1) : lbl c n ≠ s := by
  intro e
  have := lbl_length c n
  rw [e] at this
  omega

end Pcfg.Trainer
