import PcfgVerif.Lemmas.GridFrag
/-! Fragment lemmas used only by the restore walk (C08). -/
namespace Pcfg
variable {P : Type}

theorem ipaBody_cases (O : POps P) (item : Nat) (np m : P) :
    Generated.PQ.ipaBody O item np m = none ∨ Generated.PQ.ipaBody O item np m = some true := by
  simp only [Generated.PQ.ipaBody]
  repeat' split
  all_goals simp

theorem ipaBody_isSome (O : POps P) (item : Nat) (np m : P) :
    (Generated.PQ.ipaBody O item np m).isSome = (decide (0 < item) && O.le np m) := by
  simp only [Generated.PQ.ipaBody, CmpOp.nat, POps.cmp]
  by_cases h2 : item = 0
  · simp [h2]
  · have : 0 < item := by omega
    rcases Bool.eq_false_or_eq_true (O.le np m) with h3 | h3 <;> simp [h2, h3, this]

theorem rrSkip_eq (a b : Nat) : Generated.PQ.rrSkip a b = (a == b + 1) := by
  simp [Generated.PQ.rrSkip, CmpOp.nat]

theorem ipaDefault_eq : Generated.PQ.ipaDefault = false := rfl
theorem restoreGuard_eq (O : POps P) (p m mn : P) (ipa : Bool) (hmn : O.lt p mn = false) :
    Generated.PQ.restoreGuard O p m mn ipa =
      if O.le p m then (if ipa then .stop else .save) else .descend := by
  simp only [Generated.PQ.restoreGuard, POps.cmp, hmn]
  rcases Bool.eq_false_or_eq_true (O.le p m) with h | h <;> cases ipa <;> simp [h]

theorem isParentAround_eq (O : POps P) (s : Struct P) (c : List Nat) (m : P) :
    isParentAround O s c m = (cands O s c).any (fun y => O.le y.1 m) := by
  unfold isParentAround
  rw [ipaDefault_eq, loopRet_any _ (fun p => ipaBody_cases _ _ _ _)]
  simp only [cands, List.any_filterMap]
  congr 1
  funext pos
  rw [ipaBody_isSome]
  generalize c.getD pos 0 = n
  by_cases h : 0 < n <;> simp [h]

end Pcfg
