import PcfgVerif.Lemmas.TrainedAgreeF
import PcfgVerif.Lemmas.LoaderLemmas
/-! The base-structure loader model applied to the `grammar.txt` the trainer writes returns `Trainer.viewBases`. -/
namespace Pcfg.Trainer
open Pcfg Pcfg.Detect

def tmSep (c : Nat) : Bool := c == 0x0a || c == 0x0d

theorem splitLinesKeep_body_tm (body rest cur : CPs) (hb : ∀ c ∈ body, c ≠ 10 ∧ c ≠ 13) :
    splitLinesKeep tmSep (body ++ 10 :: rest) cur = (cur.reverse ++ body ++ [10]) :: splitLinesKeep tmSep rest [] := by
  induction body generalizing cur with
  | nil =>
    simp only [List.nil_append, List.append_nil]
    rw [splitLinesKeep_cons_ne _ _ _ _ (by decide)]
    simp [tmSep]
  | cons c body ih =>
    have hc := hb c (by simp)
    rw [List.cons_append, splitLinesKeep_cons_ne _ _ _ _ hc.2]
    have : tmSep c = false := by simp [tmSep, hc.1, hc.2]
    simp only [this, Bool.false_eq_true, if_false]
    rw [ih _ (fun x hx => hb x (by simp [hx]))]
    simp

/-- a line ending in `\n` whose last character before it is not `\r` is left alone by universal-newline translation -/
theorem tm_norm (s : CPs) (hs : ∀ c, s.getLast? = some c → c ≠ 13) :
    (match (s ++ [10]).reverse with
      | 0x0a :: 0x0d :: r => (0x0a :: r).reverse
      | 0x0d :: r => (0x0a :: r).reverse
      | _ => s ++ [10]) = s ++ [10] := by
  rw [List.reverse_append]
  simp only [List.reverse_cons, List.reverse_nil, List.nil_append, List.singleton_append]
  cases hr : s.reverse with
  | nil => rfl
  | cons a r =>
    have : s.getLast? = some a := by rw [List.getLast?_eq_head?_reverse, hr]; rfl
    have hne := hs a this
    split
    · rename_i r' heq
      have := (List.cons.inj (List.cons.inj heq).2).1
      exact absurd this hne
    · rename_i r' heq
      have := (List.cons.inj heq).1
      exact absurd this (by decide)
    · rfl

theorem textModeLines_writeFile (items : List (CPs × CPs))
    (hc : ∀ it ∈ items, (∀ c ∈ it.1, c ≠ 10 ∧ c ≠ 13) ∧ it.2 ≠ [] ∧ (∀ c ∈ it.2, c ≠ 10 ∧ c ≠ 13)) :
    textModeLines (writeFile items) = items.map fun it => writeLine it.1 it.2 := by
  unfold textModeLines
  have key : splitLinesKeep (fun c => c == 0x0a || c == 0x0d) (writeFile items) [] = items.map fun it => writeLine it.1 it.2 := by
    induction items with
    | nil => simp [writeFile, splitLinesKeep]
    | cons it items ih =>
      rw [writeFile_cons]
      have := splitLinesKeep_body_tm (it.1 ++ 9 :: it.2) (writeFile items) [] (by
        intro c hcm
        have h := hc it (by simp)
        simp only [List.mem_append, List.mem_cons] at hcm
        rcases hcm with hcm | hcm | hcm
        · exact h.1 c hcm
        · subst hcm; decide
        · exact h.2.2 c hcm)
      unfold tmSep at this
      rw [this, ih (fun x hx => hc x (by simp [hx]))]
      simp [writeLine]
  rw [key, List.map_map]
  apply List.map_congr_left
  intro it hit
  have h := hc it hit
  show (match (writeLine it.1 it.2).reverse with
      | 0x0a :: 0x0d :: r => (0x0a :: r).reverse
      | 0x0d :: r => (0x0a :: r).reverse
      | _ => writeLine it.1 it.2) = writeLine it.1 it.2
  have e : writeLine it.1 it.2 = (it.1 ++ [9] ++ it.2) ++ [10] := by simp [writeLine]
  rw [e]
  apply tm_norm
  intro c hcl
  have hne : it.2 ≠ [] := h.2.1
  have : it.2.getLast? = some c := by
    rw [List.getLast?_append] at hcl
    cases hl : it.2.getLast? with
    | none => exact absurd (List.getLast?_eq_none_iff.mp hl) hne
    | some x => rw [hl] at hcl; simpa using hcl
  exact (h.2.2 c (List.mem_of_getLast? this)).2

end Pcfg.Trainer

namespace Pcfg.Trainer
open Pcfg Pcfg.Detect

/-- exact arithmetic of the base-structure loader: `1`, subtraction, division (`none` = ZeroDivisionError) -/
def ratArith : PArith Rat := ⟨1, (· - ·), fun a b => if b = 0 then none else some (a / b)⟩

theorem baseLoop_written (parseP : CPs → Option Rat) (showP : Rat → CPs) (isAlpha : Nat → Bool)
    (hround : ∀ p, parseP (showP p) = some p) (items : List (CPs × Rat))
    (hclean : ∀ it ∈ items, CleanItem (it.1, showP it.2))
    (hsplit : ∀ it ∈ items, (splitStructure isAlpha it.1 []).isSome) :
    baseLoop parseP ratArith isAlpha false 1 (items.map fun it => writeLine it.1 (showP it.2)) =
      some (items.filterMap fun it => (splitStructure isAlpha it.1 []).map fun reps => ⟨it.2, reps⟩) := by
  induction items with
  | nil => simp [baseLoop]
  | cons it rest ih =>
    have hcl := hclean it (by simp)
    obtain ⟨reps, hr⟩ := Option.isSome_iff_exists.mp (hsplit it (by simp))
    rw [List.map_cons, baseLoop]
    have hs : pySplit 9 (rstripWs (writeLine it.1 (showP it.2))) = [it.1, showP it.2] := CleanItem.split (it := (it.1, showP it.2)) hcl
    rw [hs]
    simp only [hround, hr]
    have hd : ratArith.div it.2 1 = some it.2 := by
      show (if (1 : Rat) = 0 then none else some (it.2 / 1)) = some it.2
      rw [if_neg (by decide)]
      congr 1
      grind
    rw [hd, ih (fun x hx => hclean x (List.mem_cons_of_mem _ hx)) (fun x hx => hsplit x (List.mem_cons_of_mem _ hx))]
    simp [hr]

/-- **the base-structure loader model, applied to the `grammar.txt` the trainer writes, returns `viewBases`** (default flags; every
structure key tokenises — true of every structure the trainer writes, `split_labels`) -/
theorem loadBase_returns_viewBases (parseP : CPs → Option Rat) (showP : Rat → CPs) (isAlpha : Nat → Bool)
    (hround : ∀ p, parseP (showP p) = some p) (cov : Rat) (n0 : Nat) (c : Counters)
    (hclean : ∀ it ∈ baseList cov n0 c.base, CleanItem (it.1, showP it.2))
    (hsplit : ∀ it ∈ baseList cov n0 c.base, (splitStructure isAlpha it.1 []).isSome) :
    ∃ bs, loadBase parseP ratArith isAlpha false (writeFile ((baseList cov n0 c.base).map fun it => (it.1, showP it.2))) = some bs ∧
      bs.map (fun b => (b.replacements.map strOf, b.prob)) = viewBases isAlpha cov n0 c := by
  unfold loadBase
  simp only [Bool.false_eq_true, if_false]
  have hlines : textModeLines (writeFile ((baseList cov n0 c.base).map fun it => (it.1, showP it.2))) =
      (baseList cov n0 c.base).map fun it => writeLine it.1 (showP it.2) := by
    rw [textModeLines_writeFile, List.map_map]
    · rfl
    · intro it hit
      obtain ⟨x, hx, rfl⟩ := List.mem_map.mp hit
      have h := hclean x hx
      refine ⟨fun ch hc => ?_, h.2.1, fun ch hc => ?_⟩
      · have := (h.1 ch hc).1
        constructor <;> (intro e; subst e; simp [isLineSep, pyLineSeps] at this)
      · have := (h.2.2 ch hc).1
        constructor <;> (intro e; subst e; simp [isLineSep, pyLineSeps] at this)
  rw [hlines]
  have hb := baseLoop_written parseP showP isAlpha hround (baseList cov n0 c.base) hclean hsplit
  have h1 : ratArith.one = 1 := rfl
  rw [h1, hb]
  refine ⟨_, rfl, ?_⟩
  unfold viewBases
  simp only [List.map_map]
  rw [List.map_filterMap]
  congr 1
  funext it
  cases splitStructure isAlpha it.1 [] <;> rfl

end Pcfg.Trainer

namespace Pcfg.Trainer
open Pcfg Pcfg.Detect

/-- every key of the base-structure counter is a concatenation of section labels -/
def BaseOK (b : SCtr) : Prop :=
  ∀ p ∈ b, ∃ labels : List String, (∀ l ∈ labels, ∃ text, LabelOK text l) ∧ p.1 = String.join labels

theorem baseok_inc (b : SCtr) (s : String) (h : BaseOK b)
    (hs : ∃ labels : List String, (∀ l ∈ labels, ∃ text, LabelOK text l) ∧ s = String.join labels) : BaseOK (b.inc s) := by
  unfold SCtr.inc
  split
  · intro p hp
    obtain ⟨q, hq, rfl⟩ := List.mem_map.mp hp
    have := h q hq
    split <;> exact this
  · intro p hp
    rcases List.mem_append.mp hp with hp | hp
    · exact h p hp
    · simp at hp; subst hp; exact hs

theorem fold_inv_mem {S A : Type} (step : S → A → S) (Good : S → Prop) (xs : List A)
    (hstep : ∀ s a, a ∈ xs → Good s → Good (step s a)) (s0 : S) (h0 : Good s0) : Good (xs.foldl step s0) := by
  induction xs generalizing s0 with
  | nil => exact h0
  | cons x rest ih =>
    exact ih (fun s a ha hs => hstep s a (List.mem_cons_of_mem _ ha) hs) _ (hstep _ _ (by simp) h0)

theorem parse_labels (U : UEnv) (cfg : MWCfg) (t : MWTable) (pw : CPs) (hne : pw ≠ []) (hl : LenPres U pw) :
    ∃ labels : List String, (∀ l ∈ labels, ∃ text, LabelOK text l) ∧ (parse U cfg t pw).structure' = String.join labels := by
  have hcoh := parse_coherent U cfg t pw hne hl
  refine ⟨(parse U cfg t pw).sections.map ScoreB.lab, ?_, rfl⟩
  intro l hlm
  obtain ⟨s, hs, rfl⟩ := List.mem_map.mp hlm
  obtain ⟨l', hl', hok⟩ := hcoh.labels s hs
  exact ⟨s.1, by unfold ScoreB.lab; rw [hl']; exact hok⟩

theorem train_baseok (U : UEnv) (cfg : MWCfg) (pws : List CPs) (hpw : ∀ pw ∈ pws, pw ≠ [] ∧ LenPres U pw) :
    BaseOK (train U cfg pws).base := by
  unfold train pass2
  refine fold_inv_mem _ (fun c : Counters => BaseOK c.base) pws ?_ {} (by intro p hp; exact absurd hp (by simp))
  intro c pw hmem hc
  show BaseOK (if (parse U cfg (pass1 U cfg pws) pw).supported then c.base.inc (parse U cfg (pass1 U cfg pws) pw).structure' else c.base)
  split
  · exact baseok_inc _ _ hc (parse_labels U cfg _ pw (hpw pw hmem).1 (hpw pw hmem).2)
  · exact hc

/-- every line of the written `grammar.txt` tokenises -/
theorem baseList_keys_split (isAlpha : Nat → Bool) (hcap : ∀ c, 65 ≤ c → c ≤ 90 → isAlpha c = true)
    (hdig : ∀ c, 48 ≤ c → c ≤ 57 → isAlpha c = false) (cov : Rat) (n0 : Nat) (b : SCtr) (hb : BaseOK b) :
    ∀ it ∈ baseList cov n0 b, (splitStructure isAlpha it.1 []).isSome := by
  intro it hit
  unfold baseList at hit
  obtain ⟨kp, hkp, rfl⟩ := List.mem_map.mp hit
  obtain ⟨cnt, hc, _⟩ := (calcProbs_mem ratOps _ kp.1 kp.2).mp hkp
  have hM : (splitStructure isAlpha (cpsOfString "M") []).isSome := by
    have : cpsOfString "M" = [[77]].flatten := by decide
    rw [this, split_tokens isAlpha [[77]] (by
      intro t ht; simp at ht; subst ht
      exact ⟨77, [], rfl, hcap 77 (by decide) (by decide), by intro d hd; simp at hd⟩) []]
    rfl
  have hkey : ∀ k c', (k, c') ∈ toQ b → (splitStructure isAlpha (cpsOfString k) []).isSome := by
    intro k c' hk
    obtain ⟨q, hq, he⟩ := List.mem_map.mp hk
    obtain ⟨labels, hl, hj⟩ := hb q hq
    have : k = String.join labels := by rw [← hj]; exact (congrArg Prod.fst he).symm
    rw [this, split_labels isAlpha hcap hdig labels hl]; rfl
  unfold withMarkov at hc
  by_cases h1 : (cov == 1) = true
  · simp only [h1, if_true] at hc
    exact hkey _ _ hc
  · simp only [h1, Bool.false_eq_true, if_false] at hc
    by_cases h2 : (cov == 0) = true
    · simp only [h2, if_true, List.mem_singleton] at hc
      have : kp.1 = "M" := congrArg Prod.fst hc
      rw [this]; exact hM
    · simp only [h2, Bool.false_eq_true, if_false] at hc
      rcases List.mem_append.mp hc with hc | hc
      · exact hkey _ _ hc
      · simp only [List.mem_singleton] at hc
        have : kp.1 = "M" := congrArg Prod.fst hc
        rw [this]; exact hM

end Pcfg.Trainer
