import PcfgVerif.Model.ScorerSpec
import PcfgVerif.Lemmas.DetectC1
import PcfgVerif.Properties.ReproCore
/-! Helper lemmas for C13 (the scorer's promise), part 2: labels, code points vs characters, masks,
the case mapping, matching of alpha records with sections, concatenation of a tiling. -/
namespace Pcfg.ScoreB
open Pcfg Pcfg.Detect

/-! ## labels -/

/-- the guesser loader's case insertion on one label -/
def insC (l : String) : List String :=
  if l.toList.head? = some 'A' then [l, String.ofList ('C' :: l.toList.tail)] else [l]

theorem insC_match (l : String) :
    (match l.toList with
      | 'A' :: n => [l, String.ofList ('C' :: n)]
      | _ => [l]) = insC l := by
  unfold insC
  split
  · next n h => simp [h]
  · next h =>
    have : l.toList.head? ≠ some 'A' := by
      intro hh
      cases hl : l.toList with
      | nil => rw [hl] at hh; cases hh
      | cons c cs =>
        rw [hl] at hh
        simp only [List.head?_cons, Option.some.injEq] at hh
        subst hh
        exact h cs hl
    simp [this]

theorem lblC_eq (n : Nat) : String.ofList ('C' :: (toString n).toList) = lbl 'C' n := by
  apply String.toList_injective
  simp [lbl]

theorem insC_lblA (n : Nat) : insC (lbl 'A' n) = [lbl 'A' n, lbl 'C' n] := by
  unfold insC
  rw [if_pos (by rw [lbl_toList]; rfl), lbl_toList, List.tail_cons, lblC_eq]

theorem insC_lbl (c : Char) (n : Nat) (h : c ≠ 'A') : insC (lbl c n) = [lbl c n] := by
  simp [insC, lbl_toList, h]

theorem insC_Y1 : insC "Y1" = ["Y1"] := by
  have : ("Y1" : String).toList = ['Y', '1'] := by decide
  simp [insC, this]

theorem insC_X1 : insC "X1" = ["X1"] := by
  have : ("X1" : String).toList = ['X', '1'] := by decide
  simp [insC, this]

theorem head_lbl (c : Char) (n : Nat) : (lbl c n).toList.head? = some c := by
  simp [lbl_toList]

theorem labelCat_lbl (c : Char) (n : Nat) : labelCat (some (lbl c n)) = some c := by
  simp [labelCat, lbl_toList]

theorem labelCat_Y1 : labelCat (some "Y1") = some 'Y' := by
  have : ("Y1" : String).toList = ['Y', '1'] := by decide
  simp [labelCat, this]

theorem labelCat_X1 : labelCat (some "X1") = some 'X' := by
  have : ("X1" : String).toList = ['X', '1'] := by decide
  simp [labelCat, this]

theorem textsOf_nil (c : Char) : textsOf [] c = [] := rfl

theorem textsOf_cons (text : CPs) (l : Option String) (rest : List Sec) (c : Char) :
    textsOf ((text, l) :: rest) c =
      if labelCat l = some c then text :: textsOf rest c else textsOf rest c := by
  unfold textsOf
  rw [List.filterMap_cons]
  by_cases h : labelCat l = some c <;> simp [h]

theorem mem_textsOf (secs : List Sec) (c : Char) (s : Sec) (hs : s ∈ secs) (hc : labelCat s.2 = some c) :
    s.1 ∈ textsOf secs c := by
  unfold textsOf
  rw [List.mem_filterMap]
  exact ⟨s, hs, by simp [hc]⟩

theorem lbl_ne_of_head (c : Char) (n : Nat) (s : String) (d : Char) (hs : s.toList.head? = some d)
    (h : c ≠ d) : lbl c n ≠ s := by
  intro he
  have := head_lbl c n
  rw [he, hs] at this
  exact h (Option.some.inj this).symm

theorem scName_lbl (c : Char) (n : Nat) (hY : c ≠ 'Y') (hX : c ≠ 'X') : scName (lbl c n) = lbl c n := by
  have h1 : lbl c n ≠ "Y1" := lbl_ne_of_head c n "Y1" 'Y' (by decide) hY
  have h2 : lbl c n ≠ "X1" := lbl_ne_of_head c n "X1" 'X' (by decide) hX
  simp [scName, h1, h2]

theorem scName_Y1 : scName "Y1" = String.ofList ['Y'] := by decide
theorem scName_X1 : scName "X1" = String.ofList ['X'] := by decide

/-- a label of a section of a supported password -/
def GoodLabel (text : CPs) (l : String) : Prop :=
  l = lbl 'K' text.length ∨ l = "Y1" ∨ l = "X1" ∨ l = lbl 'A' text.length ∨ l = lbl 'D' text.length ∨
  l = lbl 'O' text.length

theorem startsWith_E : ("E" : String).startsWith "E" = true := by simp
theorem startsWith_W : ("W" : String).startsWith "W" = true := by simp

theorem goodLabel_of_supported (secs : List Sec) (hsup : (baseStructure secs).1 = true) (s : Sec)
    (hs : s ∈ secs) (l : String) (hl : s.2 = some l) (hok : LabelOK s.1 l) :
    GoodLabel s.1 l ∧ l ≠ "W" := by
  have h := hsup
  simp only [baseStructure, List.all_eq_true] at h
  have h1 := h s hs
  rw [hl] at h1
  simp only [Bool.not_eq_true', Bool.or_eq_false_iff] at h1
  have hW : l ≠ "W" := by
    intro he; rw [he, startsWith_W] at h1; exact absurd h1.1 (by decide)
  have hE : l ≠ "E" := by
    intro he; rw [he, startsWith_E] at h1; exact absurd h1.2 (by decide)
  refine ⟨?_, hW⟩
  rcases hok with h | h | h | h | h | h | h | h
  · exact Or.inl h
  · exact Or.inr (Or.inl h)
  · exact Or.inr (Or.inr (Or.inl h))
  · exact Or.inr (Or.inr (Or.inr (Or.inl h)))
  · exact Or.inr (Or.inr (Or.inr (Or.inr (Or.inl h))))
  · exact Or.inr (Or.inr (Or.inr (Or.inr (Or.inr h))))
  · exact absurd h hE
  · exact absurd h hW

theorem structure_eq (secs : List Sec) :
    (baseStructure secs).2 = String.join (secs.map fun s => s.2.getD "?") := rfl

/-! ## code points and characters -/

theorem toStr_append (a b : CPs) : toStr (a ++ b) = toStr a ++ toStr b := by simp [toStr]

theorem toStr_length (a : CPs) : (toStr a).length = a.length := by simp [toStr]

theorem toNat_ofNat (c : Nat) (h : c.isValidChar) : (Char.ofNat c).toNat = c := by
  simp [Char.ofNat, h, Char.ofNatAux, Char.toNat]

theorem scalar_sub (a b : CPs) (h : ScalarCPs b) (hs : ∀ c ∈ a, c ∈ b) : ScalarCPs a :=
  fun c hc => h c (hs c hc)

theorem mem_slice (s : CPs) (a b c : Nat) (h : c ∈ slice s a b) : c ∈ s :=
  List.mem_of_mem_drop (List.mem_of_mem_take h)

/-- upper-case test on characters induced by the one on code points -/
def isUp (U : UEnv) : Char → Bool := fun c => U.isUpper c.toNat

theorem maskOf_toStr (U : UEnv) (o : CPs) (h : ScalarCPs o) :
    maskOf (isUp U) (toStr o) = toStr (maskOfCP U o) := by
  induction o with
  | nil => rfl
  | cons c cs ih =>
    have hc : (Char.ofNat c).toNat = c := toNat_ofNat c (h c (by simp))
    have ih' := ih (fun x hx => h x (by simp [hx]))
    simp only [toStr, maskOf, maskOfCP, List.map_cons, isUp, hc] at ih' ⊢
    rw [ih']
    by_cases hu : U.isUpper c = true
    · simp [hu]; decide
    · simp [hu]; decide

theorem maskOfCP_length (U : UEnv) (o : CPs) : (maskOfCP U o).length = o.length := by
  simp [maskOfCP]

/-! ## the case mapping -/

theorem tame_of_pointwise (upper : Char → List Char) (U : UEnv) :
    ∀ (xs ys : CPs), xs.length = ys.length → ScalarCPs xs →
      (∀ (i c d : Nat), xs[i]? = some c → ys[i]? = some d →
        (if U.isUpper c then upper (Char.ofNat d) = [Char.ofNat c] else d = c)) →
      TamePair upper (isUp U) (toStr xs) (toStr ys)
  | [], [], _, _, _ => trivial
  | [], _ :: _, h, _, _ => by simp at h
  | _ :: _, [], h, _, _ => by simp at h
  | c :: cs, d :: ds, hlen, hsc, hp => by
    have hc : (Char.ofNat c).toNat = c := toNat_ofNat c (hsc c (by simp))
    have h0 := hp 0 c d (by simp) (by simp)
    have ih := tame_of_pointwise upper U cs ds (by simpa using hlen)
      (fun x hx => hsc x (by simp [hx]))
      (fun i c' d' h1 h2 => hp (i + 1) c' d' (by simpa using h1) (by simpa using h2))
    show (if isUp U (Char.ofNat c) then upper (Char.ofNat d) = [Char.ofNat c] else Char.ofNat d = Char.ofNat c) ∧
      TamePair upper (isUp U) (toStr cs) (toStr ds)
    refine ⟨?_, ih⟩
    simp only [isUp, hc]
    by_cases hu : U.isUpper c = true
    · simp only [hu, if_true] at h0 ⊢; exact h0
    · simp only [hu] at h0 ⊢
      simp only [Bool.false_eq_true, if_false] at h0 ⊢
      rw [h0]

theorem getElem?_slice (s : CPs) (off n i : Nat) (c : Nat)
    (h : (slice s off (off + n))[i]? = some c) : s[off + i]? = some c := by
  unfold slice at h
  rw [List.getElem?_take] at h
  split at h
  · rw [List.getElem?_drop] at h; exact h
  · cases h

theorem lowerOf_scalar (U : UEnv) (pw orig word : CPs) (hsc : ScalarCPs pw)
    (h : LowerOf U pw orig word) : ScalarCPs orig := by
  obtain ⟨a, b, off, ho, _⟩ := h
  intro c hc
  rw [ho] at hc
  exact hsc c (mem_slice _ _ _ _ (mem_slice _ _ _ _ hc))

theorem tame_of_lowerOf (upper : Char → List Char) (U : UEnv) (pw orig word : CPs)
    (hsc : ScalarCPs pw) (hcase : CaseInvAll U upper pw) (hlen : word.length = orig.length)
    (h : LowerOf U pw orig word) : TamePair upper (isUp U) (toStr orig) (toStr word) := by
  have hso := lowerOf_scalar U pw orig word hsc h
  obtain ⟨a, b, off, ho, hw⟩ := h
  refine tame_of_pointwise upper U orig word hlen.symm hso ?_
  intro i c d h1 h2
  rw [ho] at h1
  rw [hw] at h2
  exact hcase a b (off + i) c d (getElem?_slice _ _ _ _ _ h1) (getElem?_slice _ _ _ _ _ h2)

/-! ## matching the alpha records with the alpha sections -/

theorem perm_map_inv {α β : Type} (f : α → β) {l1 l2 : List β} (h : l1.Perm l2) :
    ∀ recs : List α, recs.map f = l1 → ∃ recs' : List α, recs'.Perm recs ∧ recs'.map f = l2 := by
  induction h with
  | nil => intro recs hr; exact ⟨recs, List.Perm.refl _, hr⟩
  | cons x _ ih =>
    intro recs hr
    cases recs with
    | nil => cases hr
    | cons r rs =>
      simp only [List.map_cons, List.cons.injEq] at hr
      obtain ⟨rs', hp, hm⟩ := ih rs hr.2
      exact ⟨r :: rs', hp.cons r, by simp [hm, hr.1]⟩
  | swap x y l =>
    intro recs hr
    match recs, hr with
    | r1 :: r2 :: rs, hr =>
      simp only [List.map_cons, List.cons.injEq] at hr
      exact ⟨r2 :: r1 :: rs, List.Perm.swap r1 r2 rs, by simp [hr.1, hr.2.1, hr.2.2]⟩
  | trans _ _ ih1 ih2 =>
    intro recs hr
    obtain ⟨r1, hp1, hm1⟩ := ih1 recs hr
    obtain ⟨r2, hp2, hm2⟩ := ih2 r1 hm1
    exact ⟨r2, hp2.trans hp1, hm2⟩

/-! ## the sections of a supported password concatenate to the password -/

theorem tiles_concat (U : UEnv) (pw : CPs) :
    ∀ (secs : List Sec) (off : Nat), TilesFrom U pw off secs → (∀ s ∈ secs, s.2 ≠ some "W") →
      secs.flatMap (·.1) = pw.drop off
  | [], off, h, _ => by
    have : off = pw.length := h
    simp [this]
  | s :: rest, off, h, hw => by
    obtain ⟨⟨_, _, hs, _⟩, hr⟩ := h
    have ih := tiles_concat U pw rest (off + s.1.length) hr (fun x hx => hw x (by simp [hx]))
    have h1 := hs (hw s (by simp))
    rw [List.flatMap_cons, ih]
    have : off + s.1.length - off = s.1.length := by omega
    conv => lhs; lhs; rw [h1]
    unfold slice
    rw [this, ← List.drop_drop, List.take_append_drop]

theorem tiles_nonempty (U : UEnv) (pw : CPs) :
    ∀ (secs : List Sec) (off : Nat), TilesFrom U pw off secs → ∀ s ∈ secs, s.1 ≠ []
  | [], _, _, s, hs => by cases hs
  | x :: rest, off, h, s, hs => by
    rcases List.mem_cons.mp hs with rfl | hs
    · exact h.1.1
    · exact tiles_nonempty U pw rest _ h.2 s hs

end Pcfg.ScoreB
