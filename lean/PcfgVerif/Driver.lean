import PcfgVerif.Drive.PQ
import PcfgVerif.Drive.Omen
import PcfgVerif.Drive.Expand
import PcfgVerif.Drive.Loader
import PcfgVerif.Drive.Sampler
import PcfgVerif.Drive.EditRules
import PcfgVerif.Drive.Reader
import PcfgVerif.Drive.Probs
import PcfgVerif.Drive.OmenTrainer
import PcfgVerif.Drive.Session
import PcfgVerif.Drive.Detect
import PcfgVerif.Drive.SoftFloat
/-! Line-protocol driver: one operation per input line, one canonical answer line each. -/

structure DState where
  pq : Drive.PQ.St := {}
  omen : Drive.Omen.St := {}
  exp : Drive.Expand.St := {}
  ld : Drive.Loader.St := {}
  hw : Drive.Sampler.St := {}
  er : Drive.EditRules.St := {}
  rd : Drive.Reader.St := {}
  ot : Drive.OmenTrainer.St := {}
  ss : Drive.Session.St := {}
  dt : Drive.Detect.St := {}

def dispatch (s : DState) (line : String) : DState × String :=
  let toks := (line.splitOn " ").filter (· ≠ "")
  match toks with
  | [] => (s, "")
  | cmd :: _ =>
    if cmd.startsWith "pq." then
      let (p, out) := Drive.PQ.step s.pq toks
      ({ s with pq := p }, out)
    else if cmd.startsWith "omen." then
      let (p, out) := Drive.Omen.step s.omen toks
      ({ s with omen := p }, out)
    else if cmd.startsWith "exp." then
      let (p, out) := Drive.Expand.step s.exp s.omen toks
      ({ s with exp := p }, out)
    else if cmd.startsWith "ld." || cmd.startsWith "txt." then
      let (p, out) := Drive.Loader.step s.ld toks
      ({ s with ld := p }, out)
    else if cmd.startsWith "hw." then
      let (p, out) := Drive.Sampler.step s.hw s.exp toks
      ({ s with hw := p }, out)
    else if cmd.startsWith "er." then
      let (p, out) := Drive.EditRules.step s.er toks
      ({ s with er := p }, out)
    else if cmd.startsWith "rd." then
      let (p, out) := Drive.Reader.step s.rd toks
      ({ s with rd := p }, out)
    else if cmd.startsWith "cp." then (s, Drive.Probs.step toks)
    else if cmd.startsWith "fp." then (s, Drive.SoftFloat.step toks)
    else if cmd.startsWith "ot." || cmd.startsWith "of." || cmd.startsWith "oc." then
      let (p, out) := Drive.OmenTrainer.step s.ot toks
      ({ s with ot := p }, out)
    else if cmd.startsWith "ss." then
      let (p, out) := Drive.Session.step s.ss toks
      ({ s with ss := p }, out)
    else if cmd.startsWith "dt." || cmd.startsWith "sc." || cmd.startsWith "tr." then
      let (p, out) := Drive.Detect.step s.dt toks
      ({ s with dt := p }, out)
    else (s, "bad-op")

partial def loop (h : IO.FS.Stream) (out : IO.FS.Stream) (s : DState) : IO Unit := do
  let line ← h.getLine
  if line.isEmpty then return ()
  let line := String.ofList (line.toList.filter (fun c => c != (Char.ofNat 10) && c != (Char.ofNat 13)))
  let (s', o) := dispatch s line
  out.putStrLn o
  loop h out s'

def main : IO Unit := do
  let stdin ← IO.getStdin
  let stdout ← IO.getStdout
  loop stdin stdout {}
