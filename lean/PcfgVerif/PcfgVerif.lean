import PcfgVerif.Lemmas.Adopt
import PcfgVerif.Lemmas.AdoptOrder
import PcfgVerif.Lemmas.Best
import PcfgVerif.Model.Omen
import PcfgVerif.Model.Grid
