#!/usr/bin/env python3
"""Re-run every stored seeded change (/verif/seeded/<name>/patch.diff) against /repo with the current checks:
apply, run the property's quick check (thorough too if quick stays silent), undo.  Records the outcome in
meta.json under "current" and prints the catch table.  usage: seed_rerun.py [name-prefix ...]"""
import json, os, tempfile, subprocess, sys, time
os.environ.setdefault('VERIF_EVIDENCE_DIR', __import__('tempfile').mkdtemp(prefix='pcfgverif-ev-', dir='/dev/shm' if os.path.isdir('/dev/shm') else None))
V = os.path.dirname(os.path.dirname(os.path.abspath(__file__)))
R = os.environ.get('VERIF_REPO', '/repo')
def sh(cmd, cwd=None, timeout=4000):
    p = subprocess.run(cmd, shell=True, cwd=cwd, capture_output=True, text=True, timeout=timeout)
    return p.returncode, (p.stdout + p.stderr)
names = sorted(os.listdir(os.path.join(V, 'seeded')))
if sys.argv[1:]:
    names = [n for n in names if any(n.startswith(a) for a in sys.argv[1:])]
rc, o = sh(f'git -C {R} status --porcelain')
if o.strip():
    print(R, 'is not clean'); sys.exit(2)
rows = []
for name in names:
    d = os.path.join(V, 'seeded', name)
    meta = json.load(open(os.path.join(d, 'meta.json')))
    pid = meta['property']
    rc, o = sh(f'git -C {R} apply {d}/patch.diff')
    if rc != 0:
        print(name, 'patch does not apply', o); continue
    cur = {}
    try:
        for tier in ('quick', 'thorough'):
            t = time.time()
            rc, o = sh(f'timeout 3000 ./check {pid} --tier {tier}', V)
            lines = [l[:160] for l in o.split('\n') if l.startswith('VIOLATION')]
            cur[tier] = {'exit': rc, 'violation_lines': lines[:2], 'wall_s': round(time.time() - t, 1)}
            if rc == 1:
                break
    finally:
        sh(f'git -C {R} checkout -- .')
        sh(f'/venv/bin/python {V}/harness/translate.py {R} {V}/lean/PcfgVerif/PcfgVerif/Generated')      # Generated/*.lean back to the tree as it is
    meta['current'] = cur
    json.dump(meta, open(os.path.join(d, 'meta.json'), 'w'), indent=1, ensure_ascii=False)
    caught = next((t for t in ('quick', 'thorough') if cur.get(t, {}).get('exit') == 1), 'MISSED')
    rows.append((name, pid, caught))
    print(f"{name:48s} {pid} {caught}", flush=True)
print('missed:', [r[0] for r in rows if r[2] == 'MISSED'])
