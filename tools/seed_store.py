#!/usr/bin/env python3
"""Confirm a seeded change in its own scratch worktree (demo exits 1 with the change, 0 without, tests pass) and store it under
/verif/seeded/<name>/ without running any check (tools/seed_rerun.py does that, e.g. from a snapshot via `vp run`).
usage: seed_store.py <worktree> <property> <name>"""
import json, os, shutil, subprocess, sys
wt, prop, name = sys.argv[1:4]
V = os.path.dirname(os.path.dirname(os.path.abspath(__file__)))
def sh(cmd, cwd=None, timeout=3600):
    p = subprocess.run(cmd, shell=True, cwd=cwd, capture_output=True, text=True, timeout=timeout)
    return p.returncode, (p.stdout + p.stderr)
sh('git checkout -- .', wt)
rc_clean, out_clean = sh('/venv/bin/python seed_demo.py', wt)
rc_ap, o_ap = sh('git apply seed_patch.diff', wt)
if rc_ap != 0:
    print(name, 'seed_patch.diff does not apply in its own worktree', o_ap); sys.exit(2)
rc_changed, out_changed = sh('/venv/bin/python seed_demo.py', wt)
rc_tests, out_tests = sh('/venv/bin/python -m pytest -q -p no:cacheprovider 2>&1 | tail -1', wt)
meta = {'property': prop, 'name': name, 'ran': [],
        'demo': {'changed_exit': rc_changed, 'clean_exit': rc_clean, 'tests': out_tests.strip(), 'changed_tail': out_changed.strip()[-300:], 'clean_tail': out_clean.strip()[-200:]}}
meta['confirmed'] = rc_changed == 1 and rc_clean == 0 and '75 passed' in out_tests
print(name, 'demo: changed exit', rc_changed, 'clean exit', rc_clean, '|', out_tests.strip())
if not meta['confirmed']:
    print('NOT CONFIRMED'); sh('git checkout -- .', wt); sys.exit(2)
d = os.path.join(V, 'seeded', name)
os.makedirs(d, exist_ok=True)
sh(f"git diff -- . ':!seed_demo.py' ':!seed_patch.diff' > {d}/patch.diff", wt)
shutil.copy(os.path.join(wt, 'seed_demo.py'), os.path.join(d, 'demo.py'))
sh('git checkout -- .', wt)
meta['what_it_needs'] = ''
json.dump(meta, open(os.path.join(d, 'meta.json'), 'w'), indent=1)
