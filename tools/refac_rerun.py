#!/usr/bin/env python3
"""Re-run every stored behaviour-preserving rewrite (/verif/harmless/<name>/patch.diff) against /repo with the current checks:
apply, run all quick checks, undo.  No check may alarm.  usage: refac_rerun.py [name-prefix ...]"""
import json, os, tempfile, subprocess, sys, time
os.environ.setdefault('VERIF_EVIDENCE_DIR', __import__('tempfile').mkdtemp(prefix='pcfgverif-ev-', dir='/dev/shm' if os.path.isdir('/dev/shm') else None))
V = os.path.dirname(os.path.dirname(os.path.abspath(__file__)))
R = os.environ.get('VERIF_REPO', '/repo')
def sh(cmd, cwd=None, timeout=4000):
    p = subprocess.run(cmd, shell=True, cwd=cwd, capture_output=True, text=True, timeout=timeout)
    return p.returncode, (p.stdout + p.stderr)
names = sorted(os.listdir(os.path.join(V, 'harmless')))
if sys.argv[1:]:
    names = [n for n in names if any(n.startswith(a) for a in sys.argv[1:])]
rc, o = sh(f'git -C {R} status --porcelain')
if o.strip():
    print(R, 'is not clean'); sys.exit(2)
ids = [c['property_id'] for c in json.load(open(os.path.join(V, 'MANIFEST.json')))['checks']]
bad = {}
for name in names:
    d = os.path.join(V, 'harmless', name)
    mp = os.path.join(d, 'meta.json')
    meta = json.load(open(mp)) if os.path.exists(mp) else {'name': name}
    ex = ' '.join(f"--exclude={e}" for e in meta.get('excluded', []))
    rc, o = sh(f'git -C {R} apply {ex} {d}/patch.diff')
    if rc != 0:
        print(name, 'patch does not apply', o[-300:]); continue
    res = {}
    try:
        for pid in ids:
            t = time.time()
            rc, o = sh(f'timeout 1500 ./check {pid} --tier quick', V)
            lines = [l[:200] for l in o.split('\n') if l.startswith('VIOLATION')]
            res[pid] = {'exit': rc, 'violations': lines[:2], 'wall_s': round(time.time() - t, 1)}
    finally:
        sh(f'git -C {R} checkout -- .')
        sh(f'/venv/bin/python {V}/harness/translate.py {R} {V}/lean/PcfgVerif/PcfgVerif/Generated')      # Generated/*.lean back to the tree as it is
        sh(f'git -C {R} clean -fdq -- lib_guesser lib_trainer lib_scorer lib_princeling')
    alarms = [p for p, r in res.items() if r['exit'] != 0]
    meta['current'] = {'results': res, 'alarms': alarms}
    json.dump(meta, open(mp, 'w'), indent=1)
    print(f"{name:32s} alarms: {alarms}", flush=True)
    if alarms:
        bad[name] = {p: res[p]['violations'] for p in alarms}
print('rewrites with alarms:', json.dumps(bad, indent=1))
