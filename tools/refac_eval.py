#!/usr/bin/env python3
"""Run every quick check against a behaviour-preserving refactoring (a patch made by an agent in a scratch worktree):
no check may alarm.  usage: refac_eval.py <worktree> <name> [--exclude path ...]"""
import json, os, shutil, subprocess, sys, time
wt, name = sys.argv[1:3]
excl = [a for a in sys.argv[3:] if not a.startswith('--')]
V = '/verif'
def sh(cmd, cwd=None, timeout=4000):
    p = subprocess.run(cmd, shell=True, cwd=cwd, capture_output=True, text=True, timeout=timeout)
    return p.returncode, (p.stdout + p.stderr)
d = os.path.join(V, 'harmless', name)
os.makedirs(d, exist_ok=True)
shutil.copy(os.path.join(wt, 'refac_patch.diff'), os.path.join(d, 'patch.diff'))
ex = ' '.join(f"--exclude={e}" for e in excl)
rc, o = sh(f'git -C /repo apply {ex} {d}/patch.diff')
if rc != 0:
    print('patch does not apply:', o[-400:]); sys.exit(2)
res = {}
try:
    rc, o = sh('/venv/bin/python -m pytest -q -p no:cacheprovider 2>&1 | tail -1', '/repo')
    print('tests:', o.strip())
    ids = [c['property_id'] for c in json.load(open(os.path.join(V, 'MANIFEST.json')))['checks']]
    for pid in ids:
        t = time.time()
        rc, o = sh(f'timeout 1500 ./check {pid} --tier quick', V)
        lines = [l[:160] for l in o.split('\n') if l.startswith('VIOLATION')]
        ev = json.load(open(os.path.join(V, 'evidence', f'{pid}.json')))
        notes = [n for n in (ev.get('tie_notes') or ev.get('notes') or []) if 'restructured' in str(n)] if isinstance(ev, dict) else []
        res[pid] = {'exit': rc, 'violations': lines[:2], 'wall_s': round(time.time() - t, 1)}
        print(pid, 'exit', rc, lines[:1], flush=True)
finally:
    sh('git -C /repo checkout -- .')
    sh('git -C /repo clean -fdq -- lib_guesser lib_trainer lib_scorer lib_princeling')
alarms = [p for p, r in res.items() if r['exit'] != 0]
json.dump({'name': name, 'excluded': excl, 'results': res, 'alarms': alarms}, open(os.path.join(d, 'meta.json'), 'w'), indent=1)
print('alarms:', alarms)
