#!/bin/sh
# usage: tools/with_seed.sh <seeded-or-harmless-name> <check-id> [tier]   — apply the stored patch to /repo, run the check, undo
V="$(cd "$(dirname "$0")/.." && pwd)"
d="$V/seeded/$1"; [ -d "$d" ] || d="$V/harmless/$1"
git -C /repo apply "$d/patch.diff" || exit 2
( cd "$V" && ./check "$2" --tier "${3:-quick}" 2>&1 | grep -E "VIOLATION|KNOWN|quick:|thorough:" | cut -c1-300 )
git -C /repo checkout -- . ; git -C /repo clean -fdq -- lib_guesser lib_trainer lib_scorer lib_princeling
