#!/usr/bin/env python3
"""Evaluate one seeded change: confirm its demonstration in its scratch worktree, store it under
/verif/seeded/<name>/, apply it to /repo, run the property's check (quick, then thorough if quick is
silent), undo.  usage: seed_eval.py <worktree> <property> <name> [extra-property ...]"""
import json, os, tempfile, shutil, subprocess, sys, time
os.environ.setdefault('VERIF_EVIDENCE_DIR', __import__('tempfile').mkdtemp(prefix='pcfgverif-ev-', dir='/dev/shm' if os.path.isdir('/dev/shm') else None))
wt, prop, name = sys.argv[1:4]
extra = sys.argv[4:]
V = '/verif'
def sh(cmd, cwd=None, timeout=3600):
    p = subprocess.run(cmd, shell=True, cwd=cwd, capture_output=True, text=True, timeout=timeout)
    return p.returncode, (p.stdout + p.stderr)
meta = {'property': prop, 'name': name, 'ran': []}
# 1. confirm the demonstration
# (git stash is shared between worktrees: toggle the change with the worktree's own patch instead)
sh('git checkout -- .', wt)
rc_clean, out_clean = sh('/venv/bin/python seed_demo.py', wt)
rc_ap, o_ap = sh('git apply seed_patch.diff', wt)
if rc_ap != 0:
    print('seed_patch.diff does not apply in its own worktree', o_ap); sys.exit(2)
rc_changed, out_changed = sh('/venv/bin/python seed_demo.py', wt)
rc_tests, out_tests = sh('/venv/bin/python -m pytest -q -p no:cacheprovider 2>&1 | tail -1', wt)
meta['demo'] = {'changed_exit': rc_changed, 'clean_exit': rc_clean, 'tests': out_tests.strip(), 'changed_tail': out_changed.strip()[-300:], 'clean_tail': out_clean.strip()[-200:]}
confirmed = rc_changed == 1 and rc_clean == 0 and '75 passed' in out_tests
meta['confirmed'] = confirmed
print('demo: changed exit', rc_changed, 'clean exit', rc_clean, '|', out_tests.strip())
if not confirmed:
    print('NOT CONFIRMED'); print(out_changed[-500:]); print(out_clean[-300:])
    sys.exit(2)
d = os.path.join(V, 'seeded', name)
os.makedirs(d, exist_ok=True)
sh(f"git diff -- . ':!seed_demo.py' ':!seed_patch.diff' > {d}/patch.diff", wt)
shutil.copy(os.path.join(wt, 'seed_demo.py'), os.path.join(d, 'demo.py'))
# 2. run the checks against it
rc, o = sh(f'git -C /repo apply {d}/patch.diff')
if rc != 0:
    print('patch does not apply to /repo', o); sys.exit(2)
try:
    results = {}
    for pid in [prop] + extra:
        t = time.time()
        rc, o = sh(f'timeout 1500 ./check {pid} --tier quick', V)
        lines = [l for l in o.split('\n') if l.startswith(('VIOLATION', 'KNOWN-FINDING'))]
        summary = [l for l in o.split('\n') if f'{pid} quick' in l]
        results[pid] = {'tier': 'quick', 'exit': rc, 'lines': [l[:200] for l in lines[:3]], 'summary': summary[-1:] , 'wall_s': round(time.time() - t, 1)}
        print(pid, 'quick exit', rc, lines[:2], summary[-1:])
        if rc == 0:
            t = time.time()
            rc, o = sh(f'timeout 3000 ./check {pid} --tier thorough', V, timeout=4000)
            lines = [l for l in o.split('\n') if l.startswith(('VIOLATION', 'KNOWN-FINDING'))]
            results[pid + '-thorough'] = {'tier': 'thorough', 'exit': rc, 'lines': [l[:200] for l in lines[:3]], 'wall_s': round(time.time() - t, 1)}
            print(pid, 'thorough exit', rc, lines[:2])
    meta['checks'] = results
    meta['caught_by'] = [k for k, v in results.items() if v['exit'] == 1]
finally:
    sh('git -C /repo checkout -- .')
    sh('/venv/bin/python /verif/harness/translate.py /repo /verif/lean/PcfgVerif/PcfgVerif/Generated')
    sh('git -C /repo clean -fdq -- lib_guesser lib_trainer lib_scorer lib_princeling')
meta['what_it_needs'] = ''
json.dump(meta, open(os.path.join(d, 'meta.json'), 'w'), indent=1)
print('caught by:', meta['caught_by'])
