#!/usr/bin/env python3
"""Print the prompt given to a fresh sub-agent for one seeded-change request.
usage: seed_prompt.py <property-id> <worktree>   (nothing from /verif but the property text is passed on)"""
import json, os, re, sys, glob
pid, wt = sys.argv[1:3]
V = os.path.dirname(os.path.dirname(os.path.abspath(__file__)))
prop = next(json.loads(l) for l in open(os.path.join(V, 'properties.jsonl')) if json.loads(l)['id'] == pid)
used = []
for d in sorted(glob.glob(os.path.join(V, 'seeded', pid + '*'))):
    cur = None
    for ln in open(os.path.join(d, 'patch.diff'), encoding='utf-8', errors='replace'):
        if ln.startswith('+++ b/'):
            cur = ln[6:].strip()
        m = re.match(r'@@.*@@\s*(?:def|class)\s+(\w+)', ln)
        if m and cur:
            used.append(f'{cur}:{m.group(1)}')
        elif ln.startswith('@@') and cur:
            used.append(cur)
used = sorted(set(used))
print(f"""You are helping to test a verification framework for the open-source project lakiw/pcfg_cracker (a PCFG password-guess generator: a trainer that segments leaked passwords into a probabilistic grammar, a guesser that enumerates guesses in probability order, a scorer, PRINCE-LING and edit_rules). You have your own scratch git worktree of the project at {wt} — work ONLY inside that directory: never read, list or modify anything under /repo or /verif (they do not concern you), never commit. Python is /venv/bin/python; the project's test suite is run with `cd {wt} && /venv/bin/python -m pytest -q -p no:cacheprovider` (75 tests, all must still pass).

Here is one semantic property the project is supposed to satisfy (JSON record):

{json.dumps(prop, indent=1, ensure_ascii=False)}

YOUR TASK: produce ONE realistic change to the project's source (the kind of regression a well-meaning contributor could introduce: an optimisation, a refactoring that is almost behaviour-preserving, a tidy-up of a boundary condition, a caching shortcut, an API modernisation, two sites that each look fine alone ...) that BREAKS this property while the code still imports/compiles and all 75 existing tests still pass.

Requirements for the change:
 * It must need something SPECIFIC to manifest — a particular interleaving, a crash/quit at a particular point, a multi-step sequence of operations, an unusual input (tie pattern, boundary length, particular Unicode class, particular file layout), or two cooperating sites — NOT something that ordinary use or a trivial smoke run would expose at once. On most inputs the changed program must behave exactly like the original.
 * It must be small (typically 1-15 changed lines) and plausible; no sabotage that a reviewer would reject at sight, no random numbers, no time bombs, no environment checks.
 * Earlier rounds already used these places for this property, so pick a DIFFERENT function/mechanism (another anchor of the property, or glue code around it: option handling, file handling, conversions, save/restore fields, loop bounds, caches ...): {', '.join(used) if used else '(none)'}.
 * {os.environ.get('SEED_HINT', 'Any of the kinds above is welcome.')}
 * Read the relevant code first and make sure the property really holds for your demonstration input on the UNCHANGED code.

Deliverables, both as untracked files in the root of {wt}:
 1. `seed_patch.diff` — the change as a unified diff produced with `git diff` inside the worktree (only project source files; it must apply with `git apply seed_patch.diff` on a clean checkout of the worktree).
 2. `seed_demo.py` — a self-contained demonstration run as `cd {wt} && /venv/bin/python seed_demo.py`: it exercises the real code of the worktree (import it or run the CLIs as subprocesses; create any rulesets/training files it needs in a temporary directory and clean up), checks the property on the specific input, prints a short PASS/FAIL explanation, and exits 0 when the property holds and 1 when it is violated. It must exit 0 on the unchanged worktree and exit 1 with your patch applied. It must be deterministic and finish within a minute or two.

Procedure: write the change, save the diff, verify: (a) `git checkout -- .` then demo exits 0; (b) `git apply seed_patch.diff` then demo exits 1 and the 75 tests pass. Leave the worktree with the patch NOT applied (`git checkout -- .`) but with the two untracked files present.

In your final answer report: the file/function changed, what the change needs in order to manifest (one or two sentences), and the exit codes you observed for (a) and (b) and the pytest summary line.""")
