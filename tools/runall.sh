#!/bin/sh
# run every claimed quick check on the current tree (evidence is rewritten); prints a summary
cd "$(dirname "$0")/.."
fail=0
for id in $(python3 -c "import json;print(' '.join(c['property_id'] for c in json.load(open('MANIFEST.json'))['checks']))"); do
  ./check $id --tier ${1:-quick} > /tmp/runall_$id.out 2> /tmp/runall_$id.err; rc=$?
  tail -1 /tmp/runall_$id.err
  grep -h "VIOLATION" /tmp/runall_$id.out
  [ $rc -ne 0 ] && fail=1
done
exit $fail
