#!/usr/bin/env python3
"""Writes MANIFEST.json from the table below (kept in one place so it always validates)."""
import json, os
HERE = os.path.dirname(os.path.dirname(os.path.abspath(__file__)))
props = [json.loads(l) for l in open(os.path.join(HERE, 'properties.jsonl'))]

CLAIMED = {
    'C01': dict(design='§6 C01', technique='Lean 4 proof (invariant over all reachable queue states, any PAlg) + trace validation of PcfgQueue',
                text='Theorems over the Lean model of find_children/_are_you_my_child/_find_prob/PcfgQueue.next for every well-formed grid, every heap tie-breaking and every prefix; decision fragments regenerated from the source on each run; every pop of the real queue validated against the model.',
                note='binary64: PAlg laws proved for the model SF (monotone correctly rounded product; C01_order_binary64), CPython float = SF compared bit for bit each run; heapq trusted; trainer-written lists load into well-formed columns (C07_trained_column_wf); C01_omen_prob_file_sorted (writer loops regenerated: the Markov column is written through most_common()); trained rulesets checked file by file for order; C01_trained_order: no well-formedness hypothesis for grids whose columns were loaded from trainer-written files (TrainedCols)'),
    'C02': dict(design='§6 C02', technique='Lean 4 proof (order-independent adoption invariant by induction over pops) + trace validation incl. heap contents',
                text='Exactly-once/none-skipped proved for every well-formed grid and every intermediate state via the adoption-system invariant; real heap compared with the model multiset after every pop.',
                note='same trusted base as C01; C02_exactly_once_binary64 (doubles, no float hypothesis), C02_language (multiset of expansions); base structures compared with an independent tokenisation of grammar.txt; C02_trained_exactly_once (same, for trained grids)'),
    'C04': dict(design='§6 C04', technique='Lean 4 proof (recGuesses = product of groups, structural induction) + exact output diff of create_guesses',
                text='The model of _recursive_guesses is proved equal to the product-of-groups specification with count = lines; limit fragments regenerated from source; real create_guesses output compared line by line.',
                note='str.upper per character is a parameter; OMEN level content is C10'),
    'C07': dict(design='§6 C07', technique='Lean 4 proof (writer/loader round trip over code-point strings) + generated check_valid table + exhaustive Unicode table validation + real writer/3 loaders',
                text='Round-trip theorems for the guesser and scorer loaders over every clean value; key lemma decided over the rejected-code-point table extracted from check_valid; line-boundary/whitespace tables validated against the interpreter over all code points each run. A sorted clean list file loads into a well-formed column (C07_trained_column_wf: trainer -> file -> guesser over binary64); a saved folder holds exactly the files the config lists, for every previous content (C07_folder_is_filename_list), and each config section takes its list from the counter the writer saves there (C07_config_sources, generated from config_file.py / save_pcfg_data.py).',
                note='codec internals, float repr round trip, configparser/json are runtime; C07_last_listed_file_wins (Model/LoadMulti.lean, ld.multi stream), C07_trained_folder_loads; C07_omen_files_load: the OMEN files of a trained ruleset load and the loaded tables answer every look-up like toTables (Model/OmenFiles.lean), C07_find_cp_reads_lookups, C07_omen_level_out_of_range'),
    'C08': dict(design='§6 C08', technique='Lean 4 proof (restore walk = roots of the sub-system of nodes ≤ saved probability) + trace validation from every cut point',
                text='Resume emits exactly the nodes of probability ≤ the saved value, once each, in order; nothing lost, repeats only tied; proved for all grids / cut values / tie patterns; real restore compared with the model at cut points.',
                note='C08_resume_binary64 for doubles (saved minimum 0.0 discharged); session file I/O (configparser float round-trip) trusted; multi-cycle histories reduce to the single saved float; C08_trained_resume (same, for trained grids)'),
    'C09': dict(design='§6 C09', technique='Lean 4 proof (limit = take n, across pre-terminal, mask loop, Markov level, session loop) + generated print-site table (decide) + subprocess stdout diff',
                text='Static: every output call site regenerated from source, only print_guess may reach stdout (decide). Dynamic: limit theorems for all N; CLI stdout compared byte for byte.',
                note='OS pipe behaviour; AST scan finds print/sys.stdout.write/traceback sites only; argparse print_usage/print_help and any sys.stdout call other than write/flush count as stdout sites; other modes run with every neighbouring option'),
    'C10': dict(design='§6 C10', technique='Lean 4 proof (refinement of the backtracking enumerator to a specification list; cursor coverage) + exact sequence diff of MarkovCracker',
                text='level_exact: the generator emits exactly the strings of the level, once, then exhaustion, for every well-formed table; real MarkovCracker sequences (fresh and warmed shared cache) equal the model and a brute-force level set.',
                note='memo table: C10_cache_independent / C10_cache_history (fillC = fill for every table of true results) + C10_cache_sites (all optimizer calls sit in _fill_out_parse_tree with key (ip, length, target), regenerated from source) + direct correspondence of the table contents; C10_memo_table_per_object (the only Optimizer construction site is the body of PcfgGrammar.__init__, regenerated from source); tables and memo table also taken from PcfgGrammar objects built one after the other'),
    'C14': dict(design='§6 C14', technique='Lean 4 proof (loadBase skip = filter + rescale; case insertion) + loader correspondence + stream comparison + CLI save/restore',
                text='Loader theorems for every grammar.txt text incl. no-M; streams compared exactly where 1-P(M) is a power of two; flags through --load by subprocess.',
                note='C14_order_preserved: over exact rationals rescaling preserves every comparison, so with C01/C02 the skip_brute stream is the default stream without Markov pre-terminals; over doubles up to rounding of the rescaling (checked exactly where 1-P(M) is a power of two); C14_load_takes_saved_flags (every program_info write of pcfg_guesser.py regenerated); --load with flags the session was not started with'),
    'C16': dict(design='§6 C16', technique='Lean 4 proof (pick = interval characterisation for every draw; membership; count) + scripted-draw correspondence at every breakpoint ±1 ulp',
                text='Draws are universally quantified model inputs; selected index iff draw in (S_{j-1}, S_j]; every word in the product of the selected groups; exactly N words.',
                note='C16_uniform_count: with integer weights exactly ws[j] of the sum(ws) equally spaced draws select index j (counting measure; replaces the on-paper step); Mersenne Twister determinism trusted; the program itself on ISO-8859-1 / cp1251 rulesets with a UTF-8 consumer'),
    'C17': dict(design='§6 C17', technique='Lean 4 proof (princeLoop size = take N; C01/C02 on the Prince grid) + subprocess diff for every N inside tie groups',
                text='--size theorem for all N and pop sequences; order/each-once from the PQ theorems; stdout vs -o file vs in-process stream.',
                note='same trusted base as C01/C04/C09; C17_binary64 instance'),
    'C03': dict(design='§6 C03', technique='Lean 4 proof (case insertion + product-of-groups language: every training parse is a derivation; emitted mass = 1 over Rat) + real train→guess runs with an independent reparse oracle',
                text='Theorems: the loader gives every alpha slot its capitalisation slot (all positions, any structure); the password of a training parse is in the product specification of its pre-terminal; every pre-terminal is emitted (C02); mass over Rat sums to 1. Real trainer + real guesser on generated lists: every supported training password appears, probability mass equals 1 up to rounding.',
                note='which parse the trainer chooses is C05; float mass compared with tolerance; multiword detector threshold is runtime data; C03_trained_reproduced: the listing hypothesis is discharged from Model/Trainer.lean (every tally of a list password is >= 1, so count/total is not zero); prefixcount layout with leading-space passwords judged against the generated list; C03_trained_end_to_end: Agree is a theorem (trained_agree); C03_view_columns_are_loaded / C03_view_bases_are_loaded / C03_trained_ruleset_loads: the view is what the loader models return on the trainer\'s files, folders and file names included'),
    'C05': dict(design='§6 C05', technique='Lean 4 proof (tiling invariant of every detector stage and of the whole pipeline for any Unicode database that preserves length under the detectors\' lower-casing) + correspondence of all detectors on generated passwords',
                text='Theorems: for every input and every Unicode environment with length-preserving lower-casing the keyboard/e-mail/website/year/context/alpha/digit/other stages keep a tiling of the password, every section ends labelled, labels carry the section length, keyboard sections are single-layout walks of >= 4 keys. Detector tables (layouts, TLDs, year prefixes, context list) regenerated from the source each run; the real detectors compared section by section.',
                note='CPython Unicode database enters as a parameter (validated per code point for the letters used; the alpha-position law of C05_other_sound over all code points each run); multiword trie contents are data. C05_other_sound: the detector loops run to their end with the pipeline fuel - other segments contain no letter and no digit; C05_len_indexed_counters: the length-indexed counters are tallies (model of _update_counter_len_indexed driven against the real method)'),
    'C13': dict(design='§6 C13, §11.3', technique='Lean 4 proof (the promise: non-zero score = probability of a pre-terminal of the guesser\'s grammar that emits the string, via coherence of the parser\'s lists with its sections + the C07 loader round trips + the C03 derivation lemma; e-mail/website ⇒ 0) + real scorer vs model (bit-exact) and vs real guesser enumeration',
                text='C13_promise: for every password, Unicode environment with length-preserving lower-casing and one-to-one case mapping on the password (CaseInvAll), ruleset views loaded from the same files (Agree; shown for the loader models by C13_same_files) and any commutative probability monoid: score ≠ 0 ⇒ ∃ base structure and group indices with _find_prob = score and the password in productSpec. C13_coherent: the scorer\'s lists are the labelled sections\' texts. C13_email_web_zero. Where CaseInvAll fails the promise fails on the real code (recorded known finding).',
                note='exact arithmetic in the theorem; over doubles the two products differ by rounding (harness tolerance 1e-12 relative); OMEN level scoring is C11; the scorer\'s own multi-word table is data (any table, universally quantified); C13_trained_promise: the promise for every candidate string against every trained ruleset, Agree discharged'),
    'C06': dict(design='§6 C06', technique='Lean 4 proof (calcProbs: permutation, count/total, stable sort, sum = 1 over Rat, Markov share) + bit-exact correspondence + file-by-file recomputation',
                text='Theorems for every counter; real calculate_probabilities compared bit for bit; every list file of real trainings equals the independently recomputed relative-frequency list of the real parser counters; determinism across hash seeds.',
                note='C06_sorted_binary64: the written doubles are non-increasing in file order (correctly rounded count/total is monotone in the count; model SF.ratio compared bit for bit with CPython int/int and float/float each run); float sums differ from 1 by rounding only; which items reach which counter is C05; re-training over an existing rule directory exercised; C06_cli_passes_coverage (trainer.py option glue regenerated); trainer.py run as a program with --coverage as typed'),
    'C12': dict(design='§6 C12, App. B', technique='Lean 4 proof (two-actor state machine, induction over all schedules and stdin scripts) + real two-thread runs under a scripted baton + 8 real stdin kinds (incl. pseudo-terminal)',
                text='For every schedule and stdin script: output is a prefix of the stream; complete unless q was read; exit only after q, saved, at a boundary. Quit-test source generated from the code. Real CrackingSession/keypress driven deterministically and compared with the model.',
                note='OS scheduling and input() per stdin kind observed, not proved; GIL atomicity trusted'),
    'C15': dict(design='§6 C15, App. B', technique='Lean 4 proof (exit/resume exactness for arbitrary starting files, no-replay, enumerator state split) + scripted quits at every guess position with 2-3 resume cycles',
                text='printed ++ remaining(files left) = remaining(start) for every schedule; option removed after the restored level; real sessions quit at each j and resumed, concatenation = uninterrupted stream.',
                note='pickle/configparser round trips trusted; quit inside the very last Markov pre-terminal is a recorded known finding (C15_last_unit_loss shows the excluded point in the model). The state machine yields before every call of the OMEN generator (the end-of-level window is a schedule); C15_session_files_injective + C15_file_name_expressions: different session names never share a .sav / .omn file (name expressions regenerated from source); the program itself is quit by a typed q inside a Markov level and resumed; every .sav/.omn expression of the guesser regenerated (C15_file_name_expressions); quit session named <tag>.sav'),
    'C11': dict(design='§6 C11', technique='Lean 4 proof (scorer = trainer = levelOf over loaded tables; with C10: guesser emits s at L iff trainer level L) + correspondence of the three real implementations',
                text='find_omen_level, OmenScorer.parse and the real MarkovCracker agree with each other and with the model on training, perturbed and boundary strings; guesser side proved exact in C10. C11_guesser_from_files: the same statement for the tables the model of the guesser\'s load_rules builds from the records the trainer writes to IP/CP/LN.level (no closed form in between).',
                note='smoothing (log/floor) modelled not verified: levels are inputs; the loader model (Model/OmenFiles.lean) is compared with the real load_rules on every trained ruleset (of.load: rows per level, dict insertion order)'),
    'C18': dict(design='§6 C18, §11.8', technique='Lean 4 proof (levelKeyspace = number of emitted guesses; recursion = tree count; memo = recursion; listing spec; third pass and saved probability over the trainer and generator models) + the whole real trainer compared bit for bit with the model + count comparison with the real generator',
                text='Saved keyspace = number of guesses per level for the real generator and the model, also over the tables the loader model builds from the files (C18_keyspace_from_files). C18_saved_probability: every line of pcfg_omen_prob is (training passwords the generator emits at the level / N) / (strings it emits there); C18_counted_level_listed, C18_mass_le_one, C18_prob_file_sorted_binary64.',
                note='levels too large to enumerate are covered by the model only; omen_pws_per_level.txt and pcfg_omen_prob.txt of a whole run_trainer are compared line by line and bit by bit with Model/OmenProb.lean (ot.third / ot.probs)'),
    'C19': dict(design='§6 C19', technique='Lean 4 proof (readLine: hex = plain, count = repeats, skips, no leak, fold) + reader correspondence + trained-ruleset comparison',
                text='Theorems for all lines / passwords / counts with int(), hex-decode and encode as parameters; real read_password sequences compared with the model; rulesets trained from the three encodings compared file by file.',
                note='codec internals and int() are runtime parameters; C19_only_totals_reach_the_ruleset (reader attribute uses regenerated); zero-count lines'),
    'C20': dict(design='§6 C20, §11.4', technique='Lean 4 proof (three filters = List.filter on rows, tokens = labels; the length promise: every guess of a kept structure within the bounds, a removed structure has a guess outside) + exact text diff of edit_rules + directory hashes + every guess of edited complete rulesets produced by the real guesser',
                text='Filter theorems for all well-formed grammar files, options and context-value lengths; C20_guess_lengths / C20_only_failing_removed relate the (shortest, longest) label arithmetic to the guess lengths; real edit_rules output compared byte for byte with the model; other files hashed; real guesses before and after editing checked against the bounds. C20_only_grammar_written: the table of every file-system mutation in edit_rules.py is regenerated from the source each run - one copytree and one write-open of Grammar/grammar.txt, re-bound to the copy under --copy (decide).',
                note='user regex abstract; letters whose upper-casing is longer than one character (ß → SS) under a U mask are a recorded known finding (C20_case_expansion_witness)'),
}
NOT_YET = 'check not built yet in this round (machinery under construction); see DESIGN.md §6'

checks, na = [], []
for p in props:
    pid = p['id']
    if pid in CLAIMED:
        c = CLAIMED[pid]
        checks.append({
            'property_id': pid,
            'quick_cmd': f'./check {pid} --tier quick',
            'thorough_cmd': f'./check {pid} --tier thorough',
            'evidence_file': f'evidence/{pid}.json',
            'replay_cmd_template': f'./check {pid} --replay {{path}}',
            'engine': 'lean4-proof+correspondence',
            'level_claimed': {'category': 'proof', 'text': c['text'], 'design_ref': c['design']},
            'level_note': c['note'],
            'technique': c['technique'],
        })
    else:
        na.append({'property_id': pid, 'reason': NOT_YET})
m = {
    'version': 1,
    'setup_cmd': './setup.sh',
    'hooks': {'guard': 'PCFG_CRACKER_VERIF', 'enable': 'no source hooks: the harness imports a snapshot of the working tree and monkey-patches from outside',
              'baseline_off_cmd': 'cd /repo && /venv/bin/python -m pytest -q -p no:cacheprovider', 'source_commits': [], 'add_only': True},
    'engines': [{'name': 'lean4-proof+correspondence', 'path': 'lean/PcfgVerif', 'serves_properties': [c['property_id'] for c in checks],
                 'kind_free_text': 'Lean 4 theorems over a model whose decision fragments are regenerated from the Python source each run (harness/translate.py), plus a line-protocol correspondence between the compiled Lean driver and the real code'}],
    'checks': checks,
    'not_applicable': na,
    'notes': 'All checks share ./check; timeouts/infrastructure failures exit 2. known_findings.json lists recorded defects.',
}
json.dump(m, open(os.path.join(HERE, 'MANIFEST.json'), 'w'), indent=1)
print(len(checks), 'checks,', len(na), 'not applicable')
