#!/usr/bin/env python3
"""Writes MANIFEST.json from the table below (kept in one place so it always validates)."""
import json, os
HERE = os.path.dirname(os.path.dirname(os.path.abspath(__file__)))
props = [json.loads(l) for l in open(os.path.join(HERE, 'properties.jsonl'))]

CLAIMED = {
    'C01': dict(design='§6 C01', technique='Lean 4 proof (invariant over all reachable queue states, any PAlg) + trace validation of PcfgQueue',
                text='Theorems over the Lean model of find_children/_are_you_my_child/_find_prob/PcfgQueue.next for every well-formed grid, every heap tie-breaking and every prefix; decision fragments regenerated from the source on each run; every pop of the real queue validated against the model.',
                note='IEEE monotone rounding and heapq trusted; loader behaviour covered by C07/C14 models'),
    'C02': dict(design='§6 C02', technique='Lean 4 proof (order-independent adoption invariant by induction over pops) + trace validation incl. heap contents',
                text='Exactly-once/none-skipped proved for every well-formed grid and every intermediate state via the adoption-system invariant; real heap compared with the model multiset after every pop.',
                note='same trusted base as C01'),
    'C08': dict(design='§6 C08', technique='Lean 4 proof (restore walk = roots of the sub-system of nodes ≤ saved probability) + trace validation from every cut point',
                text='Resume emits exactly the nodes of probability ≤ the saved value, once each, in order; proved for all grids / cut values / tie patterns; real restore compared with the model at cut points.',
                note='session file I/O (configparser float round-trip) trusted; multi-cycle histories reduce to the single saved float'),
}
NOT_YET = 'check not built yet in this round (machinery under construction); see DESIGN.md §6'

checks, na = [], []
for p in props:
    pid = p['id']
    if pid in CLAIMED:
        c = CLAIMED[pid]
        checks.append({
            'property_id': pid,
            'quick_cmd': f'./check {pid} --tier quick',
            'thorough_cmd': f'./check {pid} --tier thorough',
            'evidence_file': f'evidence/{pid}.json',
            'replay_cmd_template': f'./check {pid} --replay {{path}}',
            'engine': 'lean4-proof+correspondence',
            'level_claimed': {'category': 'proof', 'text': c['text'], 'design_ref': c['design']},
            'level_note': c['note'],
            'technique': c['technique'],
        })
    else:
        na.append({'property_id': pid, 'reason': NOT_YET})
m = {
    'version': 1,
    'setup_cmd': './setup.sh',
    'hooks': {'guard': 'PCFG_CRACKER_VERIF', 'enable': 'no source hooks: the harness imports a snapshot of the working tree and monkey-patches from outside',
              'baseline_off_cmd': 'cd /repo && /venv/bin/python -m pytest -q -p no:cacheprovider', 'source_commits': [], 'add_only': True},
    'engines': [{'name': 'lean4-proof+correspondence', 'path': 'lean/PcfgVerif', 'serves_properties': [c['property_id'] for c in checks],
                 'kind_free_text': 'Lean 4 theorems over a model whose decision fragments are regenerated from the Python source each run (harness/translate.py), plus a line-protocol correspondence between the compiled Lean driver and the real code'}],
    'checks': checks,
    'not_applicable': na,
    'notes': 'All checks share ./check; timeouts/infrastructure failures exit 2. known_findings.json lists recorded defects.',
}
json.dump(m, open(os.path.join(HERE, 'MANIFEST.json'), 'w'), indent=1)
print(len(checks), 'checks,', len(na), 'not applicable')
