#!/bin/sh
# manual build helper: regenerate Generated/*.lean from the current /repo tree, then build the given targets under the checks' lock
cd "$(dirname "$0")/.."
/venv/bin/python harness/translate.py "${VERIF_REPO:-/repo}" lean/PcfgVerif/PcfgVerif/Generated > /dev/null 2>&1
cd lean/PcfgVerif && flock /verif/.locks/lake.lock lake build "$@" 2>&1 | grep -v "^✔\|^ℹ\|Replayed"
