#!/bin/sh
# run every quick check under several VERIF_SEED values on the current tree; any non-zero exit or VIOLATION line is reported
cd "$(dirname "$0")/.."
bad=0
for seed in ${SEEDS:-1 2 3 4 5 6}; do
  for id in $(python3 -c "import json;print(' '.join(c['property_id'] for c in json.load(open('MANIFEST.json'))['checks']))"); do
    out=$(VERIF_SEED=$seed ./check $id --tier ${1:-quick} 2>&1); rc=$?
    if [ $rc -ne 0 ] || echo "$out" | grep -q "^VIOLATION"; then
      bad=1; echo "seed=$seed $id rc=$rc"; echo "$out" | grep -E "VIOLATION|quick:|thorough:" | cut -c1-300
      mkdir -p sweep_replays; for r in $(echo "$out" | grep -o "replays/[A-Za-z0-9_.-]*json"); do cp "$r" sweep_replays/ 2>/dev/null; done
    fi
  done
  echo "seed $seed done"
done
exit $bad
