#!/usr/bin/env python3
"""Print python sources without docstrings, comments and blank lines (reading aid)."""
import ast, sys
def strip(path):
    src = open(path, encoding='utf-8').read()
    tree = ast.parse(src)
    doc = set()
    for n in ast.walk(tree):
        if isinstance(n, (ast.FunctionDef, ast.ClassDef, ast.Module)):
            b = n.body
            if b and isinstance(b[0], ast.Expr) and isinstance(getattr(b[0], 'value', None), ast.Constant) and isinstance(b[0].value.value, str):
                doc.update(range(b[0].lineno, b[0].end_lineno + 1))
    for i, l in enumerate(src.split('\n'), 1):
        s = l.strip()
        if i in doc or not s or s.startswith('#'):
            continue
        print(f"{i:4d} {l}")
for p in sys.argv[1:]:
    print('=====', p)
    strip(p)
