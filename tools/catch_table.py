#!/usr/bin/env python3
"""Rewrite the seeded-change table of DESIGN.md (between the CATCH-TABLE markers) from seeded/*/meta.json."""
import json, os, re
V = os.path.dirname(os.path.dirname(os.path.abspath(__file__)))
rows = ['| seeded change | property | needs, to show | first run of the checks as they were | checks now |', '|---|---|---|---|---|']
for n in sorted(os.listdir(os.path.join(V, 'seeded'))):
    m = json.load(open(os.path.join(V, 'seeded', n, 'meta.json')))
    first = ', '.join(m.get('caught_by') or []) or 'missed'
    cur = m.get('current', {})
    now = next((f"{m['property']} {t}" for t in ('quick', 'thorough') if cur.get(t, {}).get('exit') == 1), 'missed' if cur else 'n/a')
    rows.append(f"| `{n}` | {m['property']} | {m.get('what_it_needs', '')} | {first} | {now} |")
p = os.path.join(V, 'DESIGN.md')
s = open(p).read()
s = re.sub(r'(<!-- CATCH-TABLE-BEGIN -->\n).*?(<!-- CATCH-TABLE-END -->)', lambda mo: mo.group(1) + '\n'.join(rows) + '\n' + mo.group(2), s, flags=re.S)
open(p, 'w').write(s)
print(len(rows) - 2, 'rows')
