#!/bin/sh
# one-time build after a fresh restore (offline): regenerate Generated/*.lean from /repo, build everything
set -e
DIR="$(cd "$(dirname "$0")" && pwd)"
PY=/venv/bin/python; [ -x "$PY" ] || PY=python3
"$PY" "$DIR/harness/translate.py" "${VERIF_REPO:-/repo}" "$DIR/lean/PcfgVerif/PcfgVerif/Generated" > /dev/null || true
cd "$DIR/lean/PcfgVerif" && lake build
# build every property module (and the driver) now, so that the first run of each check is incremental
lake build driver $(for i in 01 02 03 04 05 06 07 08 09 10 11 12 13 14 15 16 17 18 19 20; do printf 'PcfgVerif.Properties.C%s ' $i; done)
