#!/bin/sh
# one-time build after a fresh restore (offline): regenerate Generated/*.lean from /repo, build everything
set -e
DIR="$(cd "$(dirname "$0")" && pwd)"
PY=/venv/bin/python; [ -x "$PY" ] || PY=python3
"$PY" "$DIR/harness/translate.py" "${VERIF_REPO:-/repo}" "$DIR/lean/PcfgVerif/PcfgVerif/Generated" > /dev/null || true
cd "$DIR/lean/PcfgVerif" && lake build
