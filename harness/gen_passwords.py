"""Generator of training lists that interleave the detectors' trigger patterns."""

WORDS = ['pass', 'word', 'password', 'love', 'dragon', 'monkey', 'summer', 'winter', 'secret', 'house', 'green', 'tiger',
         'пароль', 'любовь', 'σίσυφος', 'λόγος', 'straße', 'naïve', 'über', 'élan', 'abc', 'xy', 'q', 'letmein', 'iloveyou']
WALKS = ['1qaz', 'qwer', '2wsx', 'zxcv', '1q2w3e', 'asdf', 'qazwsx', '!QAZ', '4rfv', 'poiu', 'йцук', 'qwerty12',
         # runs that pivot on a key present on both layouts (digits ; : " ? / ,): adjacent on one layout before it, on the other after it
         'kl;3', 'kl;345', 'q1"3', 'q1"32', 'ц23e', 'l;4r', '1qa;4']
CONTEXT = [';p', ':p', '*0*', '#1', 'No.1', 'no.1', 'No.', 'i<3', 'I<3', '<3', 'Mr.', 'mr.', 'MS.', 'St.', 'Dr.', 'dr.',
           # spellings that are NOT in the trainer's list although another capitalisation is: they are no context strings
           'DR.', 'NO.1', ':P', 'ST.', 'nO.']
CONTEXT_CASE_CORPUS = ['DR.WHO', 'NO.1DAD', 'FIRST.LAST', 'hey:P', 'Dr.WHO', 'no.1dad']
# one password with two segments of a kind whose lengths are both new at that point of the list (a fresh list starts with them)
# one context-sensitive string twice (or overlapping with itself) in one still-unlabelled section
REPEATED_CONTEXT_CORPUS = ['<3<3', 'xo<3xo<3', 'Mr.Mr.Big', 'Dr.Jekyll&Dr.Hyde', '*0*0*', '#1#1', ';p;p;p']
# several detectors firing in one password, with sections already labelled before and behind the one a detector splits (the splice
# of a detector's result into the section list)
DETECTOR_ORDER_CORPUS = ['bob@aol.com#1qaz', 'Bob@AOL.com2019!1qaz', '1qazbob@aol.com#', 'www.google.com/1qaz2wsx', '1qaz2wsxwww.google.com',
                         'x1999y2000zqwer', 'qwer#bob@aol.com#asdf', 'a@b.com12qwerty12', '1qaz#1x<3qwer', 'zxcvwww.a.org!asdf1999',
                         # runs of adjacent keys of one character class only (not walks: they stay other / digit / letter strings)
                         'pass!@#$', '()_+x', '$%^&*1', 'qwerty', '12345', 'x!@#$%y', '<>?:9']
FRESH_LENGTHS_CORPUS = ['sun12tiger345', 'ab!cdef!!', 'hello', 'sun', 'tiger', '12', '345', 'xy7', 'Sun12', 'TIGER345']
YEARS = ['1999', '2000', '2012', '1987', '2024', '1900', '2099', '19', '20', '199', '20123', '12019']
TLDS = ['.com', '.org', '.net', '.de', '.ru', '.uk', '.nl.se', '.mil']
SYMBOLS = ['!', '@', '#', '$', '%', '^', '&', '*', ' ', '_', '-', '.', '/', ':', '€', '😀', '  ', '!!', '#1!', '??',
           # cased but not alphabetic (circled capitals, Roman numerals): lower() changes them although they are no letters
           'Ⓐ', 'Ⅻ', 'Ⓑ']
CASED_SYMBOL_CORPUS = ['Ⓐnarchy99', 'ⅫMonkeys', 'x9ⒷSide', 'Ⓐ', 'passⅫ', 'Ⓑ1qaz2wsx']
DIGITS = ['1', '12', '123', '007', '42', '1234567', '0', '²', '٣', '99']
# each cased non-letter symbol occurs in one password only (no other password lends the ruleset its upper-case form)
CASED_SYMBOL_ONCE = ['\u24b6narchy99', '\u216bMonkeys', 'x9\u24b7Side', 'pass\u2167', '\u24b81qaz2wsx', '7\u24b9og7']
NONTAME = ['İ', 'ǅ', 'ǈ', 'ß', 'ﬁ', 'ŉ', 'ǰ', 'ΐ']


def caps(rng, w):
    r = rng.random()
    if r < 0.5:
        return w
    if r < 0.75:
        return w[:1].upper() + w[1:]
    if r < 0.85:
        return w.upper()
    return ''.join(c.upper() if rng.random() < 0.4 else c for c in w)


def gen_password(rng, tame=True, allow_ew=True):
    parts = []
    for _ in range(rng.choice([1, 1, 2, 2, 3, 3, 4])):
        r = rng.random()
        if r < 0.34:
            parts.append(caps(rng, rng.choice(WORDS)))
        elif r < 0.44:
            parts.append(caps(rng, rng.choice(WORDS)) + caps(rng, rng.choice(WORDS)))
        elif r < 0.58:
            parts.append(rng.choice(DIGITS))
        elif r < 0.68:
            parts.append(rng.choice(YEARS))
        elif r < 0.78:
            parts.append(rng.choice(SYMBOLS))
        elif r < 0.85:
            parts.append(rng.choice(WALKS))
        elif r < 0.91:
            parts.append(rng.choice(CONTEXT))
        elif r < 0.95 and allow_ew:
            parts.append(rng.choice(['user@', 'a.b@', '@', 'x@y']) + rng.choice(['gmail', 'mail', 'x', 'ya.ru']) + rng.choice(TLDS))
        elif r < 0.98 and allow_ew:
            parts.append(rng.choice(['www.', 'http://', 'http://www.', '', 'a.']) + rng.choice(['site', 'google', 'x']) + rng.choice(TLDS) + rng.choice(['', '/', '/x', 'a', '.']))
        elif not tame:
            parts.append(rng.choice(NONTAME))
        else:
            parts.append(rng.choice(SYMBOLS))
    return ''.join(parts)


FAMILIES = [('love', 'bird', 'song'), ('fish', 'boat', 'lamp'), ('green', 'house', 'tiger'), ('pass', 'word', 'secret'),
            ('любовь', 'пароль', 'house')]


def multiword_family(rng, fam=None):
    """a compound of three frequent base words followed, later in the list, by strings whose letters are exactly its two-word
    tail (and its middle word pair): the multi-word detector meets the tail first inside the compound and then on its own - the
    second answer must not depend on the first (the detector is one object for the whole second pass / for every scored string)"""
    a, b, c = fam or rng.choice(FAMILIES)
    out = []
    for w in (a, b, c):
        out += [w] * rng.choice([5, 6])
    out += [a + b + c, a + b + c + rng.choice(['1', '2019', '!']), b.capitalize() + c.capitalize(), b + c + rng.choice(['7391', '12', '#1']),
            a + b, b + c]
    return out


def scorer_family(fam=('love', 'bird', 'song')):
    """the scorer only registers a word for multi-word splitting when at least five lower probability tiers exist in the word's
    length class: five filler words with counts 1..5, the three base words above them, then the compound and its tails"""
    out = []
    for k, w in enumerate(['wxyz', 'qrsu', 'mnpo', 'ghij', 'cdfe']):
        out += [w] * (k + 1)
    for k, w in enumerate(fam):
        out += [w] * (8 - k)
    a, b, c = fam
    # ... and compounds that do not start their section (a digit or symbol glued in front): the masks of the second and third word
    # are slices of the run's mask taken at offsets relative to the run, not to the section
    return out + [a + b + c + '1', b + c + '7391', a + b + c, b.capitalize() + c.capitalize(), a + b + '2', b + c,
                  '1' + a + b, '7' + a.capitalize() + b.capitalize(), '!!' + b + c + '3', '42' + a + b.upper() + c]


def gen_list(rng, n=None, tame=True, allow_ew=True, dup_rate=0.4, family=None):
    n = n or rng.randint(5, 40)
    base = []
    while len(base) < n:
        p = gen_password(rng, tame, allow_ew)
        if p and '\t' not in p and len(p) <= 30:
            base.append(p)
    out = []
    for p in base:
        out.append(p)
        while rng.random() < dup_rate:
            out.append(p)
    # make some words frequent enough for the multi-word detector (threshold 5)
    for w in rng.sample(WORDS, 4):
        if len(w) >= 4:
            out += [w] * rng.choice([0, 5, 6])
    if family is True or (family is None and rng.random() < 0.35):
        out += multiword_family(rng)
    return out


def omen_density_corpus():
    """a few very common passwords and a structured tail: the density of the OMEN levels (passwords of the level / keyspace of the
    level) does not fall monotonically with the level number, so `pcfg_omen_prob.txt` is not in level order when it is sorted"""
    names = ['anna', 'maria', 'james', 'robert', 'linda', 'michael', 'david', 'sarah', 'laura', 'peter', 'kevin', 'susan']
    tail = []
    for position, name in enumerate(names):
        for num in range(0, 100, 7):
            tail += [name + '%02d' % num] * (1 + (position * num) % 5)
    return ['123456'] * 50 + ['password'] * 30 + ['qwerty'] * 20 + tail
