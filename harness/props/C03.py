"""C03 - every supported training password is reproduced by the trained grammar."""
import os

import common
import corr_expand
import corr_pq
import gen_passwords
import train_util

SITES = ['read_password', 'tfi_init', 'parser_parse', 'alpha_detect', 'save_pcfg_data', 'save_counter', 'load_file', 'load_base', 'rec_guesses', 'find_children', 'aymc']
TRUSTED = ['hypotheses of C03_trained_reproduced that are not theorems: Agree (the guesser grammar loaded from the files agrees with the lists the trainer wrote: C07 theorems and file oracle) and CaseInvAll as in C13; AllListed is a theorem now (trained_all_listed over Model/Trainer.lean, whose counters are compared with the real trainer on whole lists by C05 tr.train)',
           'composition of C05 (tiling, masks), C06 (every segment is an entry of its list), C07 (loader returns the same values), C14 '
           '(C<n> inserted after A<n>, skip_brute renormalisation), C04 (expansion = product with masks), C02 (every pre-terminal emitted): '
           'each link is proved on its model; the end-to-end statement is checked here on the real pipeline',
           'probabilities sum to 1 exactly over the rationals; over doubles within 1e-9']
ASSUMPTIONS = ['domain of the property: letters whose upper/lower case mapping is one-to-one (passwords with other letters are skipped here and '
               'searched by C05 / C13)']


def tame(pw):
    for c in pw:
        lo = c.lower()
        if len(lo) != 1:
            return False
        if c.isupper():
            if lo.upper() != c:
                return False
        elif c.isalpha() and lo != c:
            return False
    return len(pw.lower()) == len(pw)


def write_training(tf, pws, enc, counted):
    with open(tf, 'wb') as f:
        if not counted:
            f.write(('\n'.join(pws) + '\n').encode(enc))
            return
        k = 0
        while k < len(pws):
            j = k
            while j < len(pws) and pws[j] == pws[k]:
                j += 1
            f.write(f"{j - k:>7} {pws[k]}\n".encode(enc))
            k = j


def language_size(pcfg, cap):
    total = 0
    for b in pcfg.base:
        n = 1
        for r in b['replacements']:
            n *= sum(len(g['values']) for g in pcfg.grammar[r])
            if n > cap:
                return None
        total += n
        if total > cap:
            return None
    return total


def run(ctx):
    rng = ctx.rng
    common.use_impl()
    viol, samples = [], []
    dist = {'encoding': {}, 'coverage': {}, 'ngram': {}, 'skipped_too_large': 0, 'unsupported_passwords': 0, 'nontame_skipped': 0, 'mass_max_error': 0.0}
    cases = nontrivial = 0
    root = common.scratch_dir('c03')
    encs = ['utf-8', 'utf-8', 'cp1251', 'latin-1'] if ctx.quick else ['utf-8', 'cp1251', 'latin-1', 'cp1252', 'koi8-r', 'iso8859-7']
    for i in range(ctx.scale(10, 120)):
        enc = rng.choice(encs) if i else 'utf-8'
        pws0 = gen_passwords.gen_list(rng, n=rng.randint(6, 22), tame=True, dup_rate=0.3, family=(True if i == 0 else None))
        if i == 0:
            pws0 += gen_passwords.CASED_SYMBOL_CORPUS      # symbols that str.lower() changes, in front of / behind letter runs
            pws0 += gen_passwords.CONTEXT_CASE_CORPUS      # context strings in a capitalisation the trainer's list does not contain
        if i == 1:
            pws0 = gen_passwords.FRESH_LENGTHS_CORPUS + pws0
        pws = []
        for p in pws0:
            try:
                if p.encode(enc).decode(enc) == p:
                    pws.append(p)
            except UnicodeError:
                pass
        if len(pws) < 3:
            continue
        cov = rng.choice([0.1, 0.6, 0.6, 1.0])
        ngram = rng.choice([2, 3, 4, 5])
        if i == 3:
            # whatever the seed: a degenerate OMEN part - every password is shorter than the n-gram size, so the trainer learns no
            # alphabet and no n-gram; with coverage 1 (no Markov share asked for) training succeeds and the ruleset must still generate
            pws = [p for p in ['1234', 'abcd', 'Pass', '#1ab', 'a b1', '1999', 'qwer', 'zz!9', '0000', '1234', 'abcd', 'Abcd'] if p.encode(enc, 'ignore').decode(enc, 'ignore') == p]
            cov, ngram = 1.0, 5
        tf = os.path.join(root, 'train.txt')
        # the list in the `sort | uniq -c` layout (trainer --prefixcount): right-aligned counter, one space, the password - which may
        # itself begin with spaces
        counted = (i == 2) or (i > 6 and rng.random() < 0.25)
        if i == 5:
            # whatever the seed: one password (twice) and a coverage for which the rescaled probability of its only structure rounds to
            # just above 1 under skip_brute (0.3 / (1.0 - 0.7)): the only guess there is has to come
            pws, cov, ngram, enc = ['PaSSword#1', 'PaSSword#1'], 0.3, 4, 'utf-8'
        if i == 6:
            pws, cov, ngram, enc = ['Z\xfcrich2019!'] * 7, 0.6, 4, 'utf-8'
        if i in (2, 4):
            # whatever the seed (and small enough to be enumerated in full): passwords that begin with spaces, a keyboard walk at the
            # end of a password behind exactly one other character, double quotes inside and at the end of a terminal, a comma
            pws = ['x1qaz', '!qwer', 'rock"n"roll', 'abc"', '"', 'a,b', 'Summer19', 'x1qaz', 'tiger', 'Tiger', '12345', 'tiger12']
            if i == 2:
                # characters a terminal or a wrongly decoded file leaves in a password: DEL, C1 controls (not U+0085), a soft hyphen
                pws += ['pass\x7fword7', 'admin\x9c42', '\x80x9', 'co\xadop1']
                # digits that are not ASCII digits (full-width, Arabic-Indic), also behind a year prefix
                pws += ['tokyo\uff11\uff12\uff13', 'mix7\uff18x', 'cairo\u0664\u0662', 'pass19\uff19\uff19']
            enc = 'utf-8'
            if i == 4:
                # ... cased symbols that are not letters in front of / behind letter runs, context strings in other capitalisations
                pws = gen_passwords.CASED_SYMBOL_ONCE + gen_passwords.CONTEXT_CASE_CORPUS + ['tiger', 'x1qaz']
        if counted:
            pws = [' dragon77', '  letmein', ' dragon77'] + pws
            pws = sorted(pws)
        write_training(tf, pws, enc, counted)
        rd = os.path.join(common.scratch_dir('rules'), 'c03r')
        ok, log = common.train(tf, rd, encoding=enc, ngram=ngram, coverage=cov, alphabet_size=rng.choice([100, 20]), prefixcount=counted)
        if not ok:
            continue
        wit = {'list': pws, 'encoding': enc, 'coverage': cov, 'ngram': ngram, 'prefixcount': counted}
        dist['prefixcount'] = dist.get('prefixcount', 0) + int(counted)
        try:
            pcfg = common.load_grammar(rd, skip_brute=True)
        except Exception as e:
            viol.append({'property': 'C03', 'kind': 'load-raised', 'error': repr(e)[:200], 'witness': wit})
            continue
        size = language_size(pcfg, ctx.scale(60000, 400000))
        if size is None:
            dist['skipped_too_large'] += 1
            dist.setdefault('skipped_lists', []).append(i)
            continue
        cases += 1
        dist.setdefault('evaluated_lists', []).append(i)
        for k, v in (('encoding', enc), ('coverage', str(cov)), ('ngram', str(ngram))):
            dist[k][v] = dist[k].get(v, 0) + 1
        # the training passwords are the ones of the generated list (not what the reader made of them): a reader that alters or drops
        # a valid password breaks the property as surely as a grammar that cannot derive it
        # (judged here, not by the reader's own filter: a password is a non-empty line of text - no C0 control character, none of
        # the other line boundaries U+0085 / U+2028 / U+2029; everything else, DEL and the C1 controls too, is an ordinary character)
        valid = [p for p in pws if p and not any(ord(ch) < 0x20 or ord(ch) in (0x85, 0x2028, 0x2029) for ch in p)]
        mw, _ = train_util.first_pass(valid)
        emitted = set()
        mass = 0.0
        pq = corr_pq.fresh_queue(pcfg)
        nguess = 0
        raised = False
        while True:
            it = pq.next()
            if it is None:
                break
            n, lines, r = corr_expand.real_create(pcfg, it['pt'], None)
            if r:
                raised = True
                viol.append({'property': 'C03', 'kind': 'create-guesses-raised', 'pt': str(it['pt']), 'witness': wit})
                break
            emitted.update(lines)
            mass += it['prob'] * n
            nguess += n
        if raised:
            continue
        err = abs(mass - 1.0)
        dist['mass_max_error'] = max(dist['mass_max_error'], err)
        if err > 1e-9:
            viol.append({'property': 'C03', 'kind': 'mass-not-one', 'mass': mass, 'guesses': nguess, 'witness': wit})
        missing = []
        for p in dict.fromkeys(valid):
            secs = train_util.section_list_of(p, mw)
            if any(l[0] in 'EW' for _, l in secs):
                dist['unsupported_passwords'] += 1
                continue
            if not tame(p):
                dist['nontame_skipped'] += 1
                continue
            if p not in emitted:
                missing.append(p)
        if missing:
            viol.append({'property': 'C03', 'kind': 'training-password-not-reproduced', 'passwords': missing[:5], 'witness': wit})
        else:
            nontrivial += 1
        if len(samples) < 3:
            samples.append({'list': pws[:8], 'encoding': enc, 'coverage': cov, 'guesses': nguess, 'mass': mass})
    return {'evaluations': cases, 'distinct_nontrivial': nontrivial, 'traces': cases,
            'rule': 'the whole real pipeline: generated lists (words, multi-words, digits, years, symbols, spaces, keyboard walks, context '
                    'strings, Cyrillic / Greek incl. final sigma / Latin-1 letters, non-BMP symbols, duplicates) trained by run_trainer with '
                    'coverage in {0.1, 0.6, 1}, n-gram 2-5, alphabet 20 or 100, several encodings; the ruleset loaded with skip_brute; the '
                    'real queue run to exhaustion and every pre-terminal expanded by the real create_guesses; every supported, tame training '
                    'password must be among the guesses and sum(prob x count) must be 1 within 1e-9. non-trivial = a list all of whose '
                    'supported passwords are reproduced',
            'samples': samples, 'disagreements': [], 'violations': viol, 'distribution': dist, 'extra': {}}


def replay(ctx, payload):
    w = payload.get('violation', {}).get('witness') or {}
    if 'list' not in w:
        return []
    common.use_impl()
    root = common.scratch_dir('c03')
    tf = os.path.join(root, 'replay.txt')
    write_training(tf, w['list'], w['encoding'], w.get('prefixcount', False))
    rd = os.path.join(common.scratch_dir('rules'), 'c03replay')
    ok, _ = common.train(tf, rd, encoding=w['encoding'], ngram=w['ngram'], coverage=w['coverage'], prefixcount=w.get('prefixcount', False))
    if not ok:
        return []
    try:
        pcfg = common.load_grammar(rd, skip_brute=True)
    except Exception as e:
        return [{'kind': 'load-raised', 'error': repr(e)[:200]}]
    pq = corr_pq.fresh_queue(pcfg)
    emitted, mass = set(), 0.0
    while True:
        it = pq.next()
        if it is None:
            break
        n, lines, r = corr_expand.real_create(pcfg, it['pt'], None)
        emitted.update(lines)
        mass += it['prob'] * n
    out = []
    if abs(mass - 1) > 1e-9:
        out.append({'kind': 'mass-not-one', 'mass': mass})
    mw, _ = train_util.first_pass(w['list'])
    for p in dict.fromkeys(w['list']):
        secs = train_util.section_list_of(p, mw)
        if not any(l[0] in 'EW' for _, l in secs) and tame(p) and p not in emitted:
            out.append({'kind': 'training-password-not-reproduced', 'password': p})
    return out
