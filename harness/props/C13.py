"""C13 - a non-zero score is a promise the guesser keeps."""
import contextlib
import io
import os

import common
import corr_detect as cd
import corr_expand
import gen_passwords
from common import f2h

SITES = ['scorer_pcfg_parse', 'scorer_mw', 'kw_detect', 'email_detect', 'web_detect', 'year_detect', 'ctx_detect', 'alpha_detect',
         'digit_detect', 'other_list', 'mw_parse', 'base_structure']
TRUSTED = ['hypotheses of C13_promise that are not theorems: Agree (guesser view and scorer tables come from the same files: the terminal clause is derived from the C07 round trips by C13_same_files, the base-structure clause rests on the loader correspondence of C14), CaseInvAll (domain clause: one-to-one case mapping on the password), ScalarCPs (no lone surrogate in the password), probabilities as elements of a commutative monoid (exact arithmetic)',
           'the scorer multiplies the same factors as the guesser but in a different order: equality of the two probabilities is exact over '
           'the rationals and within n ulp over doubles (the harness allows a relative difference of 1e-12)',
           'CPython Unicode database (parameters of the detector model)']
ASSUMPTIONS = ['ruleset produced by the trainer']


def load_scorer(rd):
    common.use_impl()
    from lib_scorer.pcfg_password_scorer import PCFGPasswordScorer
    from lib_scorer.grammar_io import load_grammar
    sc = PCFGPasswordScorer(limit=0)
    buf = io.StringIO()
    with contextlib.redirect_stdout(buf), contextlib.redirect_stderr(buf):
        if not load_grammar(sc, rd):
            raise RuntimeError('scorer load_grammar failed: ' + buf.getvalue()[-300:])
        sc.create_multiword_detector()
        sc.create_omen_scorer(rd, 9)
    return sc


def score_ops(sc):
    ops = ['sc.clear']
    for name, d in (('K', sc.count_keyboard), ('A', sc.count_alpha), ('C', sc.count_alpha_masks), ('D', sc.count_digits), ('O', sc.count_other)):
        for ln, c in d.items():
            for v, p in c.items():
                ops.append(f"sc.tbl {name}{ln} {cd.cps(v)} {f2h(p)}")
    for v, p in sc.count_years.items():
        ops.append(f"sc.tbl Y {cd.cps(v)} {f2h(p)}")
    for v, p in sc.count_context_sensitive.items():
        ops.append(f"sc.tbl X {cd.cps(v)} {f2h(p)}")
    for v, p in sc.count_base_structures.items():
        ops.append(f"sc.tbl B {cd.cps(v)} {f2h(p)}")
    return ops


def perturb(rng, p):
    r = rng.random()
    if not p:
        return 'x'
    k = rng.randrange(len(p))
    if r < 0.25:
        return p[:k] + p[k].swapcase() + p[k + 1:]
    if r < 0.45:
        return p[:k] + rng.choice('0123456789') + p[k + 1:]
    if r < 0.6:
        return p[:k] + rng.choice('!#$ ') + p[k + 1:]
    if r < 0.75:
        return p + rng.choice(['1', '!', 'a', '2000'])
    if r < 0.9:
        return p[:k] + p[k + 1:]
    return p[::-1]


def guesser_promise(pcfg, pw, p):
    """does the real guesser emit `pw` from a pre-terminal of probability ~p?  Searches the pre-terminals whose
    structure can spell `pw` (by length) and expands them with the real create_guesses."""
    import itertools
    best = None
    for b in pcfg.base:
        reps = b['replacements']
        if any(r[0] == 'M' for r in reps):
            continue
        # candidate group indices per position: groups containing a value that can sit at that position of pw
        def rec(pos, off, acc, prob):
            nonlocal best
            if best is not None and best[0]:
                return
            if pos == len(reps):
                if off == len(pw):
                    pt = [(r, j) for r, j in zip(reps, acc)]
                    n, lines, raised = corr_expand.real_create(pcfg, pt, None)
                    ok = (not raised) and pw in lines and abs(prob - p) <= 1e-12 * max(prob, p)
                    if ok or best is None:
                        best = (ok, pt, prob)
                return
            r = reps[pos]
            if r[0] == 'C':
                n = len(pcfg.grammar[r][0]['values'][0])
                seg = pw[off - n:off]
                for j, g in enumerate(pcfg.grammar[r]):
                    want = ''.join('U' if ch.isupper() else 'L' for ch in seg)
                    if want in g['values'] or any(all((m == 'L' and c == c2) or (m == 'U' and c2.upper() == c) for m, c, c2 in zip(mask, seg, seg.lower())) for mask in g['values']):
                        rec(pos + 1, off, acc + [j], prob * g['prob'])
                return
            for j, g in enumerate(pcfg.grammar.get(r, [])):
                tried = set()   # one group can hold values of different lengths (context-sensitive strings: 'No.' and 'No.1')
                for v in g['values']:
                    seg = pw[off:off + len(v)]
                    # a stored word fits a stretch of the password when every character is the stored one or its upper-casing (what a
                    # mask can make of it) - not when `lower()` of the stretch gives the word: lower-casing depends on the neighbours
                    # (a capital sigma is lowered to the final form or not according to what follows the word in the whole password)
                    if len(v) not in tried and ((r[0] == 'A' and len(seg) == len(v) and all(a == b_ or a.upper() == b_ for a, b_ in zip(v, seg)))
                                                or (r[0] != 'A' and seg == v)):
                        tried.add(len(v))
                        rec(pos + 1, off + len(v), acc + [j], prob * g['prob'])
        rec(0, 0, [], b['prob'])
        if best is not None and best[0]:
            return best
    return best or (False, None, None)


WEBSITE_STRINGS = ['www.community.com', 'site.com-my.company', 'http://site.com/my.company', 'shop.net!internet', 'my.org1organ.orgy',
                   'x.company.com', 'mail.ru2.rust',
                   # the detector works on a lower-cased copy: a domain written in capitals is a domain
                   'GOOGLE.COM', 'google.Net', 'WWW.Site.ORG/x']


def run(ctx):
    rng = ctx.rng
    common.use_impl()
    viol, samples, disagreements = [], [], []
    ops, exp = [], []
    dist = {'category': {}, 'nonzero': 0, 'candidates': {}, 'nontame_lists': 0}
    cases = nontrivial = 0
    root = common.scratch_dir('c13')
    prev_pws = []
    for i in range(ctx.scale(6, 60)):
        tame = i % 4 != 3
        pws = gen_passwords.gen_list(rng, n=rng.randint(10, 30), tame=tame, family=(True if i == 0 else None))
        if i == 0:
            # whatever the seed: strings in which one terminal occurs twice (its factor must be multiplied twice), next to
            # strings with two different terminals of the same list
            pws += ['12love12', '34love34', '12love34', 'love12', 'love34', '!pass!', '#pass!', 'pass#', '7monkey7', '7monkey8',
                    '2019hello2019', 'hello2019', '1qaz2wsx1qaz', '<3love<3', 'love<3',
                    # context-sensitive strings of different lengths that share one probability group ('No.' is a prefix of 'No.1')
                    'xy??No.1', 'word No.', 'dr.house',
                    # a letter without an upper-case form of its own (its upper() is two letters) inside words with upper-case letters after it
                    'STRAßE1', 'Straße1', 'GROßE!', 'Fußball7', 'FUßBALL',
                    # a capital sigma at the end of a word that is followed by a cased symbol: the whole password's lower-casing keeps the
                    # medial form there, the word's own lower-casing gives the final form
                    'GreenΣΊΣΥΦΟΣⒷ', 'ΣΊΣΥΦΟΣ1', 'σίσυφος', 'σίσυφος', 'pass2019', 'love1999']
            # the scorer's own multi-word detector at work (it needs six probability tiers in a length class): a three-word
            # compound and, after it, strings made of its two-word tail
            pws += gen_passwords.scorer_family()
        if not tame:
            pws += ['ǆabc1', 'ǆabc1', 'İpass', 'passİ1', 'ǅword', 'ßtrasse1']
            dist['nontame_lists'] += 1
        tf = os.path.join(root, 'train.txt')
        with open(tf, 'wb') as f:
            f.write(('\n'.join(pws) + '\n').encode('utf-8'))
        rd = os.path.join(common.scratch_dir('rules'), 'c13r')
        ok, log = common.train(tf, rd, encoding='utf-8', ngram=3, coverage=0.6)
        if not ok:
            continue
        try:
            sc = load_scorer(rd)
            pcfg = common.load_grammar(rd, skip_brute=False)
        except Exception as e:
            viol.append({'property': 'C13', 'kind': 'load-raised', 'error': repr(e)[:200], 'witness': {'list': pws}})
            continue
        cands = {}
        for p in dict.fromkeys(pws):
            cands[p] = 'training'
            for _ in range(2):
                cands.setdefault(perturb(rng, p), 'perturbed')
            if p and rng.random() < 0.5:
                cands.setdefault(p.title(), 'perturbed')
                cands.setdefault(p.upper(), 'perturbed')
        # the score depends only on the string and the ruleset: strings that belong to the ruleset scored just before
        for p in prev_pws[:25]:
            cands.setdefault(p, 'previous-ruleset')
        prev_pws = list(dict.fromkeys(pws))
        for s in ['unrelated', 'Zq9!', 'xx', '2031', 'bob@mail.ru', 'www.site.com/x', 'ǅabc1', 'İPASS']:
            cands.setdefault(s, 'unrelated')
        # a host name ends at the first place where a top-level domain is followed by neither a letter nor a dot - wherever the same
        # letters turn up again, earlier (www.community.com) or later (site.com-my.company), as part of a longer word
        for s in WEBSITE_STRINGS:
            cands.setdefault(s, 'website')
        # strings that differ from a training password only in how a digit is written
        for s in ['pass20\uff11\uff19', 'love19\u2079\u2079', 'pass\uff12\uff10\uff11\uff19', '12love\uff11\uff12']:
            cands.setdefault(s, 'unrelated')
        cands = {c: k for c, k in cands.items() if c and '\t' not in c and '\n' not in c}
        pre = ['dt.new'] + cd.uenv_ops(list(cands)) + cd.mw_ops(sc.multiword_detector) + ['dt.cfg 1 4 21'] + score_ops(sc)
        ops += pre
        exp += ['ok'] * len(pre)
        order = list(cands)
        res = {}
        for c in order:
            try:
                res[c] = sc.parse(c)
            except Exception as e:
                viol.append({'property': 'C13', 'kind': 'scorer-raised', 'error': repr(e)[:200], 'string': c, 'witness': {'list': pws, 'string': c}})
        # purity: a second pass in another order gives the same answers
        order2 = order[:]
        rng.shuffle(order2)
        for c in order2:
            if c in res:
                try:
                    again = sc.parse(c)
                except Exception:
                    again = None
                if again != res[c]:
                    viol.append({'property': 'C13', 'kind': 'score-not-pure', 'string': c, 'witness': {'list': pws, 'string': c}})
        # ... and a second scorer object for the same ruleset, asked in the reverse order, gives the same answers (the score is a
        # function of the string and the ruleset, not of what the object was asked before)
        try:
            sc_rev = load_scorer(rd)
            for c in reversed(order):
                if c in res:
                    try:
                        again = sc_rev.parse(c)
                    except Exception:
                        again = None
                    if again != res[c]:
                        viol.append({'property': 'C13', 'kind': 'score-not-pure', 'string': c, 'first': str(res[c])[:120], 'fresh_object_reverse_order': str(again)[:120],
                                     'witness': {'list': pws, 'string': c}})
                        break
        except Exception as e:
            viol.append({'property': 'C13', 'kind': 'load-raised', 'error': repr(e)[:200], 'witness': {'list': pws}})
        for c, kind in cands.items():
            if c not in res:
                continue
            cases += 1
            _, cat, prob, omen = res[c]
            dist['category'][cat] = dist['category'].get(cat, 0) + 1
            dist['candidates'][kind] = dist['candidates'].get(kind, 0) + 1
            omen_ok = 0 <= omen <= sc.omen.max_omen_level
            ops.append(f"sc.score {cd.cps(c)} {1 if omen_ok else 0} {f2h(0.0)}")
            exp.append(f"{cat} {f2h(float(prob))}")
            wit = {'list': pws, 'string': c}
            # e-mail / website strings are classified as such with probability 0
            if cat in ('e', 'w') and prob != 0:
                viol.append({'property': 'C13', 'kind': 'email-website-nonzero', 'string': c, 'witness': wit})
            if kind == 'website' and (cat != 'w' or prob != 0):
                viol.append({'property': 'C13', 'kind': 'website-not-classified', 'string': c, 'category': cat, 'score': prob, 'witness': wit})
            if prob != 0:
                dist['nonzero'] += 1
                okp, pt, gp = guesser_promise(pcfg, c, prob)
                if not okp:
                    title = any(ch.lower() != ch and not ch.isupper() for ch in c) or len(c.lower()) != len(c)
                    viol.append({'property': 'C13', 'kind': 'promise-not-kept', 'string': c, 'score': prob, 'best_preterminal': str(pt), 'guesser_prob': gp,
                                 'special_case_letters': title, 'witness': wit})
                elif kind != 'training':
                    nontrivial += 1
                if len(samples) < 4 and okp:
                    samples.append({'string': c, 'kind': kind, 'score': prob, 'preterminal': str(pt)})
        if i == 0:
            # the same process goes on to score against an *edited copy* of this ruleset (edit_rules --copy keeps the uuid and removes
            # base structures): a score is a promise about the ruleset it was asked about, not about one seen earlier
            try:
                import edit_rules as _er
                rd2 = rd + '_edit'
                import shutil as _sh
                _sh.rmtree(rd2, ignore_errors=True)
                with contextlib.redirect_stdout(io.StringIO()), contextlib.redirect_stderr(io.StringIO()):
                    _er.edit_rules({'rules_dir': os.path.dirname(rd), 'rule': os.path.basename(rd), 'copy': os.path.basename(rd2),
                                    'min_length': 0, 'max_length': 0, 'terminal_set': ['A', 'D'], 'regex': None})
                sc2 = load_scorer(rd2)
                pcfg2 = common.load_grammar(rd2, skip_brute=False)
                n_edit = 0
                for c in list(res)[:400]:
                    _, cat2, prob2, _om2 = sc2.parse(c)
                    if prob2 != 0:
                        n_edit += 1
                        okp2, pt2, gp2 = guesser_promise(pcfg2, c, prob2)
                        if not okp2 and not (any(ch.lower() != ch and not ch.isupper() for ch in c) or len(c.lower()) != len(c)):
                            viol.append({'property': 'C13', 'kind': 'promise-not-kept', 'string': c, 'score': prob2, 'best_preterminal': str(pt2),
                                         'guesser_prob': gp2, 'special_case_letters': False, 'ruleset': 'edit_rules --copy --terminal_set A,D of the ruleset scored before',
                                         'witness': {'list': pws, 'string': c, 'edited_copy': {'terminal_set': ['A', 'D']}}})
                            break
                dist['edited_copy_nonzero'] = n_edit
                cases += 1
            except ImportError:
                dist['edited_copy_nonzero'] = 'edit_rules not importable'
    if ctx.driver_ok:
        out = common.run_driver(ops)
        for i, (a, b) in enumerate(zip(out, exp)):
            if a != b:
                disagreements.append({'stream': 'score', 'op': ops[i][:200], 'model': a[:300], 'implementation': b[:300]})
                if len(disagreements) >= 5:
                    break
    else:
        disagreements.append({'stream': 'score', 'detail': 'driver does not build'})
    return {'evaluations': cases, 'distinct_nontrivial': nontrivial, 'traces': cases,
            'rule': 'rulesets trained by the real trainer from generated lists; the real PCFGPasswordScorer (own multi-word detector, OMEN '
                    'scorer) scores training passwords, case / digit / symbol / truncation perturbations, title- and upper-cased variants and '
                    'unrelated strings; category and probability (bit for bit) are compared with the Lean scorer model; for every non-zero '
                    'score the real guesser grammar is searched for a pre-terminal of that probability whose real create_guesses output '
                    'contains the string; a second pass in shuffled order must give identical answers. non-trivial = a non-training string '
                    'with a non-zero score whose promise is kept',
            'samples': samples, 'disagreements': disagreements, 'violations': viol, 'distribution': dist,
            'extra': {'protocol_ops': len(ops)}}


def replay(ctx, payload):
    w = payload.get('violation', {}).get('witness') or {}
    if 'list' not in w or 'string' not in w:
        return []
    common.use_impl()
    root = common.scratch_dir('c13')
    tf = os.path.join(root, 'replay.txt')
    with open(tf, 'wb') as f:
        f.write(('\n'.join(w['list']) + '\n').encode('utf-8'))
    rd = os.path.join(common.scratch_dir('rules'), 'c13replay')
    ok, log = common.train(tf, rd, encoding='utf-8', ngram=3, coverage=0.6)
    if not ok:
        return []
    sc = load_scorer(rd)
    if w.get('edited_copy'):
        import edit_rules as _er
        import shutil as _sh
        rd2 = rd + '_edit'
        _sh.rmtree(rd2, ignore_errors=True)
        with contextlib.redirect_stdout(io.StringIO()), contextlib.redirect_stderr(io.StringIO()):
            _er.edit_rules({'rules_dir': os.path.dirname(rd), 'rule': os.path.basename(rd), 'copy': os.path.basename(rd2),
                            'min_length': 0, 'max_length': 0, 'terminal_set': w['edited_copy']['terminal_set'], 'regex': None})
        sc = load_scorer(rd2)
        rd = rd2
    pcfg = common.load_grammar(rd)
    _, cat, prob, omen = sc.parse(w['string'])
    if prob != 0 and not guesser_promise(pcfg, w['string'], prob)[0]:
        return [{'kind': 'promise-not-kept', 'score': prob}]
    return []
