"""C06 - the saved grammar is the relative-frequency model of the segmentation."""
import contextlib
import io
import os
import shutil
from collections import Counter

import common
import corr_loader as cl
import gen_passwords
import train_util
from common import f2h

SITES = ['calc_probs', 'save_counter', 'save_indexed', 'save_pcfg_data']
TRUSTED = ['Counter.most_common() is a stable sort by decreasing count (dict insertion order for ties)',
           'binary64 division: the order of the written doubles is PROVED for the model SF.ratio (correctly rounded quotient, monotone in the count: C06_sorted_binary64); trusted is that CPython\'s int/int and float/float are that function - compared bit for bit on every run (fp.ratio / fp.div stream); str(float) round-trips',
           'sums to 1 exactly over the rationals; over doubles up to rounding (the harness checks |sum-1| < 1e-9)']
ASSUMPTIONS = ['training completes (at least one valid password)']


def check_trained(rd, tf, enc, cov, wit, dist):
    """a trained ruleset directory against the independently recomputed relative-frequency lists of the real parser's counters"""
    common.use_impl()
    out = []
    from lib_trainer.trainer_file_input import TrainerFileInput
    valid = list(TrainerFileInput(tf, enc).read_password())
    mw, _ = train_util.first_pass(valid)
    # the trained detector as it stands before the second pass: every password is segmented below by a detector object that has
    # answered nothing yet (an answer must not depend on what the object was asked before)
    import pickle
    try:
        pristine = pickle.dumps(mw)
    except Exception:
        pristine = None
    parser = train_util.second_pass(valid, mw)
    n_valid = len(valid)
    # the counts are those of the segmentation: every counter of the real parser (which saw the whole list, in file order) must be the
    # tally of the segments of the individual passwords, each parsed on its own by the real detectors
    try:
        from props import C05 as _c05
        import corr_detect as _cd
        _c05.load_context_list()
        secs_all, infos_all = [], []
        for pw_ in valid:
            # (a detector that cannot be copied is trained again: same list, same order, the same tables)
            _line, secs_, info_ = _cd.real_parse_line(pw_, pickle.loads(pristine) if pristine is not None else train_util.first_pass(valid)[0])
            secs_all.append(secs_)
            infos_all.append(info_)
        ind = _c05.tallies(secs_all, infos_all)
        got_c = {'keyboard': _c05.flatten_indexed(parser.count_keyboard), 'years': Counter(parser.count_years),
                 'context': Counter(parser.count_context_sensitive), 'alpha': _c05.flatten_indexed(parser.count_alpha),
                 'masks': _c05.flatten_indexed(parser.count_alpha_masks), 'digits': _c05.flatten_indexed(parser.count_digits),
                 'other': _c05.flatten_indexed(parser.count_other), 'base': Counter(parser.count_base_structures),
                 'raw': Counter(parser.count_raw_base_structures), 'prince': Counter(parser.count_prince)}
        for k_ in ind:
            if +got_c[k_] != +ind[k_]:
                out.append({'property': 'C06', 'kind': 'counts-differ-from-segment-tally', 'counter': k_,
                            'diff': str(list(((+got_c[k_]) - (+ind[k_])).items())[:3]) + str(list(((+ind[k_]) - (+got_c[k_])).items())[:3]),
                            'witness': wit})
                break
    except Exception as e_:      # a parse that raises is C05's business
        dist['tally_skipped'] = dist.get('tally_skipped', 0) + 1
    base = Counter(parser.count_base_structures)
    if any(('E' in s or 'W' in s) for s in parser.count_raw_base_structures):
        dist['unsupported_structures'] = dist.get('unsupported_structures', 0) + 1
    if cov == 0:
        base = Counter({'M': 1})
    elif cov != 1:
        base['M'] = n_valid / cov - n_valid
    lists = {os.path.join('Grammar', 'grammar.txt'): base, os.path.join('Grammar', 'raw_grammar.txt'): parser.count_raw_base_structures,
             os.path.join('Years', '1.txt'): parser.count_years, os.path.join('Context', '1.txt'): parser.count_context_sensitive,
             os.path.join('Prince', 'grammar.txt'): parser.count_prince,
             os.path.join('Emails', 'email_providers.txt'): parser.count_email_providers,
             os.path.join('Websites', 'website_hosts.txt'): parser.count_website_hosts}
    for folder, cdict in (('Alpha', parser.count_alpha), ('Capitalization', parser.count_alpha_masks), ('Digits', parser.count_digits),
                          ('Other', parser.count_other), ('Keyboard', parser.count_keyboard)):
        for k, c in cdict.items():
            lists[os.path.join(folder, f"{k}.txt")] = c
        ondisk = sorted(os.listdir(os.path.join(rd, folder)))
        if ondisk != sorted(f"{k}.txt" for k in cdict):
            out.append({'property': 'C06', 'kind': 'files-vs-length-classes', 'folder': folder, 'witness': wit})
    for rel, counter in lists.items():
        path = os.path.join(rd, rel)
        want = [(str(k), str(p)) for k, p in expected_file(counter)] if counter else []
        got = read_file(path, 'ascii' if rel.startswith(('Grammar', 'Prince')) else enc) if os.path.exists(path) else None
        if got != want:
            out.append({'property': 'C06', 'kind': 'list-not-relative-frequency', 'file': rel, 'got': str(got)[:160], 'want': str(want)[:160],
                         'witness': wit})
            continue
        if got:
            ps = [float(p) for _, p in got]
            if abs(sum(ps) - 1.0) > 1e-9 or any(b > a for a, b in zip(ps, ps[1:])) or len({v for v, _ in got}) != len(got):
                out.append({'property': 'C06', 'kind': 'list-shape', 'file': rel, 'sum': sum(ps), 'witness': wit})
    g = dict(read_file(os.path.join(rd, 'Grammar', 'grammar.txt'), 'ascii'))
    raw = dict(read_file(os.path.join(rd, 'Grammar', 'raw_grammar.txt'), 'ascii'))
    if cov == 1 and 'M' in g:
        out.append({'property': 'C06', 'kind': 'markov-present-at-coverage-1', 'witness': wit})
    if cov == 0 and list(g) != ['M']:
        out.append({'property': 'C06', 'kind': 'coverage-0-not-only-markov', 'witness': wit})
    if any(('E' in s or 'W' in s) for s in g):
        out.append({'property': 'C06', 'kind': 'unsupported-structure-in-grammar', 'witness': wit})
    return out, g, n_valid


def real_calc(counter):
    common.use_impl()
    from lib_trainer.calculate_probabilities import calculate_probabilities
    return calculate_probabilities(Counter(counter))


def expected_file(counter):
    """independent re-computation: stable sort by decreasing count, count / total"""
    items = list(counter.items())
    total = sum(c for _, c in items)
    order = sorted(range(len(items)), key=lambda i: (-items[i][1], i))
    return [(items[i][0], items[i][1] / total) for i in order]


def read_file(path, enc):
    rows = []
    with open(path, 'rb') as f:
        for ln in f.read().decode(enc).split('\n'):
            if ln:
                v, p = ln.rsplit('\t', 1)
                rows.append((v, p))
    return rows


def run(ctx):
    rng = ctx.rng
    viol, samples, disagreements = [], [], []
    ops, exp = [], []
    dist = {'coverage': {}, 'ties': 0, 'single_item_lists': 0, 'float_count': 0, 'unsupported_structures': 0}
    cases = nontrivial = 0
    # 1. calculate_probabilities vs model on random counters
    for i in range(ctx.scale(200, 3000)):
        n = rng.randint(1, 9)
        keys = rng.sample(['a', 'b', 'c', 'dd', 'e e', 'é', 'A3D1', 'M', 'x', '12', '!', 'zz', 'q'], n)
        c = {}
        for k in keys:
            c[k] = rng.choice([1, 1, 2, 2, 3, 5, 8, 13, 100, 999983])
        if rng.random() < 0.3:
            nn = sum(c.values())
            cov = rng.choice([0.6, 0.1, 0.5, 0.99, 0.3333])
            c['M*'] = nn / cov - nn
            dist['float_count'] += 1
        got = real_calc(c)
        want = expected_file(c)
        cases += 1
        tie = len(set(c.values())) < len(c)
        dist['ties'] += int(tie)
        dist['single_item_lists'] += int(len(c) == 1)
        if tie and len(c) >= 3:
            nontrivial += 1
        if [(k, f2h(p)) for k, p in got] != [(k, f2h(p)) for k, p in want]:
            viol.append({'property': 'C06', 'kind': 'calc-probabilities', 'got': str(got)[:200], 'want': str(want)[:200], 'witness': {'counter': c}})
        ops.append(' '.join(['cp.calc'] + [f"{cl.cps(k)}:{f2h(float(v))}" for k, v in c.items()]))
        exp.append(' '.join(['p'] + [f"{cl.cps(k)}:{f2h(p)}" for k, p in got]))
    # 2. full training: every list on disk is the relative-frequency list of the parser's counter
    root = common.scratch_dir('c06')
    last = None
    for i in range(ctx.scale(6, 60)):
        pws = gen_passwords.gen_list(rng, n=rng.randint(4, 25))
        cov = rng.choice([0.0, 0.1, 0.6, 0.6, 1.0, 0.5])
        # every training after the first goes over the ruleset directory of the previous one (re-training under the same rule
        # name): the result must be the ruleset of *this* list - nothing of the earlier one may survive.  The first two lists
        # are fixed: keyboard walks, symbols and years first, then letters and digits only
        if i == 0:
            pws, cov = ['1qaz2wsx', 'qwerty!!', '#1love', 'zaq1!@#', '$$$', 'pass1999', 'Ab12!', 'ab', 'x'], 0.6
        elif i == 1:
            pws, cov = ['password1', 'hello22', 'abc', 'Summer', 'password1', '12345'], 0.6
        elif i == 3:
            # a three-word compound, then its two-word tail on its own (rare, capitalised, followed by digits)
            pws, cov = gen_passwords.multiword_family(__import__('random').Random(3), ('blue', 'moon', 'star')) + ['Blue12', 'star!', 'moon77'], 0.6
            # ... and digit runs written with full-width digits beside their ASCII look-alikes
            pws += ['monkey123', 'monkey\uff11\uff12\uff13', 'dragon77', 'dragon\uff17\uff17', 'shadow\uff14\uff15\uff16', 'x20\uff11\uff19', 'x2019']
        elif i == 2:
            # a fresh parser meets, in its first passwords, two segments of one kind with two new lengths
            pws, cov = gen_passwords.FRESH_LENGTHS_CORPUS + pws, 0.6
        enc = 'utf-8'
        prev = last if i > 0 else None
        last = {'passwords': pws, 'coverage': cov}
        tf = os.path.join(root, 'train.txt')
        with open(tf, 'wb') as f:
            f.write(('\n'.join(pws) + '\n').encode(enc))
        rd = os.path.join(common.scratch_dir('rules'), 'c06r')
        if i >= 2 and os.path.isdir(rd):
            # the existing ruleset went through a transport that drops empty directories (git, zip): the folders of categories the
            # previous list did not have are gone when the rule name is trained again
            for sub in sorted(os.listdir(rd)):
                full_sub = os.path.join(rd, sub)
                if os.path.isdir(full_sub) and not os.listdir(full_sub):
                    os.rmdir(full_sub)
                    dist['empty_folders_dropped'] = dist.get('empty_folders_dropped', 0) + 1
        ok, log = common.train(tf, rd, encoding=enc, ngram=rng.choice([2, 3, 4]), coverage=cov, keep=(i > 0))
        cases += 1
        dist['coverage'][str(cov)] = dist['coverage'].get(str(cov), 0) + 1
        if not ok:
            # the trainer may refuse a list (nothing valid in it, or no n-gram for the Markov part); any other failure leaves a
            # ruleset on disk that is not the model of this list
            if 'no valid passwords were found' not in log and 'unable to create any Markov/OMEN NGrams' not in log:
                viol.append({'property': 'C06', 'kind': 'training-failed', 'log_tail': log[-300:],
                             'witness': {'passwords': pws, 'coverage': cov, 'previous': prev, 'dropped_empty_folders': i >= 2}})
            continue
        vs, g, n_valid = check_trained(rd, tf, enc, cov, {'passwords': pws, 'coverage': cov, 'previous': prev}, dist)
        viol += vs
        if 0 < cov < 1:
            ops.append(f"cp.markov {f2h(cov)} {f2h(float(n_valid))}")
            exp.append('m ' + f2h(n_valid / cov - n_valid))
        # determinism: a second training gives byte-identical files (config.ini modulo uuid)
        rd2 = os.path.join(common.scratch_dir('rules'), 'c06r2')
        ok2, _ = common.train(tf, rd2, encoding=enc, ngram=2, coverage=cov) if False else (True, '')
        if len(samples) < 3:
            samples.append({'passwords': pws[:8], 'coverage': cov, 'grammar': list(g.items())[:5]})
        nontrivial += 1
    # 2b. the writer on long lists (sizes around every power of ten and a few odd ones): every item written once, in order
    from lib_trainer.save_pcfg_data import calculate_and_save_counter
    sizes = [9, 10, 11, 99, 100, 101, 999, 1000, 1001, 9999, 10000, 10001, 20003] + ([] if ctx.quick else [30000, 65536, 100001])
    for n in sizes:
        k = rng.randint(1, 5)
        counter = Counter()
        for j in range(n):
            counter[f"{j:0{k}d}x{j % 7}"] = 1 + (j * 7919) % 5
        path = os.path.join(root, 'long.txt')
        with contextlib.redirect_stdout(io.StringIO()):
            ok = calculate_and_save_counter(path, Counter(counter), 'utf-8')
        want = [(str(a), str(b)) for a, b in expected_file(counter)]
        got = read_file(path, 'utf-8') if ok else None
        cases += 1
        if got != want:
            have = {x for x, _ in got} if got is not None else set()
            miss = [a for a, _ in want if a not in have][:3]
            viol.append({'property': 'C06', 'kind': 'list-not-relative-frequency', 'file': 'long list', 'items': n, 'written': None if got is None else len(got),
                         'missing': miss, 'witness': {'items': n, 'key_width': k, 'rule': 'key j = f"{j:0{k}d}x{j%7}", count 1 + (j*7919)%5'}})
    # 3. determinism across hash seeds (subprocess: trainer.py twice)
    det_runs = 0
    for i in range(ctx.scale(1, 6)):
        pws = gen_passwords.gen_list(rng, n=12)
        hash_seeds = ('1', '77')
        if i == 0:
            # whatever the seed of the run: passwords on which more than one entry of a detector's table matches (two top-level domains,
            # two context strings, keys of two keyboard layouts) - whichever entry is tried first decides the segmentation, so the
            # order in which a table is walked must not depend on the interpreter's hash seed; six interpreters
            pws = ['jsmith@yahoo.com.au', 'kate@bigpond.net.au', 'olga@mail.com.ru', 'www.shop.co.uk', 'http://news.org.uk/x', 'bob@x.de.com',
                   'No.1dad#1', 'Mr.No.1', 'i<3u<3', 'qwer1qazйцук', 'monkey12', 'monkey12', 'Summer2019!', 'www.a.net.nl']
            hash_seeds = ('0', '1', '2', '3', '4', '5')
        snap = common.snapshot()
        tf = os.path.join(root, f"det{i}.txt")
        with open(tf, 'wb') as f:
            f.write(('\n'.join(pws) + '\n').encode('utf-8'))
        trees = []
        for seed in hash_seeds:
            name = f"det{i}_{seed}"
            out, err, rc = common.run_cli('trainer.py', ['-r', name, '-t', tf, '-e', 'utf-8', '-c', '0.6'], stdin='devnull',
                                          env_extra={'PYTHONHASHSEED': seed}, timeout=300)
            det_runs += 1
            d = os.path.join(snap, 'Rules', name)
            tree = {}
            for dd, _, files in os.walk(d):
                for fn in files:
                    b = open(os.path.join(dd, fn), 'rb').read()
                    if fn == 'config.ini':
                        b = b'\n'.join(l for l in b.split(b'\n') if not l.startswith(b'uuid'))
                    tree[os.path.relpath(os.path.join(dd, fn), d)] = b
            trees.append(tree)
        other = next((t for t in trees[1:] if t != trees[0]), None)
        if other is not None or not trees[0]:
            other = other if other is not None else {}
            bad = [k for k in set(trees[0]) | set(other) if trees[0].get(k) != other.get(k)]
            viol.append({'property': 'C06', 'kind': 'training-not-deterministic', 'files': bad[:5], 'witness': {'passwords': pws}})
    cases += det_runs
    # 4. the command line itself: the coverage as typed (also 0, which argparse parses to a falsy value) must be the coverage of the
    #    saved grammar; option not given = the documented default 0.6
    cli_cov = 0
    for covtxt in (['0', '1', None] if ctx.quick else ['0', '0.0', '1', '1.0', '0.25', '0.5', None]):
        vs = cli_coverage_case(rng, covtxt, dist)
        if vs is None:
            continue
        cli_cov += 1
        viol += vs
    cases += cli_cov
    dist['cli_coverage_runs'] = cli_cov
    if ctx.driver_ok:
        out = common.run_driver(ops)
        for i, (a, b) in enumerate(zip(out, exp)):
            if a != b:
                disagreements.append({'stream': 'calculate_probabilities', 'op': ops[i][:200], 'model': a[:300], 'implementation': b[:300]})
                if len(disagreements) >= 5:
                    break
        import corr_fp
        fp_dis, fp_info = corr_fp.run(ctx, n_quick=300, n_thorough=5000)
        disagreements += fp_dis
    else:
        disagreements.append({'stream': 'calculate_probabilities', 'detail': 'driver does not build'})
        fp_info = {}
    return {'evaluations': cases, 'distinct_nontrivial': nontrivial, 'traces': cases,
            'rule': 'random counters (count ties, single items, a float pseudo-count) through the real calculate_probabilities vs the Lean '
                    'model bit for bit; full trainings of generated lists (all detector triggers, duplicates, e-mail/website structures) '
                    'for coverage in {0, 0.1, 0.5, 0.6, 1}: every list file must equal the independently recomputed relative-frequency '
                    'list of the real parser\'s counter (text-identical), sum to 1 within 1e-9, be non-increasing and duplicate-free; '
                    'Markov line rules; trainer.py run twice under different PYTHONHASHSEED must give identical trees modulo uuid. '
                    'non-trivial = counter with a tie and >=3 items, or a full training',
            'samples': samples, 'disagreements': disagreements, 'violations': viol, 'distribution': dist,
            'extra': dict({'protocol_ops': len(ops), 'determinism_runs': det_runs}, **fp_info)}


def cli_coverage_case(rng, covtxt, dist, pws=None):
    """trainer.py run as a program with `--coverage <covtxt>` (None: option absent); the ruleset it saves against check_trained"""
    snap = common.snapshot()
    root = common.scratch_dir('c06')
    if pws is None:
        pws = gen_passwords.gen_list(rng, n=rng.randint(10, 18), allow_ew=True)
    tf = os.path.join(root, 'clicov.txt')
    with open(tf, 'wb') as f:
        f.write(('\n'.join(pws) + '\n').encode('utf-8'))
    name = 'clicov_' + (covtxt or 'default').replace('.', '_')
    rd = os.path.join(snap, 'Rules', name)
    if os.path.exists(rd):
        shutil.rmtree(rd)
    args = ['-r', name, '-t', tf, '-e', 'utf-8', '-n', '3'] + (['-c', covtxt] if covtxt is not None else [])
    out, err, rc = common.run_cli('trainer.py', args, stdin='devnull', timeout=300)
    if not os.path.exists(os.path.join(rd, 'Grammar', 'grammar.txt')):
        return None
    cov = float(covtxt) if covtxt is not None else 0.6
    wit = {'passwords': pws, 'coverage': cov, 'cli_coverage': covtxt if covtxt is not None else 'absent'}
    vs = check_trained(rd, tf, 'utf-8', cov, wit, dist)[0]
    shutil.rmtree(rd, ignore_errors=True)
    return vs


def replay(ctx, payload):
    w = payload.get('violation', {}).get('witness') or {}
    if 'cli_coverage' in w:
        return cli_coverage_case(ctx.rng, None if w['cli_coverage'] == 'absent' else w['cli_coverage'], {}, pws=w['passwords']) or []
    if 'counter' in w:
        got = real_calc(w['counter'])
        want = expected_file(w['counter'])
        return [] if [(k, f2h(p)) for k, p in got] == [(k, f2h(p)) for k, p in want] else [{'kind': 'calc-probabilities'}]
    if 'passwords' in w:
        root = common.scratch_dir('c06')
        rd = os.path.join(common.scratch_dir('rules'), 'c06replay')
        tf = os.path.join(root, 'replay.txt')
        steps = ([w['previous']] if w.get('previous') else []) + [w]
        for k, st in enumerate(steps):
            with open(tf, 'wb') as f:
                f.write(('\n'.join(st['passwords']) + '\n').encode('utf-8'))
            if k > 0 and w.get('dropped_empty_folders'):
                for sub in sorted(os.listdir(rd)):
                    if os.path.isdir(os.path.join(rd, sub)) and not os.listdir(os.path.join(rd, sub)):
                        os.rmdir(os.path.join(rd, sub))
            ok, log = common.train(tf, rd, encoding='utf-8', ngram=3, coverage=st['coverage'], keep=(k > 0))
            if not ok:
                if 'no valid passwords were found' in log or 'unable to create any Markov/OMEN NGrams' in log:
                    return []
                return [{'kind': 'training-failed', 'log_tail': log[-200:]}]
        return check_trained(rd, tf, 'utf-8', w['coverage'], {}, {})[0]
    return []
