"""C07 - a saved ruleset means the same thing to every tool that loads it."""
import contextlib
import io
import json
import os
import configparser
from collections import Counter

import common
import corr_loader as cl
import unicode_check
from common import f2h

SITES = ['load_file', 'load_multi', 'load_terminals', 'omen_load_rules', 'omen_load_ngrams', 'omen_load_length', 'omen_load_alphabet', 'cfg_filename_list', 'cfg_create', 'save_indexed', 'save_pcfg_data']
TRUSTED = ['codec encode/decode round-trips for encodable text (CPython codecs are runtime)',
           'str(float) / float(str) round-trip', 'configparser / json round-trip of the file lists']
ASSUMPTIONS = ['values are substrings (or lower-casings) of passwords accepted by check_valid and encodable in the ruleset encoding']

INTERESTING = [' ', '\xa0', ' ', ' ', ' ', '　', '​', '‌', '‍', '﻿', '\x7f', '­',
               '😀', '𝔘', 'é', 'ß', 'я', 'Ω', 'ı', 'ǅ', '́', '"', "'", '\\', '#', ';', '=', '[', ']', '%']
ENCODINGS_QUICK = ['utf-8', 'latin-1', 'cp1251']
ENCODINGS_THOROUGH = ['utf-8', 'latin-1', 'cp1251', 'cp1252', 'koi8-r', 'iso8859-15', 'cp437', 'cp850', 'utf-16', 'gbk', 'shift_jis']


def encodable(s, enc):
    try:
        return s.encode(enc).decode(enc) == s
    except Exception:
        return False


def gen_values(rng, enc, n):
    common.use_impl()
    from lib_trainer.trainer_file_input import check_valid
    vals = set()
    tries = 0
    while len(vals) < n and tries < 500:
        tries += 1
        k = rng.randint(1, 5)
        s = ''.join(rng.choice(INTERESTING + list('abcXYZ019')) for _ in range(k))
        if rng.random() < 0.3:
            s = rng.choice([' ', '\xa0', '　']) + s
        if rng.random() < 0.3:
            s = s + rng.choice([' ', '\xa0', ' '])
        if check_valid(s) and encodable(s, enc):
            vals.add(s)
    return sorted(vals)


def real_scorer_load(path, enc):
    from lib_scorer import grammar_io as sg
    c = Counter()
    err = io.StringIO()
    with contextlib.redirect_stderr(err), contextlib.redirect_stdout(err):
        ok = sg._load_from_file(c, path, enc)
    return dict(c) if ok else None


def multi_file_case(rng, root):
    """one folder of terminal files, a `filenames` list over it (an older file of the same variable listed too, a name twice, sometimes a
    missing file) -> (driver ops, expected answer of the real `_load_from_multiple_files`)"""
    import json
    common.use_impl()
    from lib_guesser import grammar_io
    folder = os.path.join(root, 'multi')
    if os.path.exists(folder):
        import shutil
        shutil.rmtree(folder)
    os.makedirs(os.path.join(folder, 'Digits'))
    cat = rng.choice(['D', 'A', 'O', 'K'])
    pool = ['1.txt', '2.txt', '3.txt', '1.old.txt', '2.bak.txt', '10.txt', '1.txt.orig', '02.txt']
    on_disk = rng.sample(pool, rng.randint(1, 5))
    texts = {}
    for fn in on_disk:
        texts[fn] = cl.gen_terminal_text(rng, malformed=rng.random() < 0.15)
        with open(os.path.join(folder, 'Digits', fn), 'wb') as f:
            f.write(texts[fn].encode('utf-8'))
    listed = [rng.choice(on_disk) for _ in range(rng.randint(1, 5))]
    if rng.random() < 0.15:
        listed.insert(rng.randint(0, len(listed)), 'missing.txt')
    grammar = {'untouched': [{'values': ['x'], 'prob': 0.5}]}
    section = {'directory': 'Digits', 'filenames': json.dumps(listed), 'name': cat}
    err = io.StringIO()
    with contextlib.redirect_stderr(err), contextlib.redirect_stdout(err):
        try:
            ok = grammar_io._load_from_multiple_files(grammar, section, folder, 'utf-8')
        except Exception as e:
            ok = None
    ops = ['ld.new']
    for fn in on_disk:
        ops += cl.float_ops(texts[fn])
    ops.append(' '.join(['ld.multi', cat, str(len(listed))] + [cl.cps(f) for f in listed] + [x for fn in on_disk for x in (cl.cps(fn), cl.cps(texts[fn]))]))
    if not ok:
        want = 'fail'
    else:
        names = sorted(k for k in grammar if k != 'untouched')
        want = ' '.join(['vars'] + [nm + '=' + ' '.join(['ok'] + [' '.join(['|', f2h(g['prob'])] + [cl.cps(v) for v in g["values"]]) for g in grammar[nm]])
                                    for nm in names])
        if grammar.get('untouched') != [{'values': ['x'], 'prob': 0.5}]:
            want += ' other-variable-changed'
    return ops, ['ok'] * (len(ops) - 1) + [want], {'listed': listed, 'on_disk': on_disk, 'same_variable_twice': len({f.split('.')[0] for f in listed}) < len(listed)}


def run(ctx):
    rng = ctx.rng
    viol, samples, disagreements = [], [], []
    ops, exp = ['ld.new'], ['ok']
    dist = {'encoding': {}, 'special_values': 0, 'separators_accepted': 0}
    cases = nontrivial = 0
    common.use_impl()
    from lib_trainer.save_pcfg_data import calculate_and_save_counter
    from lib_trainer.calculate_probabilities import calculate_probabilities
    from lib_guesser import grammar_io as gg
    # 0. exhaustive Unicode facts
    tbl = unicode_check.check_tables()
    if tbl:
        disagreements.append({'stream': 'unicode-tables', 'detail': tbl})
    # the table the theorems are about: read from the generated module itself
    import re as _re
    gen_cv = open(os.path.join(common.LEAN_PROJ, 'PcfgVerif', 'Generated', 'CheckValid.lean'), encoding='utf-8').read()
    rejected = [int(x) for x in _re.search(r'def rejected : List Nat := \[([^\]]*)\]', gen_cv).group(1).split(',') if x.strip()]
    mism = unicode_check.check_valid_table(rejected)
    if mism:
        disagreements.append({'stream': 'check_valid-table', 'detail': mism})
    for c in unicode_check.accepted_separators():
        dist['separators_accepted'] += 1
        viol.append({'property': 'C07', 'kind': 'separator-accepted', 'codepoint': c,
                     'witness': {'password': 'abc' + chr(c) + 'def'}})
    # 0b. through the real reader: no accepted password (plain or $HEX[] encoded) contains a line boundary or TAB
    from lib_trainer.trainer_file_input import TrainerFileInput
    rootr = common.scratch_dir('c07r')
    seps = sorted(set(unicode_check.python_line_seps()) | {9, 0, 1, 0x1f})
    lines = []
    for c in seps:
        body = ('ab' + chr(c) + 'cd').encode('utf-8', errors='surrogatepass')
        lines.append(b'$HEX[' + body.hex().encode() + b']')
        if c not in (10, 13):
            lines.append(body)
    pth = os.path.join(rootr, 'seps.txt')
    with open(pth, 'wb') as f:
        f.write(b'\n'.join(lines) + b'\nplain\n')
    with contextlib.redirect_stdout(io.StringIO()):
        accepted = list(TrainerFileInput(pth, 'utf-8').read_password())
    cases += 1
    for pw in accepted:
        if any(ord(ch) in seps for ch in pw):
            viol.append({'property': 'C07', 'kind': 'separator-accepted', 'codepoint': next(ord(ch) for ch in pw if ord(ch) in seps),
                         'via': 'reader', 'witness': {'password': pw}})
    # 1. real writer -> real loaders, per encoding
    root = common.scratch_dir('c07')
    encs = ENCODINGS_QUICK if ctx.quick else ENCODINGS_THOROUGH
    for enc in encs:
        for rep in range(ctx.scale(12, 60)):
            vals = gen_values(rng, enc, rng.randint(1, 10))
            if not vals:
                continue
            counter = Counter()
            for v in vals:
                counter[v] = rng.choice([1, 1, 2, 3, 5, 8])
            if rep == 0 and enc.lower().replace('-', '') == 'utf8':
                # whatever the seed: the most frequent value - the first line of the file - begins with U+FEFF (a character of the value,
                # not a byte order mark), another consists of it alone
                vals = ['\ufeffbom', 'plain', '\ufeff', 'in\ufeffside']
                counter = Counter({'\ufeffbom': 9, 'plain': 4, '\ufeff': 2, 'in\ufeffside': 1})
            path = os.path.join(root, 'vals.txt')
            out = io.StringIO()
            with contextlib.redirect_stdout(out):
                ok = calculate_and_save_counter(path, Counter(counter), enc)
            if not ok:
                viol.append({'property': 'C07', 'kind': 'writer-failed', 'encoding': enc, 'witness': {'values': vals, 'encoding': enc}})
                continue
            want = calculate_probabilities(Counter(counter))
            sec = []
            err = io.StringIO()
            with contextlib.redirect_stderr(err), contextlib.redirect_stdout(err):
                gok = gg._load_from_file(sec, path, enc)
            got_g = [(v, f2h(g['prob'])) for g in sec for v in g['values']] if gok else None
            want_l = [(v, f2h(p)) for v, p in want]
            cases += 1
            dist['encoding'][enc] = dist['encoding'].get(enc, 0) + 1
            special = any(ch in INTERESTING for v in vals for ch in v)
            dist['special_values'] += int(special)
            if special and len(vals) >= 2:
                nontrivial += 1
            if got_g != want_l:
                viol.append({'property': 'C07', 'kind': 'guesser-loader-differs', 'encoding': enc,
                             'got': str(got_g)[:200], 'want': str(want_l)[:200], 'witness': {'values': vals, 'encoding': enc, 'counts': dict(counter)}})
            got_s = real_scorer_load(path, enc)
            if got_s is None or {k: f2h(v) for k, v in got_s.items()} != dict(want_l):
                viol.append({'property': 'C07', 'kind': 'scorer-loader-differs', 'encoding': enc,
                             'witness': {'values': vals, 'encoding': enc, 'counts': dict(counter)}})
            # groups = maximal runs of equal probability
            if gok:
                for g in sec:
                    pass
                probs = [f2h(g['prob']) for g in sec]
                if any(a == b for a, b in zip(probs, probs[1:])):
                    viol.append({'property': 'C07', 'kind': 'groups-not-maximal', 'witness': {'values': vals, 'encoding': enc}})
            # model correspondence on the very bytes the writer produced
            dec = cl.decode_file(path, enc)
            fo = cl.float_ops(dec)
            ops += fo
            exp += ['ok'] * len(fo)
            ops.append('ld.terminals ' + cl.cps(dec))
            exp.append(cl.real_load_terminals(path, enc))
            if len(samples) < 3 and special:
                samples.append({'encoding': enc, 'values': vals, 'loaded': got_g[:4] if got_g else None})
    # 2. malformed stream (loader vs model only)
    for i in range(ctx.scale(80, 800)):
        enc = rng.choice(['utf-8', 'latin-1', 'cp1251'])
        wellformed = i % 3 == 0
        text = cl.gen_terminal_text(rng, not wellformed)
        data = text.encode(enc, errors='replace')
        if wellformed:
            # a hand-written but well-formed list (distinct values): guesser and scorer must read the same value -> probability map
            lines_ = [l.split('\t') for l in text.split('\n') if l]
            if len({l[0] for l in lines_}) == len(lines_) and all(len(l) == 2 for l in lines_) and '?' not in data.decode(enc, errors='replace').replace(text, ''):
                pw = os.path.join(root, 'well.txt')
                with open(pw, 'wb') as f:
                    f.write(data)
                sec = []
                with contextlib.redirect_stderr(io.StringIO()), contextlib.redirect_stdout(io.StringIO()):
                    gok = gg._load_from_file(sec, pw, enc)
                gmap = {v: f2h(g['prob']) for g in sec for v in g['values']} if gok else None
                smap = real_scorer_load(pw, enc)
                smap = {k: f2h(v) for k, v in smap.items()} if smap is not None else None
                if gmap is not None and smap is not None and gmap != smap:
                    bad = next(k for k in smap if gmap.get(k) != smap[k])
                    viol.append({'property': 'C07', 'kind': 'loaders-disagree', 'value': bad, 'guesser': gmap.get(bad), 'scorer': smap[bad],
                                 'witness': {'text': text, 'encoding': enc}})
        elif rng.random() < 0.2:
            data = data[:len(data) // 2] + b'\xff\xfe' + data[len(data) // 2:]
        p = os.path.join(root, 'mal.txt')
        with open(p, 'wb') as f:
            f.write(data)
        dec = cl.decode_file(p, enc)
        fo = cl.float_ops(dec)
        ops += fo
        exp += ['ok'] * len(fo)
        ops.append('ld.terminals ' + cl.cps(dec))
        exp.append(cl.real_load_terminals(p, enc))
        cases += 1
    # 3. a trained ruleset: config lists = files on disk; OMEN loaders of guesser and scorer agree
    prev_train = None
    for rep in range(ctx.scale(2, 8)):
        enc = ['utf-8', 'cp1251', 'koi8-r', 'latin-1'][rep % 4] if rep % 4 != 3 else 'cp1251'
        letters = 'abcdeXY12! \xa0' + 'яж'          # incl. white space: the n-gram is the last field of an OMEN line
        pws = []
        for _ in range(rng.randint(8, 30)):
            pws.append(''.join(rng.choice(letters) for _ in range(rng.randint(1, 8))))
        pws += pws[:5]
        if rep == 0:
            # whatever the seed: keyboard walks, symbols, years and a context string, so that the next training (over the same
            # rule directory) finds folders of categories it does not produce itself
            # ... and passwords in which white space ends an initial, a transition and an end n-gram of every size 2..4
            # ... and terminals whose length occurs only next to a website / an e-mail address (structures the guesser does not use: the
            # files are written all the same, and listed)
            pws = ['1qaz2wsx', 'zaq1!@#', 'pass1999', '#1love', '$$$', 'Ab12!', 'ab cd ', 'b b b', ' z z ', 'x\xa0y\xa0', 'ab cd ',
                   'www.google.com7777777', 'bob@gmail.com~~~~~'] + pws
        elif rep == 1:
            pws = ['password', 'hello', 'abc', 'Summer', 'password', 'пароль', 'яжяж1', 'пароль']      # cp1251: non-ASCII n-grams in every OMEN file
        tf = os.path.join(root, 'train.txt')
        with open(tf, 'wb') as f:
            f.write(('\n'.join(pws) + '\n').encode(enc))
        rd = os.path.join(common.scratch_dir('rules'), 'c07t')
        ngram = rng.choice([2, 3, 4])
        # every training after the first goes over the directory of the previous one (re-training under the same rule name)
        ok, log = common.train(tf, rd, encoding=enc, ngram=ngram, coverage=0.6, keep=(rep > 0))
        cases += 1
        if not ok:
            continue
        cfg = configparser.ConfigParser()
        cfg.read(os.path.join(rd, 'config.ini'))
        for sec, folder in (('BASE_A', 'Alpha'), ('BASE_D', 'Digits'), ('BASE_O', 'Other'), ('BASE_K', 'Keyboard'),
                            ('BASE_X', 'Context'), ('BASE_Y', 'Years'), ('CAPITALIZATION', 'Capitalization')):
            listed = sorted(json.loads(cfg.get(sec, 'filenames')))
            ondisk = sorted(os.listdir(os.path.join(rd, folder)))
            if listed != ondisk:
                viol.append({'property': 'C07', 'kind': 'config-file-list', 'section': sec, 'listed': listed, 'on_disk': ondisk,
                             'witness': {'passwords': pws, 'encoding': enc, 'previous': prev_train}})
        prev_train = {'passwords': pws, 'encoding': enc}
        from lib_guesser.omen.input_file_io import load_rules
        from lib_scorer.omen_scorer import OmenScorer
        g = {}
        buf = io.StringIO()
        with contextlib.redirect_stdout(buf), contextlib.redirect_stderr(buf):
            okg = load_rules(os.path.join(rd, 'Omen'), g)
        try:
            with contextlib.redirect_stdout(buf), contextlib.redirect_stderr(buf):
                sc = OmenScorer(rd, enc, 18)
        except Exception as e:
            viol.append({'property': 'C07', 'kind': 'scorer-omen-encoding', 'error': repr(e)[:200],
                         'witness': {'passwords': pws, 'encoding': enc}})
            continue
        if not okg:
            # the guesser refuses OMEN files the trainer has just written
            viol.append({'property': 'C07', 'kind': 'omen-loader-refuses-trained-files', 'log_tail': buf.getvalue()[-200:],
                         'witness': {'passwords': pws, 'encoding': enc}})
        if okg:
            # what the guesser loaded against the text of the files, read here in the ruleset's encoding: every n-gram the guesser
            # holds is a string over the loaded alphabet of the right length, and the three level files list the same contexts
            # the alphabet the guesser holds is the one the trainer learned from the list (same characters, same order)
            try:
                import train_util as _tu
                from lib_trainer.trainer_file_input import TrainerFileInput as _TFI
                _, want_alpha = _tu.first_pass(list(_TFI(tf, enc).read_password()), ngram, 100)
                if list(g['alphabet']) != list(want_alpha):
                    viol.append({'property': 'C07', 'kind': 'omen-alphabet-differs-from-trainer', 'loaded': list(g['alphabet'])[:12], 'trainer': list(want_alpha)[:12],
                                 'witness': {'passwords': pws, 'encoding': enc}})
            except Exception as e_:
                dist['alphabet_compare_skipped'] = dist.get('alphabet_compare_skipped', 0) + 1
            alpha = set(g['alphabet'])
            bad = [s for l, lst in g['ip'].items() for s in lst if len(s) != g['ngram'] - 1 or not set(s) <= alpha]
            bad += [pre + ch for pre, d in g['cp'].items() for l, chs in d.items() for ch in chs
                    if len(pre) != g['ngram'] - 1 or len(ch) != 1 or not set(pre + ch) <= alpha]
            ips = {s for l, lst in g['ip'].items() for s in lst}
            if bad or not set(g['cp']) <= ips:
                viol.append({'property': 'C07', 'kind': 'omen-ngrams-not-over-alphabet', 'examples': bad[:4],
                             'contexts_without_ip_entry': sorted(set(g['cp']) - ips)[:4], 'witness': {'passwords': pws, 'encoding': enc}})
            gip = {s: l for l, lst in g['ip'].items() for s in lst}
            gcp = {pre + ch: l for pre, d in g['cp'].items() for l, chs in d.items() for ch in chs}
            if gip != sc.ip or gcp != sc.cp or sc.ngram != g['ngram']:
                viol.append({'property': 'C07', 'kind': 'scorer-omen-encoding' if enc != 'utf-8' else 'omen-loaders-differ',
                             'witness': {'passwords': pws, 'encoding': enc}})
            gln = {n + g['ngram'] - 1: l for l, lst in g['ln'].items() for n in lst}
            sln = {i: l for i, l in enumerate(sc.ln) if i >= g['ngram']}
            if gln != sln:
                viol.append({'property': 'C07', 'kind': 'omen-length-loaders-differ', 'witness': {'passwords': pws, 'encoding': enc}})
    # 3c. whatever the seed: a list on which the Markov part learns nothing (every password is shorter than the n-gram size; coverage 1
    # asks for no Markov share, so training succeeds): no alphabet, no n-gram - and that is what the guesser's loader reads back
    tfe = os.path.join(root, 'no_omen.txt')
    with open(tfe, 'w', encoding='utf-8') as f:
        f.write('\n'.join(['1234', 'abcd', 'Pass', '#1ab', '1999', 'qwer', '1234']) + '\n')
    rde = os.path.join(common.scratch_dir('rules'), 'c07empty')
    oke, _ = common.train(tfe, rde, ngram=5, coverage=1.0)
    cases += 1
    if oke:
        from lib_guesser.omen.input_file_io import load_rules as _lr
        ge = {}
        with contextlib.redirect_stdout(io.StringIO()), contextlib.redirect_stderr(io.StringIO()):
            try:
                _lr(os.path.join(rde, 'Omen'), ge)
            except Exception:
                pass
        loaded_e = {'alphabet': list(ge.get('alphabet', [])), 'ip': sorted(s for lst in ge.get('ip', {}).values() for s in lst), 'cp': sorted(ge.get('cp', {}))}
        if loaded_e != {'alphabet': [], 'ip': [], 'cp': []}:
            viol.append({'property': 'C07', 'kind': 'omen-alphabet-differs-from-trainer', 'loaded': str(loaded_e)[:200], 'trainer': 'nothing learned',
                         'witness': {'empty_omen_case': True}})
        dist['empty_omen_case'] = 1
    # 3d. whatever the seed: words that are different strings and fold to the same string (final / medial sigma, micro sign / mu, long s):
    # the trainer keeps them apart and writes both; the guesser and the scorer read back every line of every word file
    tfc = os.path.join(root, 'fold_twins.txt')
    twins = ['\u03ba\u03bf\u03c3\u03bc\u03bf\u03c2', '\u03ba\u03bf\u03c3\u03bc\u03bf\u03c3', '\u00b5torrent', '\u03bctorrent', '\u017ftop1', 'stop1', 'password', 'Password']
    with open(tfc, 'w', encoding='utf-8') as f:
        f.write('\n'.join(twins + twins[:4]) + '\n')
    rdc = os.path.join(common.scratch_dir('rules'), 'c07twins')
    okc, _ = common.train(tfc, rdc, ngram=3, coverage=0.6)
    cases += 1
    if okc:
        gc_ = common.load_grammar(rdc)
        for fn_ in sorted(os.listdir(os.path.join(rdc, 'Alpha'))):
            on_disk = [ln.split('\t')[0] for ln in open(os.path.join(rdc, 'Alpha', fn_), encoding='utf-8').read().split('\n') if ln]
            loaded = [v for g_ in gc_.grammar.get('A' + fn_.split('.')[0], []) for v in g_['values']]
            if sorted(loaded) != sorted(on_disk):
                viol.append({'property': 'C07', 'kind': 'guesser-words-differ-from-file', 'file': 'Alpha/' + fn_, 'loaded': loaded[:8], 'on_disk': on_disk[:8],
                             'witness': {'fold_twins_case': True}})
        dist['fold_twins_case'] = 1
    # 3b. whatever the seed: a list whose base-structure probabilities (count / total, each correctly rounded) add up to 0.9999999999999999 -
    # every number of grammar.txt is read back as that number by the guesser (no flag: nothing is rescaled) and by the scorer
    tfb = os.path.join(root, 'base_sum.txt')
    with open(tfb, 'w', encoding='utf-8') as f:
        f.write('hello\n' * 12 + 'hello1\n')
    rdb = os.path.join(common.scratch_dir('rules'), 'c07base')
    okb, _ = common.train(tfb, rdb, ngram=4, coverage=0.6)
    cases += 1
    if okb:
        rows_b = [ln.rsplit('\t', 1) for ln in open(os.path.join(rdb, 'Grammar', 'grammar.txt'), encoding='utf-8').read().split('\n') if ln]
        gb = common.load_grammar(rdb)
        got_b = [(''.join(x for x in b['replacements'] if not x.startswith('C')), f2h(b['prob'])) for b in gb.base]
        want_b = [(st, f2h(float(pr))) for st, pr in rows_b]
        if got_b != want_b:
            viol.append({'property': 'C07', 'kind': 'guesser-base-structures-differ-from-file', 'loaded': str(got_b)[:200], 'file': str(want_b)[:200],
                         'witness': {'passwords': ['hello'] * 12 + ['hello1'], 'encoding': 'utf-8', 'coverage': 0.6}})
        dist['base_sum_below_one'] = abs(sum(float(pr) for _, pr in rows_b) - 1.0) > 0
    # 4. `_load_from_multiple_files` against the Lean model: several files per variable, a name listed twice, missing files
    multi_meta = {}
    for _ in range(ctx.scale(40, 400)):
        mo, me, info = multi_file_case(rng, root)
        multi_meta[len(ops) + len(mo) - 1] = info
        ops += mo
        exp += me
        cases += 1
        dist['multi_same_variable_twice'] = dist.get('multi_same_variable_twice', 0) + int(info['same_variable_twice'])
    if ctx.driver_ok:
        out = common.run_driver(ops)
        for i, (a, b) in enumerate(zip(out, exp)):
            if a != b:
                disagreements.append({'stream': 'load_from_file', 'op': ops[i][:200], 'model': a[:300], 'implementation': b[:300]})
                if len(disagreements) >= 5:
                    break
    else:
        disagreements.append({'stream': 'load_from_file', 'detail': 'driver does not build'})
    return {'evaluations': cases, 'distinct_nontrivial': nontrivial, 'traces': cases,
            'rule': 'exhaustive over all 1,114,112 code points: Lean tables of line boundaries / whitespace = the interpreter\'s, '
                    'check_valid table = the function, no accepted character is a line boundary or TAB; then values built from the '
                    'characters str.strip/str.splitlines treat specially (plus non-BMP, combining, quotes, ini metacharacters, leading/'
                    'trailing spaces) written by the real calculate_and_save_counter in each encoding and read back by the guesser\'s and '
                    'the scorer\'s loaders and the Lean model; a malformed stream for the loader model; trained rulesets: config file '
                    'lists vs directory contents, OMEN tables of guesser vs scorer. non-trivial = >=2 values with a special character',
            'samples': samples, 'disagreements': disagreements, 'violations': viol, 'distribution': dist,
            'exhaustive': False, 'extra': {'codepoints_checked': 0x110000, 'protocol_ops': len(ops)}}


def replay(ctx, payload):
    w = payload.get('violation', {}).get('witness') or {}
    common.use_impl()
    out = []
    if 'password' in w:
        from lib_trainer.trainer_file_input import check_valid
        if check_valid(w['password']) and len(w['password'].splitlines()) > 1:
            out.append({'kind': 'separator-accepted'})
    elif 'values' in w:
        from lib_trainer.save_pcfg_data import calculate_and_save_counter
        from lib_guesser import grammar_io as gg
        path = os.path.join(common.scratch_dir('c07'), 'replay.txt')
        c = Counter(w.get('counts') or {v: 1 for v in w['values']})
        with contextlib.redirect_stdout(io.StringIO()):
            calculate_and_save_counter(path, Counter(c), w['encoding'])
        sec = []
        with contextlib.redirect_stderr(io.StringIO()):
            ok = gg._load_from_file(sec, path, w['encoding'])
        got = sorted(v for g in sec for v in g['values']) if ok else None
        if got != sorted(c):
            out.append({'kind': 'roundtrip', 'got': got})
    elif 'passwords' in w:
        # a trained ruleset (after the previous training into the same directory, if one is recorded): config lists = files on disk
        rd = os.path.join(common.scratch_dir('rules'), 'c07replay')
        tf = os.path.join(common.scratch_dir('c07'), 'replay_train.txt')
        steps = ([w['previous']] if w.get('previous') else []) + [w]
        for k, st in enumerate(steps):
            with open(tf, 'wb') as f:
                f.write(('\n'.join(st['passwords']) + '\n').encode(st['encoding']))
            ok, _ = common.train(tf, rd, encoding=st['encoding'], ngram=3, coverage=0.6, keep=(k > 0))
            if not ok:
                return out
        cfg = configparser.ConfigParser()
        cfg.read(os.path.join(rd, 'config.ini'))
        for sec, folder in (('BASE_A', 'Alpha'), ('BASE_D', 'Digits'), ('BASE_O', 'Other'), ('BASE_K', 'Keyboard'),
                            ('BASE_X', 'Context'), ('BASE_Y', 'Years'), ('CAPITALIZATION', 'Capitalization')):
            if sorted(json.loads(cfg.get(sec, 'filenames'))) != sorted(os.listdir(os.path.join(rd, folder))):
                out.append({'kind': 'config-file-list', 'section': sec})
    return out
