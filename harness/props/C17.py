"""C17 - PRINCE-LING emits the ruleset's words most-probable-first, up to the size asked."""
import os

import common
import corr_pq
import corr_expand
import gen_rulesets
from props import pq_shared

SITES = pq_shared.PQ_SITES + ['prince_list', 'rec_guesses', 'create_guesses', 'print_guess']
TRUSTED = pq_shared.PQ_TRUSTED + ['codecs file writer writes the same text as print() (encoding of the ruleset)']
ASSUMPTIONS = ['Prince/grammar.txt lists single variables (what prince_metrics counts)']


def prince_spec(rng, ngram=None):
    # PRINCE-LING loads the whole ruleset, the OMEN part included: every n-gram size the trainer offers (--ngram 2..5)
    import gen_omen
    om = gen_omen.gen_omen(rng, ngram=ngram or rng.choice([2, 3, 4, 5]), nletters=2, maxlen_extra=0)
    spec = gen_rulesets.gen_ruleset(rng, max_structs=3, max_pos=3, max_groups=3, max_vals=3, markov=False, omen=om,
                                    mode=rng.choice(['dyadic', 'dyadic', 'float']))
    types = [t for t in spec['terminals'] if t[0] != 'C']
    rng.shuffle(types)
    probs = sorted((rng.choice(gen_rulesets.DYADIC) for _ in types), key=float, reverse=True)
    spec['prince'] = [[t, p] for t, p in zip(types, probs)]
    return spec


def in_process(pcfg):
    """(words in order, list of (prob, words) per pre-terminal)"""
    pq = corr_pq.fresh_queue(pcfg)
    words, groups = [], []
    while True:
        it = pq.next()
        if it is None:
            break
        n, ls, raised = corr_expand.real_create(pcfg, it['pt'], None)
        words += ls
        groups.append((it['prob'], it['pt'], ls))
    return words, groups


def lines_of(b, enc='utf-8'):
    t = b.decode(enc, errors='replace').split('\n')
    if t and t[-1] == '':
        t.pop()
    return t


def file_output_edge_cases(ctx):
    """the same list goes to a file as to standard output - also when the list is empty and when the number of words is a round
    number of an output buffer (4096, 8192) or just next to it"""
    rng = ctx.rng
    viol, runs = [], 0
    cases = []
    empty = prince_spec(rng, ngram=2)
    empty['prince'] = []
    cases.append(('empty-prince-grammar', empty, [None]))
    big = {'terminals': {'D5': [['%05d' % k, repr(0.5 / 5000)] for k in range(5000)] + [['%05d' % k, repr(0.5 / 4000)] for k in range(5000, 9000)]},
           'grammar': [['D5', '1.0']], 'prince': [['D5', '1.0']], 'omen_prob': [], 'mode': 'float', 'encoding': 'utf-8'}
    big['terminals']['D5'].sort(key=lambda it: -float(it[1]))
    cases.append(('buffer-sized', big, [4096, 4095, 4097] if ctx.quick else [4096, 4095, 4097, 8192, 8191, 1, None]))
    for tag, spec, sizes in cases:
        name = 'pr_' + tag.replace('-', '_')
        common.install_ruleset(spec, name)
        for n in sizes:
            args = ['-r', name] + (['-s', str(n)] if n else [])
            out, err, rc = common.run_cli('prince_ling.py', args, stdin='devnull')
            ofile = os.path.join(common.scratch_dir('prout'), f"edge_{tag}_{n}.txt")
            if os.path.exists(ofile):
                os.remove(ofile)
            out2, err2, rc2 = common.run_cli('prince_ling.py', args + ['-o', ofile], stdin='devnull')
            runs += 2
            data = open(ofile, 'rb').read() if os.path.exists(ofile) else None
            if data != out or out2 != b'' or (n and out.count(b'\n') != min(n, 9000)):
                viol.append({'property': 'C17', 'kind': 'file-differs-from-stdout', 'case': tag, 'size': n, 'stdout_lines': out.count(b'\n'),
                             'file_bytes': None if data is None else len(data), 'stdout_bytes': len(out),
                             'witness': {'edge_case': tag, 'size': n}})
    return viol, runs


TRAINED_LIST = ['dragon12', 'bob@gmail.com', 'alice@yahoo.com12', 'www.google.com', 'http://rockyou.com/1', 'monkey', '12', 'dragon', 'dragon',
                'monkey7', 'Pass!', 'qwer1234', '1999love', '#1fan', '12', 'dragon12', 'carol@gmail.com', '12www.google.com',
                # one segment text several times in one password
                'abc12abc', 'abc12abc', 'abc12abc', '55555', '55555', '55555', '55555', '55555', '7x7x7',
                # a compound of three frequent words and, later, its two-word tail on its own and behind another word
                ] + ['blue'] * 6 + ['cats'] * 9 + ['dogs'] * 9 + ['fish'] * 8 + ['bluecatsdogs', 'fish!', 'catsdogs', 'CatsDogs1', 'fishcatsdogs']


def trained_ruleset_case(pws=None):
    """trainer -> PRINCE-LING: a ruleset trained from a list in which some passwords hold an e-mail address or a web site.  The words
    are the terminals of the ruleset: every value of every terminal list the trainer wrote (e-mail providers and web hosts included)
    comes out once, and every such list has its label in Prince/grammar.txt"""
    from collections import Counter
    pws = pws or TRAINED_LIST
    tf = os.path.join(common.scratch_dir('c17t'), 'list.txt')
    with open(tf, 'w', encoding='utf-8') as f:
        f.write(''.join(p + '\n' for p in pws))
    rd = os.path.join(common.scratch_dir('rules'), 'c17trained')
    ok, log = common.train(tf, rd, coverage=0.6)
    wit = {'trained_passwords': pws}
    if not ok:
        return [{'property': 'C17', 'kind': 'training-failed', 'log_tail': log[-200:], 'witness': wit}]
    labels = [ln.split('\t')[0] for ln in open(os.path.join(rd, 'Prince', 'grammar.txt'), encoding='ascii').read().split('\n') if ln]
    lists = {}
    for folder, letter in (('Alpha', 'A'), ('Digits', 'D'), ('Other', 'O'), ('Keyboard', 'K')):
        for fn in sorted(os.listdir(os.path.join(rd, folder))):
            lists[letter + fn.split('.')[0]] = os.path.join(rd, folder, fn)
    lists.update({'Y1': os.path.join(rd, 'Years', '1.txt'), 'X1': os.path.join(rd, 'Context', '1.txt'),
                  'E': os.path.join(rd, 'Emails', 'email_providers.txt'), 'W': os.path.join(rd, 'Websites', 'website_hosts.txt')})
    values = {lab: [ln.split('\t')[0] for ln in open(pth, encoding='utf-8').read().split('\n') if ln] for lab, pth in lists.items() if os.path.exists(pth)}
    out = []
    missing = sorted(lab for lab, vs in values.items() if vs and lab not in labels)
    if missing:
        out.append({'property': 'C17', 'kind': 'terminal-list-missing-from-prince-grammar', 'labels': missing, 'witness': wit})
    # the PRINCE grammar of a trained ruleset is the relative frequency of the section labels - tallied here from the sections the
    # real detectors produce for each password, one count per section
    import train_util
    from collections import Counter as _Counter
    mw, _ = train_util.first_pass(pws)
    # (every password is segmented by a copy of the trained detector that has answered nothing yet)
    import pickle
    try:
        pristine = pickle.dumps(mw)
        fresh = lambda: pickle.loads(pristine)
    except Exception:
        # a detector that cannot be copied is trained again for every password (same list, same order: the same tables)
        fresh = lambda: train_util.first_pass(pws)[0]
    tally = _Counter(lab for p_ in pws for _, lab in train_util.section_list_of(p_, fresh()))
    tot = sum(tally.values())
    wantp = {lab: n / tot for lab, n in tally.items()}
    gotp = {ln.split('\t')[0]: float(ln.split('\t')[1]) for ln in open(os.path.join(rd, 'Prince', 'grammar.txt'), encoding='ascii').read().split('\n') if ln}
    if gotp != wantp:
        diff = sorted(k for k in set(gotp) | set(wantp) if gotp.get(k) != wantp.get(k))
        out.append({'property': 'C17', 'kind': 'prince-grammar-not-label-frequencies', 'labels': diff[:6],
                    'saved': [gotp.get(k) for k in diff[:6]], 'tallied': [wantp.get(k) for k in diff[:6]], 'witness': wit})
    common.install_ruleset(rd, 'c17trained')
    o, e, rc = common.run_cli('prince_ling.py', ['-r', 'c17trained', '--all_lower'], stdin='devnull')
    got = Counter(lines_of(o))
    want = Counter(v for lab, vs in values.items() for v in vs)
    if rc != 0 or got != want:
        out.append({'property': 'C17', 'kind': 'trained-ruleset-words-differ-from-terminals', 'rc': rc, 'missing': sorted((want - got))[:6],
                    'extra': sorted((got - want))[:6], 'witness': wit})
    return out


def every_size_case(prop):
    """the real `create_prince_wordlist` for every `--size` from 1 to the whole list, on a ruleset with more word types than the smallest
    sizes and first pre-terminals that rank differently from their types (base x best group): each list is non-increasing in probability
    and consists of the most probable words - the N best, the tied ones in any order"""
    import contextlib
    import io
    rows = [('D1', 0.1875, [('7', 0.75), ('3', 0.25)]), ('D2', 0.15625, [('12', 0.25), ('21', 0.25), ('69', 0.25), ('23', 0.25)]),
            ('D3', 0.15625, [('123', 0.875), ('321', 0.125)]),
            ('D4', 0.125, [(w, 0.125) for w in ('1234', '2000', '2001', '1111', '4321', '0000', '1212', '6969')]),
            ('D5', 0.125, [(w, 0.25) for w in ('12345', '54321', '11111', '00000')]), ('D6', 0.125, [('123456', 1.0)]),
            ('D7', 0.125, [('1234567', 0.75), ('7654321', 0.25)])]
    spec = {'terminals': {t: [[v, repr(p)] for v, p in vals] for t, _, vals in rows}, 'grammar': [[t, repr(bp)] for t, bp, _ in rows],
            'prince': [[t, repr(bp)] for t, bp, _ in rows], 'omen_prob': [], 'mode': 'dyadic', 'encoding': 'utf-8'}
    d = common.write_ruleset(os.path.join(common.scratch_dir('rules'), 'prsizes'), spec)
    prob = {v: bp * p for _, bp, vals in rows for v, p in vals}
    best = sorted(prob.values(), reverse=True)
    common.use_impl()
    from lib_princeling.wordlist_generation import create_prince_wordlist
    viol = []
    for lower in (False, True):
        pcfg = common.load_grammar(d, skip_case=lower, folder='Prince')
        for n in list(range(1, len(best) + 2)) + [None]:
            buf = io.StringIO()
            with contextlib.redirect_stdout(buf), contextlib.redirect_stderr(io.StringIO()):
                create_prince_wordlist(pcfg, n)
            words = buf.getvalue().split('\n')[:-1]
            ps = [prob.get(w) for w in words]
            want = best if n is None else best[:n]
            if None in ps or ps != want:
                viol.append({'property': prop, 'kind': 'size-not-most-probable-first', 'size': n, 'all_lower': lower, 'words': words[:8],
                             'probabilities': [p for p in ps[:8]], 'expected_probabilities': want[:8], 'witness': {'every_size_case': True}})
                break
    return viol


def run(ctx):
    rng = ctx.rng
    viol, samples = [], []
    dist = {'all_lower': {}, 'size': {}, 'tie_groups': 0}
    cases = nontrivial = runs = 0
    viol += trained_ruleset_case()
    cases += 1
    viol += every_size_case('C17')
    cases += 1
    runs += 1
    dist['trained_rulesets'] = 1
    # trace validation of the queue over the Prince grid (same machinery as C01/C02)
    ops, exp, meta = [], [], []
    # cheap part: trace validation + each-once oracle on many Prince grids (ties between word and mask probabilities)
    for i in range(ctx.scale(60, 400)):
        spec = prince_spec(rng)
        if i == 0:
            # variable names and group indices that read the same when written one after the other: (D2, 11) / (D21, 1), (O1, 11) / (O11, 1)
            probs12 = [repr(2.0 ** -(k + 2)) for k in range(12)]
            spec = {'terminals': {'D2': [['%02d' % k, p] for k, p in enumerate(probs12)],
                                  'D21': [['1' * 21, '0.5'], ['2' * 21, '0.25']],
                                  'O1': [[c, p] for c, p in zip('!#$%&*+-/:;=', probs12)],
                                  'O11': [['!' * 11, '0.5'], ['#' * 11, '0.25']]},
                    'grammar': [['D2', '0.25'], ['D21', '0.25'], ['O1', '0.25'], ['O11', '0.25']],
                    'prince': [['D2', '0.4'], ['D21', '0.3'], ['O1', '0.2'], ['O11', '0.1']], 'omen_prob': [], 'mode': 'dyadic', 'encoding': 'utf-8'}
        d = common.write_ruleset(os.path.join(common.scratch_dir('rules'), f'prt{i % 10}'), spec)
        lower = rng.random() < 0.3
        try:
            r = corr_pq.run_case(d, {'skip_case': lower, 'folder': 'Prince'}, rng, ncuts=0, spec=spec)
        except Exception as e:
            viol.append({'property': 'C17', 'kind': 'load-raised', 'error': repr(e)[:200], 'witness': {'spec': spec}})
            continue
        if r:
            start = len(ops)
            ops += r['ops']
            exp += r['expected']
            meta.append((start, len(ops), spec))
            cases += 1
            for v in r['violations']:
                viol.append(dict(v, property='C17', kind='not-each-once' if v['property'] == 'C02' else v['kind'], witness={'spec': spec, 'all_lower': lower}))
    for i in range(ctx.scale(10, 50)):
        spec = prince_spec(rng, ngram=2 + i % 4)
        if i == 3:
            # whatever the seed: words of two types whose probabilities are different numbers within 1e-9 of each other, relatively
            spec = dict(spec, terminals={'D1': [['7', '0.4'], ['3', '0.35'], ['1', '0.25']],
                                         'D2': [['42', '0.4000000002'], ['12', '0.3499999999'], ['99', '0.2499999999']]},
                        grammar=[['D1', '0.5'], ['D2', '0.5']], prince=[['D1', '0.5'], ['D2', '0.5']])
            spec.pop('decoy_files', None); spec.pop('listed_twice', None); spec.pop('no_final_newline', None)
        if i == 2:
            # whatever the seed: groups of four and three equally probable words and two equally probable masks; every N is tried
            spec = dict(spec, terminals={'A3': [['abc', '0.25'], ['abd', '0.25'], ['abe', '0.25'], ['abf', '0.25']],
                                         'C3': [['LLL', '0.5'], ['ULL', '0.5']], 'D2': [['11', '0.3'], ['22', '0.3'], ['33', '0.3'], ['44', '0.1']]},
                        grammar=[['A3D2', '0.5'], ['D2', '0.5']], prince=[['A3', '0.5'], ['D2', '0.5']])
            spec.pop('decoy_files', None); spec.pop('listed_twice', None); spec.pop('no_final_newline', None)
        dist.setdefault('omen_ngram', {})[str(2 + i % 4)] = dist.get('omen_ngram', {}).get(str(2 + i % 4), 0) + 1
        name = f"pr{i % 6}"
        d = common.install_ruleset(spec, name)
        # the first rulesets are run under both settings one after the other on the same installed directory (anything a run leaves
        # behind in the ruleset must not leak into the next run with the other setting), both orders
        for lower in ([False, True] if (not ctx.quick or i == 0) else ([True, False] if i == 1 else [rng.random() < 0.4])):
            try:
                pcfg = common.load_grammar(d, skip_case=lower, folder='Prince')
            except Exception as e:
                viol.append({'property': 'C17', 'kind': 'load-raised', 'error': repr(e)[:200], 'witness': {'spec': spec}})
                continue
            r = corr_pq.run_case(d, {'skip_case': lower, 'folder': 'Prince'}, rng, ncuts=0, spec=spec)
            if r:
                start = len(ops)
                ops += r['ops']
                exp += r['expected']
                meta.append((start, len(ops), spec))
                for v in r['violations']:
                    v = dict(v, property='C17', witness={'spec': spec, 'all_lower': lower})
                    viol.append(v)
            words, groups = in_process(pcfg)
            total = len(words)
            cases += 1
            # oracle: non-increasing; each (type, value, capitalisation) once
            probs = [g[0] for g in groups]
            if any(b > a for a, b in zip(probs, probs[1:])):
                viol.append({'property': 'C17', 'kind': 'order', 'witness': {'spec': spec, 'all_lower': lower}})
            want = []
            for b in pcfg.base:
                import itertools
                for idx in itertools.product(*[range(len(pcfg.grammar[r])) for r in b['replacements']]):
                    pt = [(r, j) for r, j in zip(b['replacements'], idx)]
                    want += [(tuple(pt), w) for w in corr_expand.product_oracle(pcfg, pt)]
            got = [(tuple(g[1]), w) for g in groups for w in g[2]]
            if sorted(got) != sorted(want):
                viol.append({'property': 'C17', 'kind': 'not-each-once', 'lens': [len(got), len(want)], 'witness': {'spec': spec, 'all_lower': lower}})
            flags = ['--all_lower'] if lower else []
            out, err, rc = common.run_cli('prince_ling.py', ['-r', name] + flags, stdin='devnull')
            runs += 1
            if lines_of(out) != words:
                viol.append({'property': 'C17', 'kind': 'stdout-differs', 'lens': [len(lines_of(out)), total],
                             'witness': {'spec': spec, 'all_lower': lower}})
            ofile = os.path.join(common.scratch_dir('prout'), f"w{i}.txt")
            out2, err2, rc2 = common.run_cli('prince_ling.py', ['-r', name, '-o', ofile] + flags, stdin='devnull')
            runs += 1
            fl = lines_of(open(ofile, 'rb').read()) if os.path.exists(ofile) else None
            if fl != words or out2 != b'':
                viol.append({'property': 'C17', 'kind': 'file-differs-from-stdout', 'witness': {'spec': spec, 'all_lower': lower}})
            tie = any(len(g[2]) > 1 for g in groups)
            dist['tie_groups'] += int(tie)
            dist['all_lower'][str(lower)] = dist['all_lower'].get(str(lower), 0) + 1
            if tie and total >= 4:
                nontrivial += 1
            sizes = {1, 2, total, total + 1}
            acc = 0
            for g in groups:            # N inside every group of equally probable words
                if len(g[2]) > 1:
                    sizes.add(acc + 1)
                    sizes.add(acc + len(g[2]) - 1)
                acc += len(g[2])
            sizes = sorted(s for s in sizes if s >= 1)
            if i in (2, 3):
                sizes = list(range(1, total + 2))
            elif ctx.quick and len(sizes) > 6:
                sizes = sorted(rng.sample(sizes, 6))
            for n in sizes:
                out, err, rc = common.run_cli('prince_ling.py', ['-r', name, '-s', str(n)] + flags, stdin='devnull')
                runs += 1
                got_n = lines_of(out)
                inside = n < total and any(True for _ in [0])
                dist['size']['inside' if n < total else 'at-or-above'] = dist['size'].get('inside' if n < total else 'at-or-above', 0) + 1
                if got_n != words[:n]:
                    viol.append({'property': 'C17', 'kind': 'size-overrun' if len(got_n) > n else 'size-not-prefix',
                                 'size': n, 'lines': len(got_n), 'total': total, 'witness': {'spec': spec, 'all_lower': lower, 'size': n}})
            if len(samples) < 3 and tie:
                samples.append({'prince': spec['prince'], 'all_lower': lower, 'total': total, 'sizes': sizes, 'head': words[:5]})
    v_edge, r_edge = file_output_edge_cases(ctx)
    viol += v_edge
    runs += r_edge
    dist['file_edge_runs'] = r_edge
    disagreements = []
    if ctx.driver_ok:
        out = common.run_driver(ops)
        for i, (a, b) in enumerate(zip(out, exp)):
            if a != b:
                disagreements.append({'stream': 'pq-trace-prince', 'op': ops[i][:200], 'model': a[:300], 'implementation': b[:300]})
                if len(disagreements) >= 5:
                    break
    else:
        disagreements.append({'stream': 'pq', 'detail': 'driver does not build'})
    return {'evaluations': cases + runs, 'distinct_nontrivial': nontrivial, 'traces': cases,
            'rule': 'rulesets with a Prince grammar (single variables, ties between words of a group, several masks) installed in the '
                    'snapshot; prince_ling.py run as a subprocess unbounded, with -o FILE, and with -s N for N = 1, 2, total, total+1 '
                    'and N just inside every group of equally probable words, under both --all_lower settings; stdout is compared with '
                    'the in-process stream (real PcfgQueue over the Prince folder + create_guesses), itself validated against the Lean '
                    'queue model and an independent enumeration of (type, value, mask). non-trivial = a group with several words and >=4 words',
            'samples': samples, 'disagreements': disagreements, 'violations': viol, 'distribution': dist,
            'extra': {'cli_runs': runs}}


def replay(ctx, payload):
    if (payload.get('violation', {}).get('witness') or {}).get('every_size_case'):
        return every_size_case('C17')
    if 'edge_case' in (payload.get('violation', {}).get('witness') or {}):
        return file_output_edge_cases(ctx)[0]
    w = payload.get('violation', {}).get('witness') or {}
    if not w:
        return []
    if 'trained_passwords' in w:
        common.use_impl()
        return trained_ruleset_case(w['trained_passwords'])
    d = common.install_ruleset(w['spec'], 'replay17')
    lower = bool(w.get('all_lower'))
    pcfg = common.load_grammar(d, skip_case=lower, folder='Prince')
    words, groups = in_process(pcfg)
    flags = ['--all_lower'] if lower else []
    out = []
    if 'size' in w:
        o, e, rc = common.run_cli('prince_ling.py', ['-r', 'replay17', '-s', str(w['size'])] + flags, stdin='devnull')
        if lines_of(o) != words[:w['size']]:
            out.append({'kind': 'size', 'lines': len(lines_of(o))})
    else:
        o, e, rc = common.run_cli('prince_ling.py', ['-r', 'replay17'] + flags, stdin='devnull')
        if lines_of(o) != words:
            out.append({'kind': 'stdout-differs'})
    return out
