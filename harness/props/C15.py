"""C15 - a Markov level interrupted mid-way resumes at the very next guess."""
import configparser
import os

import common
import corr_loader as cl
import sched_session as ss
from props import C12

SITES = ['session_run', 'save_session', 'keypress', 'omen_gen', 'restore_omen', 'mc_save', 'mc_load', 'mc_next', 'pq_init', 'pq_update_save', 'pq_restore_base']
TRUSTED = ['pickle round-trip of the enumerator state (target level, cursors, parse tree)', 'configparser round-trip of the .sav file'] + C12.TRUSTED[:1]
ASSUMPTIONS = ['the interrupted Markov pre-terminal is not the very last pre-terminal of the run (then the main loop finds the queue '
               'empty and returns without saving - recorded separately if it occurs)', 'pre-terminal probabilities are distinct (ties are C08)']


def load_cfg(sf):
    c = configparser.ConfigParser()
    c.read(sf)
    return c


def quit_schedule(units, ui, j, later=0):
    """main runs until guess j of unit ui has been printed, then the keyboard thread handles 'q'"""
    steps = 0
    for k, u in enumerate(units):
        steps += 1                      # pop
        if k == ui:
            steps += j + 1
            break
        steps += len(u[2]) + (1 if u[0] == 'm' else 0)      # a Markov level ends with one more call of the generator
    return 'm' * (steps - 1) + 'kk' + 'm' * (sum(len(u[2]) + 2 for u in units) + 5)


def big_markov_spec():
    """a ruleset whose first pre-terminal is a Markov level of 2,015,538 strings (6 letters, lengths 2..8, every n-gram at level 0, every
    length at level 1), followed by a plain structure of 10,000 guesses: a `q` typed while guesses flow lands inside the level (the
    keyboard thread acts a tenth of a second after it read the line; block-buffered output runs at a million lines a second and more)"""
    letters = ['a', 'b', 'c', 'd', 'e', 'f']
    om = {'ngram': 2, 'alphabet': letters, 'ip': [[0, x] for x in letters], 'ep': [[0, x] for x in letters],
          'cp': [[0, x + y] for x in letters for y in letters], 'ln': [10] + [1] * 7, 'keyspace': [[1, 2015538]]}
    words = ['%c%c%c' % (a, b, c) for a in 'abcde' for b in 'xy' for c in 'mnopq']
    d3 = [['%03d' % k, repr(0.01)] for k in range(100)]
    return {'terminals': {'A3': [[w, repr(1 / 50)] for w in words], 'C3': [['LLL', '0.7'], ['ULL', '0.3']], 'D3': d3},
            'grammar': [['M', '0.6'], ['A3D3', '0.4']], 'omen_prob': [['1', '0.5']], 'prince': [], 'encoding': 'utf-8', 'omen': om}


def big_plain_spec():
    """20 pre-terminals of 50,000 guesses each with pairwise different probabilities (no Markov structure): a million lines, so that a
    `q` typed while guesses flow is acted upon before the run is over"""
    words = ['%c%c%c' % (a, b, c) for a in 'abcde' for b in 'xy' for c in 'mnopq']
    d4 = []
    for g, p_ in enumerate(['0.19', '0.17', '0.15', '0.13', '0.11', '0.09', '0.07', '0.05', '0.03', '0.01']):
        d4 += [['%04d' % (g * 1000 + k), repr(float(p_) / 1000)] for k in range(1000)]
    return {'terminals': {'A3': [[w, repr(1 / 50)] for w in words], 'C3': [['LLL', '0.6'], ['ULL', '0.4']], 'D4': d4},
            'grammar': [['A3D4', '1.0']], 'omen_prob': [], 'prince': [], 'encoding': 'utf-8'}


def cli_interleaved_sessions(prop, tag, spec):
    """the program itself: session `<tag>.sav` is quit by a `q` typed while guesses flow (wherever that lands), a second session
    `<tag>.sha1` - a name that differs only after the last dot - is started and ended, then the first is resumed with --load: what the
    two runs of the first session printed, one after the other, must be the uninterrupted stream"""
    # a ruleset kept one directory deeper (`-r group/name` -> Rules/group/name): the name is used as typed, by the first run and by `--load`
    name = f"{tag}grp/{tag}rules"
    common.install_ruleset(spec, name)
    # the quit session is called `<tag>.sav` (a user who takes -s for a file name): its files are `<tag>.sav.sav` / `<tag>.sav.omn`
    full, _, _ = common.run_cli('pcfg_guesser.py', ['-r', name, '-s', f"{tag}.full"], stdin='devnull', timeout=300)
    a1, e1, _ = common.run_cli_quit('pcfg_guesser.py', ['-r', name, '-s', f"{tag}.sav"], timeout=300)
    common.run_cli('pcfg_guesser.py', ['-r', name, '-s', f"{tag}.sha1", '--limit', '10'], stdin='devnull', timeout=300)
    a2, e2, _ = common.run_cli('pcfg_guesser.py', ['-s', f"{tag}.sav", '--load'], stdin='devnull', timeout=300)
    wit = {'cli_history': 'quit / other session with a name differing after the last dot / resume', 'spec_kind': tag}
    out = []
    nfull, n1, n2 = full.count(b'\n'), a1.count(b'\n'), a2.count(b'\n')
    info = {'full': nfull, 'first_session': n1, 'resumed': n2, 'quit_saved': b'Saving Session Info' in e1}
    if not full or a1 != full[:len(a1)]:
        out.append({'property': prop, 'kind': 'first-session-output', 'got': n1, 'want': nfull, 'witness': wit})
    elif b'Saving Session Info' in e1 and a1 + a2 != full:
        out.append({'property': prop, 'kind': 'omen-replay' if n1 + n2 > nfull else 'lost-after-resume', 'emitted': n1 + n2, 'full': nfull,
                    'sessions': [n1, n2], 'witness': wit})
    return out, info


def adjacent_ulp_spec(rng):
    """the Markov level's probability (0.4 * 0.27 = 0.10800000000000001) is the double right above that of the pre-terminal popped after
    it (0.3 * 0.36 = 0.108): the saved position and the interrupted level are one unit in the last place apart"""
    spec = C12.small_ruleset(rng, markov_pos=0)
    # a fixed OMEN model (level 1 = six strings of lengths 2 and 3), whatever the seed
    spec['omen'] = {'ngram': 2, 'alphabet': ['a', 'b'], 'ip': [[0, 'a'], [1, 'b']], 'ep': [[0, 'a'], [0, 'b']],
                    'cp': [[0, 'aa'], [1, 'ab'], [0, 'ba'], [1, 'bb']], 'ln': [10, 0, 1], 'keyspace': [[l, 1] for l in range(0, 19)]}
    spec['terminals'] = {'D1': [['1', '0.36'], ['2', '0.2']], 'O1': [['!', '0.5']]}
    spec['grammar'] = [['M', '0.4'], ['D1', '0.3'], ['O1', '0.05']]
    spec['omen_prob'] = [['1', '0.27']]
    return spec


def limited_resume_history(prop, limits=(10 ** 6,)):
    """a history with a guess limit on the middle session that is never reached: quit inside a Markov level; `--load --limit N` finishes
    the level, goes on, and is quit at a later (plain) pre-terminal; `--load` again.  The three sessions together are the uninterrupted
    stream - the finished level is not replayed by the third one"""
    L4 = ['a', 'b', 'c', 'd']
    spec = {'terminals': {'D1': [['1', '0.45'], ['2', '0.3'], ['3', '0.2']]}, 'grammar': [['M', '0.5'], ['D1', '0.5']],
            'omen_prob': [['1', '0.4'], ['0', '0.25']], 'prince': [], 'mode': 'dyadic', 'encoding': 'utf-8',
            'omen': {'ngram': 2, 'alphabet': L4, 'ip': [[0, x] for x in L4], 'ep': [[0, x] for x in L4],
                     'cp': [[0, x + y] for x in L4 for y in L4], 'ln': [10, 0, 1], 'keyspace': [[l, 1] for l in range(0, 19)]}}
    d = common.write_ruleset(os.path.join(common.scratch_dir('rules'), 'c15lim'), spec)
    pcfg = common.load_grammar(d)
    units = ss.units_of(pcfg)
    full = [l for u in units for l in u[2]]
    ui = next(k for k, u in enumerate(units) if u[0] == 'm' and u[2])
    n = len(units[ui][2])
    big = 'm' * (len(full) + 2 * len(units) + 5)
    viol, runs = [], 0
    for lim in limits:
        for j in (0, n - 2):
            sf = os.path.join(common.scratch_dir('sess'), f"c15lim_{j}.sav")
            for ext in ('.sav', '.omn'):
                if os.path.exists(sf[:-4] + ext):
                    os.remove(sf[:-4] + ext)
            wit = {'limited_resume_history': True, 'limit': lim, 'guess': j}
            try:
                h1 = ss.run_session(pcfg, sf, C12.new_cfg(), False, quit_schedule(units, ui, j), [('line', 'q', False)])
                h2 = ss.run_session(common.load_grammar(d), sf, load_cfg(sf), True, 'm' * (n - 1 - j + 2) + 'kk' + big, [('line', 'q', False)], limit=lim)
                hs = [h1['out'], h2['out']]
                if h2['state'] == 'exited':
                    hs.append(ss.run_session(common.load_grammar(d), sf, load_cfg(sf), True, big, [])['out'])
            except Exception as e:
                viol.append({'property': prop, 'kind': 'session-raised', 'error': repr(e)[:200], 'witness': wit})
                continue
            runs += len(hs)
            tot = [l for o in hs for l in o]
            if tot != full:
                viol.append({'property': prop, 'kind': 'omen-replay' if len(tot) > len(full) else 'lost-after-resume', 'emitted': len(tot), 'full': len(full),
                             'sessions': [len(o) for o in hs], 'history': 'quit in a Markov level / --load --limit (not reached) quit later / --load', 'witness': wit})
    return viol, runs


def unaligned_levels_history(prop):
    """Markov levels listed in another order than 1, 2, 3, ... (`pcfg_omen_prob.txt` is sorted by probability: level 2 first, then 1, 0):
    a session quit inside the first listed level and resumed - by a fresh process, with a cold memo table - emits the rest of that
    level and then every later level in full, exactly as the uninterrupted run does"""
    L3 = ['a', 'b', 'c']
    spec = {'terminals': {'D1': [['1', '0.5'], ['2', '0.25']]}, 'grammar': [['M', '0.75'], ['D1', '0.25']],
            'omen_prob': [['2', '0.5'], ['1', '0.25'], ['0', '0.125'], ['3', '0.0625']], 'prince': [], 'mode': 'dyadic', 'encoding': 'utf-8',
            'omen': {'ngram': 2, 'alphabet': L3, 'ip': [[0, 'a'], [1, 'b'], [1, 'c']], 'ep': [[0, x] for x in L3],
                     'cp': [[0, 'aa'], [1, 'ab'], [0, 'ac'], [0, 'ba'], [1, 'bb'], [1, 'bc'], [0, 'ca'], [0, 'cb'], [2, 'cc']],
                     'ln': [10, 0, 0, 1], 'keyspace': [[l, 1] for l in range(0, 19)]}}
    d = common.write_ruleset(os.path.join(common.scratch_dir('rules'), 'c15unal'), spec)
    pcfg = common.load_grammar(d)
    units = ss.units_of(pcfg)
    full = [l for u in units for l in u[2]]
    big = 'm' * (len(full) + 2 * len(units) + 5)
    viol, runs = [], 0
    for ui in [k for k, u in enumerate(units) if u[0] == 'm' and len(u[2]) >= 2 and k < len(units) - 1][:2]:
        for j in (0, len(units[ui][2]) - 2):
            sf = os.path.join(common.scratch_dir('sess'), f"c15unal_{ui}_{j}.sav")
            for ext in ('.sav', '.omn'):
                if os.path.exists(sf[:-4] + ext):
                    os.remove(sf[:-4] + ext)
            wit = {'unaligned_levels_history': True, 'unit': ui, 'guess': j}
            try:
                h1 = ss.run_session(pcfg, sf, C12.new_cfg(), False, quit_schedule(units, ui, j), [('line', 'q', False)])
                h2 = ss.run_session(common.load_grammar(d), sf, load_cfg(sf), True, big, [])
            except Exception as e:
                viol.append({'property': prop, 'kind': 'session-raised', 'error': repr(e)[:200], 'witness': wit})
                continue
            runs += 2
            tot = h1['out'] + h2['out']
            if tot != full:
                viol.append({'property': prop, 'kind': 'omen-replay' if len(tot) > len(full) else 'lost-after-resume', 'emitted': len(tot), 'full': len(full),
                             'sessions': [len(h1['out']), len(h2['out'])], 'levels_in_listed_order': [l for l, _ in spec['omen_prob']], 'witness': wit})
    return viol, runs


def cold_cache_history(prop, step=9):
    """a Markov part whose searches ask the memo table about *negative* remainders (no initial n-gram at level 0, short lengths at high
    length levels, long ones at low levels) and fill it well above the lowest levels: an uninterrupted run reaches the later levels with a
    warm table, a resumed process starts with an empty one - quit at many places inside every level, resume, and the two sessions
    together are the uninterrupted stream"""
    A3 = ['a', 'b', 'c']
    ips = [a + b for a in A3 for b in A3]
    om = {'ngram': 3, 'alphabet': A3, 'ip': [[1 + i % 3, ip] for i, ip in enumerate(ips)], 'ep': [[0, ip] for ip in ips],
          'cp': [[(i + 2 * j + i // 3) % 3, ip + c] for i, ip in enumerate(ips) for j, c in enumerate(A3)],
          'ln': [10, 10, 1, 5, 6, 0], 'keyspace': [[l, 1] for l in range(1, 10)]}
    spec = {'terminals': {'D1': [['1', '0.7'], ['2', '0.3']]}, 'grammar': [['M', '0.6'], ['D1', '0.4']],
            'omen_prob': [[str(l), repr(0.5 ** l)] for l in range(1, 10)], 'prince': [], 'mode': 'dyadic', 'encoding': 'utf-8', 'omen': om}
    d = common.write_ruleset(os.path.join(common.scratch_dir('rules'), 'c15cold'), spec)
    pcfg = common.load_grammar(d)
    units = ss.units_of(pcfg)
    full = [l for u in units for l in u[2]]
    big = 'm' * (len(full) + 2 * len(units) + 5)
    viol, runs = [], 0
    for ui in [k for k, u in enumerate(units) if u[0] == 'm' and len(u[2]) >= 2 and k < len(units) - 1]:
        n = len(units[ui][2])
        for j in sorted(set(range(0, n - 1, step)) | {n - 2}):
            sf = os.path.join(common.scratch_dir('sess'), 'c15cold.sav')
            for ext in ('.sav', '.omn'):
                if os.path.exists(sf[:-4] + ext):
                    os.remove(sf[:-4] + ext)
            wit = {'cold_cache_history': True, 'unit': ui, 'guess': j}
            try:
                # (the first session too runs on a grammar object of its own: what its memo table holds is its own history)
                h1 = ss.run_session(common.load_grammar(d), sf, C12.new_cfg(), False, quit_schedule(units, ui, j), [('line', 'q', False)])
                h2 = ss.run_session(common.load_grammar(d), sf, load_cfg(sf), True, big, [])
            except Exception as e:
                viol.append({'property': prop, 'kind': 'session-raised', 'error': repr(e)[:200], 'witness': wit})
                return viol, runs
            runs += 2
            tot = h1['out'] + h2['out']
            if tot != full:
                viol.append({'property': prop, 'kind': 'omen-replay' if len(tot) > len(full) else 'lost-after-resume', 'emitted': len(tot), 'full': len(full),
                             'sessions': [len(h1['out']), len(h2['out'])], 'witness': wit})
                return viol, runs
    return viol, runs


def run(ctx):
    rng = ctx.rng
    common.use_impl()
    viol, samples, disagreements = [], [], []
    ops, exp = [], []
    dist = {'quit_position': {}, 'cycles': {}, 'markov_last': 0}
    cases = nontrivial = 0
    root = common.scratch_dir('rules')
    sdir = common.scratch_dir('sess')
    for i in range(ctx.scale(8, 60)):
        spec = C12.small_ruleset(rng, markov_pos=rng.choice([0, 1, 2, 3]), rich=i % 3 == 1, wide=i % 3 == 2)
        if i == 3:
            spec = adjacent_ulp_spec(rng)
        if i == 4:
            # two OMEN levels listed with exactly the same probability
            spec = adjacent_ulp_spec(rng)
            spec['omen_prob'] = [['1', '0.27'], ['2', '0.27']]
        if i == 2:
            # whatever the seed: four letters, every transition at level 0 (lists of four characters per context), levels of 16 and 64
            # strings; a quit before every single guess (below)
            spec = C12.small_ruleset(rng, markov_pos=1)
            L4 = ['a', 'b', 'c', 'd']
            spec['omen'] = {'ngram': 2, 'alphabet': L4, 'ip': [[0, x] for x in L4], 'ep': [[0, x] for x in L4],
                            'cp': [[0, x + y] for x in L4 for y in L4], 'ln': [10, 0, 1], 'keyspace': [[l, 1] for l in range(0, 19)]}
            spec['omen_prob'] = [['1', '0.5'], ['0', '0.3']]
        if i == 7:
            # whatever the seed: a Markov level (0.5 x 0.3) that pops right before a plain pre-terminal whose probability differs from it
            # in the thirteenth decimal (0.5 x 0.2999999999999): two different positions in the run
            spec = {'terminals': {'D1': [['1', '0.45'], ['2', '0.2999999999999'], ['3', '0.25']]},
                    'grammar': [['M', '0.5'], ['D1', '0.5']], 'omen_prob': [['1', '0.4'], ['2', '0.3'], ['3', '0.2'], ['4', '0.1']], 'prince': [],
                    'mode': 'near', 'encoding': 'utf-8',
                    'omen': {'ngram': 2, 'alphabet': ['a', 'b'], 'ip': [[0, 'a'], [1, 'b']], 'ep': [[0, 'a'], [0, 'b']],
                             'cp': [[0, 'aa'], [1, 'ab'], [0, 'ba'], [1, 'bb']], 'ln': [10, 0, 1, 2], 'keyspace': [[l, 1] for l in range(0, 19)]}}
        if i == 6:
            # whatever the seed: no initial n-gram at level 0 and four Markov levels run one after the other - the search then asks
            # its memo table about negative remainders; the uninterrupted run has a warm table when it reaches level 4, a resumed
            # process a cold one (resumed sessions below get a grammar object of their own), and both must emit the same strings
            spec = C12.small_ruleset(rng, markov_pos=0)
            spec['omen'] = {'ngram': 2, 'alphabet': ['a', 'b'], 'ip': [[1, 'a'], [1, 'b']], 'ep': [[1, 'a'], [1, 'b']],
                            'cp': [[1, 'ab'], [1, 'aa'], [0, 'bb'], [1, 'ba']], 'ln': [0, 2, 0, 0], 'keyspace': [[l, 1] for l in range(0, 19)]}
            spec['omen_prob'] = [['0', '0.4'], ['1', '0.25'], ['2', '0.2'], ['3', '0.1'], ['4', '0.05']]
        if i == 5:
            # whatever the seed: one Markov level (target 2) that holds two lengths, both at length level 2 - a session resumed inside the
            # first length has to step on to the second one
            spec = C12.small_ruleset(rng, markov_pos=0)
            spec['omen'] = {'ngram': 2, 'alphabet': ['a', 'b'], 'ip': [[0, 'a'], [0, 'b']], 'ep': [[0, 'a'], [0, 'b']],
                            'cp': [[0, 'aa'], [0, 'ab'], [0, 'ba'], [0, 'bb']], 'ln': [10, 0, 2, 2], 'keyspace': [[l, 1] for l in range(0, 19)]}
            spec['omen_prob'] = [['2', '0.5'], ['0', '0.3']]
        d = common.write_ruleset(os.path.join(root, f"c15_{i % 5}"), spec)
        pcfg = common.load_grammar(d)
        units = ss.units_of(pcfg)
        if not C12.distinct_probs(units) and i not in (4, 7):
            dist.setdefault('skipped_not_distinct', []).append(i)
            continue
        full = [l for u in units for l in u[2]]
        uops = C12.unit_ops(units)
        ops += uops
        exp += ['ok'] * len(uops)
        mk = [k for k, u in enumerate(units) if u[0] == 'm' and u[2]]
        for ui in mk:
            n = len(units[ui][2])
            js = sorted({0, n - 1, n // 2, rng.randrange(n)} | ({rng.randrange(n) for _ in range(8)} if i % 3 == 2 else set())) if ctx.quick else range(n)
            if i == 2 and n <= 90:
                js = range(n)          # the first wide ruleset: a quit before every guess of every level, whatever the seed
            for j in js:
                # session names of every shape (the .omn file name is derived from the .sav name)
                sf = os.path.join(sdir, f"c15_{i}_{ui}_{j}{rng.choice(['', '', '_canvas', '_hashes', '_v', '.a', '_x.sav'])}.sav")
                for ext in ('.sav', '.omn'):
                    if os.path.exists(sf[:-4] + ext):
                        os.remove(sf[:-4] + ext)
                wit = {'spec': spec, 'unit': ui, 'guess': j, 'session_file': os.path.basename(sf)}
                sched1 = quit_schedule(units, ui, j)
                try:
                    r1 = ss.run_session(pcfg, sf, C12.new_cfg(), False, sched1, [('line', 'q', False)])
                except Exception as e:
                    viol.append({'property': 'C15', 'kind': 'session-raised', 'error': repr(e)[:200], 'witness': wit})
                    continue
                cases += 1
                pos_name = 'first' if j == 0 else ('last' if j == n - 1 else 'middle')
                dist['quit_position'][pos_name] = dist['quit_position'].get(pos_name, 0) + 1
                last_unit = ui == len(units) - 1
                dist['markov_last'] += int(last_unit)
                before = [l for u in units[:ui] for l in u[2]] + units[ui][2][:j + 1]
                if r1['out'] != before:
                    viol.append({'property': 'C15', 'kind': 'first-session-output', 'got': len(r1['out']), 'want': len(before), 'witness': wit})
                    continue
                if last_unit:
                    # the queue is empty after the level: the session returns without saving and the rest of the level is never emitted
                    if j < n - 1:
                        viol.append({'property': 'C15', 'kind': 'quit-in-last-markov-unit', 'state': r1['state'], 'lost': n - 1 - j, 'witness': wit})
                    continue
                if r1['state'] != 'exited':
                    viol.append({'property': 'C15', 'kind': 'quit-not-honoured', 'state': r1['state'], 'witness': wit})
                    continue
                pos, opt, omn, _ = ss.read_files(sf, units, pcfg)
                ops.append(f"ss.run 0 0 none L:113:0 {sched1}")
                exp.append(('exited', r1['out'], pos, opt))
                # second session: --load, nobody types anything
                cycles = rng.choice([2, 3, 3])
                dist['cycles'][str(cycles)] = dist['cycles'].get(str(cycles), 0) + 1
                outs = [r1['out']]
                ok = True
                for c in range(2, cycles + 1):
                    lastc = c == cycles
                    remaining_total = len(full) - sum(len(o) for o in outs)
                    if lastc:
                        sched, events = 'm' * (len(full) + 2 * len(units) + 5), []
                    else:
                        cut = rng.randint(1, max(1, remaining_total))
                        sched, events = 'm' * cut + 'kk' + 'm' * (len(full) + 2 * len(units) + 5), [('line', 'q', False)]
                    pos0, opt0, omn0, _ = ss.read_files(sf, units, pcfg)
                    try:
                        # a resumed session is another process: its grammar object (and the memo table of the OMEN search) is new
                        rc = ss.run_session(common.load_grammar(d), sf, load_cfg(sf), True, sched, events)
                    except Exception as e:
                        viol.append({'property': 'C15', 'kind': 'session-raised', 'error': repr(e)[:200], 'cycle': c, 'witness': wit})
                        ok = False
                        break
                    cases += 1
                    outs.append(rc['out'])
                    st = rc['state']
                    if st in ('finished', 'exited'):
                        p2, o2, m2 = (None, None, None)
                        if st == 'exited':
                            p2, o2, m2, _ = ss.read_files(sf, units, pcfg)
                        ops.append(f"ss.run 1 {pos0} {1 if opt0 else 0} {C12.omn_token(omn0 if opt0 else omn0)} {C12.ev_tokens(events)} {sched}".replace('ss.run 1 ', 'ss.run1 '))
                        exp.append((st, rc['out'], p2, o2))
                    if c == 2:
                        rest = units[ui][2][j + 1:]
                        if rc['out'][:len(rest)] != rest[:len(rc['out'])]:
                            viol.append({'property': 'C15', 'kind': 'remainder-not-first', 'got': rc['out'][:4], 'want': rest[:4], 'witness': wit})
                            ok = False
                            break
                    if st == 'finished':
                        break
                if not ok:
                    continue
                total = [l for o in outs for l in o]
                if total != full and total == full[:len(total)] and units[-1][0] == 'm' and len(total) > len(full) - len(units[-1][2]):
                    viol.append({'property': 'C15', 'kind': 'quit-in-last-markov-unit', 'lost': len(full) - len(total), 'cycles': len(outs), 'witness': wit})
                elif total != full:
                    # which kind: replayed remainder or something lost
                    kind = 'omen-replay' if len(total) > len(full) else 'lost-after-resume'
                    viol.append({'property': 'C15', 'kind': kind, 'emitted': len(total), 'full': len(full), 'cycles': len(outs), 'witness': wit})
                else:
                    nontrivial += 1
                if len(samples) < 3:
                    samples.append({'grammar': spec['grammar'], 'unit': ui, 'guess': j, 'sessions': [o[:6] for o in outs]})
                # a three-session history with the second q in the narrowest window: the resumed level has printed its last string and
                # the generator is searching for a further one (it will find none) when q is handled - the level is then finished but the
                # quit is pending.  (Extra yield point before every call of the OMEN generator; judged by the oracle only.)
                if j in (js[0], js[-1]) if ctx.quick else True:
                    for ext in ('.sav', '.omn'):
                        if os.path.exists(sf[:-4] + ext):
                            os.remove(sf[:-4] + ext)
                    try:
                        h1 = ss.run_session(pcfg, sf, C12.new_cfg(), False, sched1, [('line', 'q', False)])
                        r_left = n - 1 - j
                        sched2 = 'm' * r_left + 'kk' + 'm' * (len(full) + 2 * len(units) + 5)
                        pos0, opt0, omn0, _ = ss.read_files(sf, units, pcfg)
                        h2 = ss.run_session(pcfg, sf, load_cfg(sf), True, sched2, [('line', 'q', False)])
                        hs = [h1['out'], h2['out']]
                        if h2['state'] == 'exited':
                            p2, o2, m2, _ = ss.read_files(sf, units, pcfg)
                            ops.append(f"ss.run1 {pos0} {1 if opt0 else 0} {C12.omn_token(omn0)} {C12.ev_tokens([('line', 'q', False)])} {sched2}")
                            exp.append(('exited', h2['out'], p2, o2))
                            h3 = ss.run_session(pcfg, sf, load_cfg(sf), True, 'm' * (len(full) + 2 * len(units) + 5), [])
                            hs.append(h3['out'])
                    except Exception as e:
                        viol.append({'property': 'C15', 'kind': 'session-raised', 'error': repr(e)[:200], 'witness': dict(wit, history='end-of-level-search')})
                        continue
                    cases += 1
                    dist['end_of_level_histories'] = dist.get('end_of_level_histories', 0) + 1
                    tot = [l for o in hs for l in o]
                    if tot != full:
                        lastm = units[-1][0] == 'm' and tot == full[:len(tot)] and len(tot) > len(full) - len(units[-1][2])
                        viol.append({'property': 'C15', 'kind': 'quit-in-last-markov-unit' if lastm else ('omen-replay' if len(tot) > len(full) else 'lost-after-resume'),
                                     'emitted': len(tot), 'full': len(full), 'sessions': [len(o) for o in hs], 'history': 'second q during the end-of-level search',
                                     'witness': dict(wit, history='end-of-level-search')})
    vs_cli, info_cli = cli_interleaved_sessions('C15', 'c15audit', big_markov_spec())
    viol += vs_cli
    cases += 1
    v_cc, r_cc = cold_cache_history('C15')
    viol += v_cc
    cases += r_cc
    v_un, r_un = unaligned_levels_history('C15')
    viol += v_un
    cases += r_un
    v_lim, r_lim = limited_resume_history('C15')
    viol += v_lim
    cases += r_lim
    dist['limited_middle_sessions'] = r_lim
    dist['cli_interleaved'] = info_cli
    if ctx.driver_ok:
        # `ss.run1` lines carry (pos, opt, omn) of the files the session was loaded from
        fixed = []
        for o in ops:
            if o.startswith('ss.run1 '):
                parts = o.split(' ')
                fixed.append(' '.join(['ss.run'] + parts[1:]))
            elif o.startswith('ss.run 0 0 none'):
                parts = o.split(' ')
                fixed.append(' '.join(['ss.run', '0', '0', 'none'] + parts[4:]))
            else:
                fixed.append(o)
        out = common.run_driver(fixed)
        for i, (a, b) in enumerate(zip(out, exp)):
            if b == 'ok':
                continue
            state, outl, pos, opt = b
            fields = dict(f.split('=', 1) for f in a.split(' ') if '=' in f)
            mout = [] if fields.get('out', '') == '' else fields['out'].split(';')
            good = fields.get('main') == state and mout == [cl.cps(x) for x in outl]
            if state == 'exited':
                good = good and fields.get('sav') == str(pos) and fields.get('opt') == ('1' if opt else '0')
            if not good:
                disagreements.append({'stream': 'session-resume', 'op': fixed[i][:300], 'model': a[:300], 'implementation': str(b)[:300]})
                if len(disagreements) >= 5:
                    break
    else:
        disagreements.append({'stream': 'session', 'detail': 'driver does not build'})
    return {'evaluations': cases, 'distinct_nontrivial': nontrivial, 'traces': cases,
            'rule': 'small rulesets with a Markov structure at every position of the base list; the real session (two real threads under '
                    'the baton) is quit by a scripted q exactly after guess j of the Markov level (first, last, middle, random; all j in '
                    'the thorough tier), then resumed with --load one or two more times (the middle session quit again at a random point); '
                    'the resumed session must start with exactly the rest of the level and the concatenation of all sessions must equal the '
                    'uninterrupted stream (nothing lost, nothing replayed); each session is also compared with the Lean state machine '
                    'started from the files on disk. non-trivial = a complete multi-session history that reproduces the full stream',
            'samples': samples, 'disagreements': disagreements, 'violations': viol, 'distribution': dist,
            'extra': {'protocol_ops': len(ops)}}


def replay(ctx, payload):
    if (payload.get('violation', {}).get('witness') or {}).get('cold_cache_history'):
        common.use_impl()
        return cold_cache_history(payload.get('property', 'C15'))[0]
    if (payload.get('violation', {}).get('witness') or {}).get('unaligned_levels_history'):
        common.use_impl()
        return unaligned_levels_history(payload.get('property', 'C15'))[0]
    if (payload.get('violation', {}).get('witness') or {}).get('limited_resume_history'):
        common.use_impl()
        return limited_resume_history(payload.get('property', 'C15'))[0]
    w = payload.get('violation', {}).get('witness') or {}
    if 'cli_history' in w:
        common.use_impl()
        return cli_interleaved_sessions('C15', 'c15audit', big_markov_spec())[0]
    if 'spec' not in w:
        return []
    common.use_impl()
    d = common.write_ruleset(os.path.join(common.scratch_dir('rules'), 'replay15'), w['spec'])
    pcfg = common.load_grammar(d)
    units = ss.units_of(pcfg)
    full = [l for u in units for l in u[2]]
    sf = os.path.join(common.scratch_dir('sess'), 'replay_' + w.get('session_file', 'replay15.sav'))
    for ext in ('.sav', '.omn'):
        if os.path.exists(sf[:-4] + ext):
            os.remove(sf[:-4] + ext)
    r1 = ss.run_session(pcfg, sf, C12.new_cfg(), False, quit_schedule(units, w['unit'], w['guess']), [('line', 'q', False)])
    outs = [r1['out']]
    if w.get('history') == 'end-of-level-search':
        r_left = len(units[w['unit']][2]) - 1 - w['guess']
        h2 = ss.run_session(pcfg, sf, load_cfg(sf), True, 'm' * r_left + 'kk' + 'm' * (len(full) + 2 * len(units) + 5), [('line', 'q', False)])
        outs.append(h2['out'])
        if h2['state'] == 'exited':
            outs.append(ss.run_session(pcfg, sf, load_cfg(sf), True, 'm' * (len(full) + 2 * len(units) + 5), [])['out'])
        total = [l for o in outs for l in o]
        return [] if total == full else [{'kind': 'history-differs', 'emitted': len(total), 'full': len(full)}]
    cut = 3
    r2 = ss.run_session(pcfg, sf, load_cfg(sf), True, 'm' * (len(units[w['unit']][2]) + cut) + 'kmk' + 'm' * 200, [('line', 'q', False)])
    outs.append(r2['out'])
    if r2['state'] == 'exited':
        r3 = ss.run_session(pcfg, sf, load_cfg(sf), True, 'm' * 300, [])
        outs.append(r3['out'])
    total = [l for o in outs for l in o]
    return [] if total == full else [{'kind': 'history-differs', 'emitted': len(total), 'full': len(full)}]
