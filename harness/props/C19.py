"""C19 - equivalent encodings of a training list train the same grammar."""
import contextlib
import filecmp
import io
import os

import common
import corr_loader as cl

SITES = ['read_password', 'tfi_init']
TRUSTED = ["Python int() on the count token, bytes.fromhex().decode(), str.encode() (parameters of the model, shipped per input)",
           'codecs stream reader line splitting = str.splitlines (table validated exhaustively in C07)']
ASSUMPTIONS = ['a plain line can denote a password only if it is not itself of the form $HEX[...] and contains no line boundary',
               'count-collapsing keeps first-occurrence order (duplicates, adjacent or not, collapsed onto the first occurrence)']

WORDS = ['password', 'pass word', ' lead', 'trail ', 'two  spaces', 'ümlaut', 'пароль', 'Σίσυφος', '$HEX[41]x', '$HEX[zz]', 'a$HEX[41]',
         '123456', 'p@ss!', '1 2 3', '５', 'tab\there', 'ctl\x01', 'us\x1fx', '\x1flead', 'esc\x1bx', 'nul\x00x', 'del\x7fx', 'nbsp\xa0x', '\xa0lead', 'x', '😀pw', '', ' ', '$HEX[]', 'q' * 30,
         # U+FEFF is an ordinary character wherever it stands (a byte order mark is not part of the supported encodings' contract)
         '\ufeffbom', 'in\ufeffside', '\ufeff',
         # first byte 0xE0..0xEF (three-byte UTF-8 sequences, Latin-1 / cp1251 letters): a payload whose first hex digit is the letter E
         '\u20acuro', '\u3042\u3044pw', '\xe9t\xe9', '\u0445\u0430\u043a\u0435\u0440', 'EEk', '\xee\xee']


def cps(s):
    return cl.cps(s)


def gen_lines(rng, enc):
    """list of (kind, text line bytes, the passwords a correct reader yields) for a non-prefixcount file"""
    lines = []
    for _ in range(rng.randint(1, 14)):
        w = rng.choice(WORDS)
        r = rng.random()
        try:
            b = w.encode(enc)
        except UnicodeEncodeError:
            continue
        if r < 0.55:
            lines.append(('plain', b))
        elif r < 0.8:
            lines.append(('hex', b'$HEX[' + (b.hex().upper() if rng.random() < 0.5 else b.hex()).encode() + b']'))
        elif r < 0.87:
            lines.append(('badbytes', b[:1] + b'\xff\xfe' + b[1:]))
        elif r < 0.93:
            lines.append(('badhex', b'$HEX[' + rng.choice([b'4', b'zz', b'ff', b'c3']) + b']'))
        else:
            lines.append(('blank', b''))
    return lines


def real_read(path, enc, prefix):
    common.use_impl()
    from lib_trainer.trainer_file_input import TrainerFileInput
    buf = io.StringIO()
    with contextlib.redirect_stdout(buf):
        t = TrainerFileInput(path, enc, prefix)
        try:
            out = list(t.read_password())
        except Exception as e:
            return None, None, None, repr(e)
    return out, t.num_passwords, t.num_encoding_errors, None


def model_ops(text, enc, prefix):
    """parameter tables for the driver, computed with the interpreter"""
    ops = ['rd.new']
    seen = set()
    for ln in text.splitlines(keepends=True):
        clean = ln.rstrip('\r\n')
        cands = [clean]
        if prefix:
            toks = clean.lstrip().split(' ')
            t0 = toks[0]
            if ('i', t0) not in seen:
                seen.add(('i', t0))
                try:
                    v = str(int(t0))
                except ValueError:
                    v = 'x'
                ops.append(f"rd.int {cps(t0)} {v}")
            cands = [' '.join(toks[1:])]
        for c in cands:
            if c.startswith('$HEX[') and c.endswith(']'):
                h = c[5:-1]
                if ('h', h) not in seen:
                    seen.add(('h', h))
                    try:
                        d = bytes.fromhex(h).decode(enc)
                        ops.append(f"rd.hex {cps(h)} {cps(d)}")
                        c2 = d
                    except Exception:
                        ops.append(f"rd.hex {cps(h)} x")
                        c2 = None
                else:
                    try:
                        c2 = bytes.fromhex(h).decode(enc)
                    except Exception:
                        c2 = None
            else:
                c2 = c
            if c2 is not None and ('e', c2) not in seen:
                seen.add(('e', c2))
                try:
                    c2.encode(enc)
                except UnicodeEncodeError:
                    ops.append(f"rd.unenc {cps(c2)}")
    return ops


def file_text(path, enc):
    return open(path, 'rb').read().decode(enc, errors='surrogateescape')


def same_ruleset(a, b):
    """compare two rule directories file by file, ignoring uuid/filename lines of config.ini"""
    diffs = []
    for d, _, files in os.walk(a):
        for f in files:
            pa = os.path.join(d, f)
            pb = os.path.join(b, os.path.relpath(pa, a))
            if not os.path.exists(pb):
                diffs.append('missing ' + os.path.relpath(pa, a))
                continue
            ta, tb = open(pa, 'rb').read(), open(pb, 'rb').read()
            if f == 'config.ini':
                flt = lambda t: b'\n'.join(l for l in t.split(b'\n') if not l.startswith((b'uuid', b'filename')))
                ta, tb = flt(ta), flt(tb)
            if ta != tb:
                diffs.append('differs ' + os.path.relpath(pa, a))
    for d, _, files in os.walk(b):
        for f in files:
            pb = os.path.join(d, f)
            if not os.path.exists(os.path.join(a, os.path.relpath(pb, b))):
                diffs.append('extra ' + os.path.relpath(pb, b))
    return diffs


def autodetect_case(variant, bom, root):
    """the same list as plain / $HEX[] / count-prefixed file (each starting with `bom`) trained by trainer.py without --encoding"""
    viol = []
    words = [('summer2019', 3), ('пароль1', 2), ('naïve pass', 1), ('x1', 2), ('Dragon!', 1)]
    files = {'plain': b''.join((w.encode('utf-8') + b'\n') * n for w, n in words),
             'hex': b''.join((b'$HEX[' + w.encode('utf-8').hex().encode() + b']\n') * n for w, n in words),
             'count': b''.join(b'  ' + str(n).encode() + b' ' + w.encode('utf-8') + b'\n' for w, n in words)}
    dirs = {}
    snap = common.snapshot()
    for kind, data in files.items():
        tfp = os.path.join(root, f"auto_{variant}_{kind}.txt")
        name = f"c19auto_{variant}_{kind}"
        if kind == 'plain':
            # history: the rule name was used before, for an older export of the list under the same file name in another encoding
            # (given explicitly then); nothing recorded by that run may decide how the new file is read
            with open(tfp, 'wb') as f:
                f.write('caf\xe9 2019\nna\xefve\n'.encode('cp1252'))
            common.run_cli('trainer.py', ['-r', name, '-t', tfp, '-e', 'cp1252'], stdin='devnull', timeout=300)
        with open(tfp, 'wb') as f:
            f.write(bom + data)
        o_, e_, rc_ = common.run_cli('trainer.py', ['-r', name, '-t', tfp] + (['--prefixcount'] if kind == 'count' else []), stdin='devnull', timeout=300)
        dirs[kind] = (os.path.join(snap, 'Rules', name), rc_, e_[-200:])
    wit = {'autodetect': variant, 'words': words}
    oks = {k: os.path.exists(os.path.join(d, 'Grammar', 'grammar.txt')) for k, (d, _, _) in dirs.items()}
    if len(set(oks.values())) > 1:
        viol.append({'property': 'C19', 'kind': 'training-success-differs', 'ok': oks, 'witness': wit})
    elif all(oks.values()):
        for other, kind in (('hex', 'hex-ruleset-differs'), ('count', 'count-ruleset-differs')):
            dd = same_ruleset(dirs['plain'][0], dirs[other][0])
            if dd:
                viol.append({'property': 'C19', 'kind': kind, 'files': dd[:5], 'encoding': 'auto-detected', 'witness': wit})
    return viol


def long_lines_case(root, enc, eol, with_model=True):
    """lines of several thousand characters (a physical line has no length limit; the $HEX[] form of a password is more than twice as
    long as the plain one, the counted form a few characters longer): the same sequence in all three forms"""
    viol, ops, exp = [], [], []
    longs = ['ab1!' * 525, 'x' * 4095, 'y' * 4096, 'Zz9' * 1366, 'é' * 2050 + 'end', 'short1', 'q' * 9001, 'w w' * 700]
    rep = [(w.encode(enc), n) for w, n in zip(longs, [1, 2, 1, 3, 1, 2, 1, 2])]
    pl, ph, pcn = (os.path.join(root, n) for n in ('l1.txt', 'l2.txt', 'l3.txt'))
    with open(pl, 'wb') as f:
        for b, n in rep:
            f.write((b + eol) * n)
    with open(ph, 'wb') as f:
        for b, n in rep:
            f.write((b'$HEX[' + b.hex().encode() + b']' + eol) * n)
    with open(pcn, 'wb') as f:
        for b, n in rep:
            f.write(str(n).encode() + b' ' + b + eol)
    want = [w for w, (_, n) in zip(longs, rep) for _ in range(n)]
    for path, prefix, kind in ((pl, False, 'long-plain-lines-differ'), (ph, False, 'hex-differs-from-plain'), (pcn, True, 'count-prefix-differs-from-repeats')):
        got, n_, e_, err = real_read(path, enc, prefix)
        if err or got != want or n_ != len(want):
            viol.append({'property': 'C19', 'kind': kind, 'yielded': [(len(x), x[:12]) for x in (got or [])][:8], 'want_lengths': [len(x) for x in want][:8],
                         'total': n_, 'error': err, 'witness': {'long_lines': True, 'encoding': enc, 'crlf': eol == b'\r\n'}})
        elif with_model and path != pcn:
            text = file_text(path, enc)
            pre = model_ops(text, enc, False)
            ops += pre
            exp += ['ok'] * len(pre)
            ops.append('rd.read 0 ' + cps(text))
            exp.append(' '.join([f"n={n_}", f"e={e_}"] + [cps(p) for p in got]))
    return viol, ops, exp


def run(ctx):
    rng = ctx.rng
    viol, samples, disagreements = [], [], []
    ops, exp = [], []
    dist = {'encoding': {}, 'kinds': {}, 'prefixcount': 0, 'crlf': 0, 'trained_pairs': 0}
    cases = nontrivial = 0
    root = common.scratch_dir('c19')
    encs = ['utf-8', 'latin-1', 'cp1251'] if ctx.quick else ['utf-8', 'latin-1', 'cp1251', 'cp1252', 'koi8-r', 'iso8859-7']
    for i in range(ctx.scale(120, 1500)):
        enc = rng.choice(encs)
        lines = gen_lines(rng, enc)
        eol = rng.choice([b'\n', b'\n', b'\r\n'])
        dist['crlf'] += int(eol == b'\r\n')
        # --- file A: as generated (plain / hex / garbage), no prefixcount
        pa = os.path.join(root, 'a.txt')
        with open(pa, 'wb') as f:
            f.write(b''.join(b + eol for _, b in lines))
        outA, nA, eA, err = real_read(pa, enc, False)
        cases += 1
        dist['encoding'][enc] = dist['encoding'].get(enc, 0) + 1
        for k, _ in lines:
            dist['kinds'][k] = dist['kinds'].get(k, 0) + 1
        if err:
            viol.append({'property': 'C19', 'kind': 'reader-raised', 'error': err, 'witness': {'lines': [b.hex() for _, b in lines], 'encoding': enc}})
            continue
        text = file_text(pa, enc)
        pre = model_ops(text, enc, False)
        ops += pre
        exp += ['ok'] * len(pre)
        ops.append('rd.read 0 ' + cps(text))
        exp.append(' '.join([f"n={nA}", f"e={eA}"] + [cps(p) for p in outA]))
        # --- file B: every valid plain password re-written as $HEX[], must yield the same sequence
        pb = os.path.join(root, 'b.txt')
        with open(pb, 'wb') as f:
            for li, (k, b) in enumerate(lines):
                if k == 'plain' and not (b.startswith(b'$HEX[') and b.endswith(b']')):
                    # hex digits in either case (A-F are digits of the payload, whatever letters the wrapper is made of)
                    hx = b.hex().upper() if li % 2 else b.hex()
                    f.write(b'$HEX[' + hx.encode() + b']' + eol)
                else:
                    f.write(b + eol)
        outB, nB, eB, err = real_read(pb, enc, False)
        if err or outB != outA:
            viol.append({'property': 'C19', 'kind': 'hex-differs-from-plain', 'plain': outA[:5], 'hex': (outB or [])[:5],
                         'witness': {'lines': [b.hex() for _, b in lines], 'encoding': enc}})
        # --- file C: adjacent duplicates collapsed into count prefixes (--prefixcount) vs. expanded plain file D
        # every kind of line, the undecodable and the bad-hex ones too: the skipped lines are *counted* the same in both forms
        seq = [(k, b) for k, b in lines if k != 'blank']
        rep = [(k, b, rng.choice([1, 1, 2, 3, 5, 0])) for k, b in seq]      # `0 <password>`: counted zero times
        pc = os.path.join(root, 'c.txt')
        pd = os.path.join(root, 'd.txt')
        with open(pc, 'wb') as f:
            for k, b, n in rep:
                f.write(rng.choice([b'', b'   ', b'\t']) + str(n).encode() + b' ' + b + eol)
        with open(pd, 'wb') as f:
            for k, b, n in rep:
                f.write((b + eol) * n)
        outC, nC, eC, errC = real_read(pc, enc, True)
        outD, nD, eD, errD = real_read(pd, enc, False)
        dist['prefixcount'] += 1
        if errC or errD or outC != outD or nC != nD or eC != eD:
            viol.append({'property': 'C19', 'kind': 'count-prefix-differs-from-repeats', 'counted': (outC or [])[:6], 'repeated': (outD or [])[:6],
                         'totals': [nC, nD], 'encoding_errors': [eC, eD],
                         'witness': {'rep': [(b.hex(), n) for _, b, n in rep], 'encoding': enc}})
        if not errC:
            textC = file_text(pc, enc)
            pre = model_ops(textC, enc, True)
            ops += pre
            exp += ['ok'] * len(pre)
            ops.append('rd.read 1 ' + cps(textC))
            exp.append(' '.join([f"n={nC}", f"e={eC}"] + [cps(p) for p in outC]))
        # skipped lines never leak: every yielded password passes check_valid and is encodable
        # (judged independently of check_valid: no C0 control character - which includes TAB and the separators U+001C..U+001F -
        # and none of the other line boundaries of a codecs reader, U+0085, U+2028, U+2029; not empty)
        for p in outA:
            if not p or any(ord(ch) < 0x20 or ord(ch) in (0x85, 0x2028, 0x2029) for ch in p):
                viol.append({'property': 'C19', 'kind': 'invalid-password-yielded', 'password': p, 'witness': {'lines': [b.hex() for _, b in lines], 'encoding': enc}})
        # three passes see the same sequence
        out2 = real_read(pa, enc, False)[0]
        if out2 != outA:
            viol.append({'property': 'C19', 'kind': 'passes-differ', 'witness': {'lines': [b.hex() for _, b in lines], 'encoding': enc}})
        kinds = {k for k, _ in lines}
        if len(kinds) >= 2 and outA:
            nontrivial += 1
        if len(samples) < 3 and 'hex' in kinds and 'plain' in kinds:
            samples.append({'encoding': enc, 'lines': [b.decode(enc, errors='replace') for _, b in lines][:6], 'yielded': outA[:6]})
    for enc, eol in (('utf-8', b'\n'), ('latin-1', b'\r\n')):
        vs_, ops_, exp_ = long_lines_case(root, enc, eol, ctx.driver_ok)
        viol += vs_
        ops += ops_
        exp += exp_
        cases += 1
        dist['long_line_files'] = dist.get('long_line_files', 0) + 3
    # full trained rulesets: plain repeated vs hex vs count-prefixed
    for i in range(ctx.scale(4, 12)):
        enc = rng.choice(['utf-8', 'cp1251'])
        base = [w for w in ['password', 'pass word', 'пароль', 'trail ', '123456', 'p@ss!', 'qwerty12', 'abc', 'Summer2019', 'x1',
                            '\ufeffbom1', '\ufeff', 'in\ufeffside'] if rng.random() < 0.8]
        if i == 0:
            enc = 'utf-8'
            base = ['first', 'password', '\ufeffbom1', '\ufeff', 'пароль', 'x1']
        rep = []
        for w in base:
            try:
                rep.append((w.encode(enc), rng.choice([1, 2, 3]) if i != 1 else 1))
            except UnicodeEncodeError:
                pass
        if i == 1 and rep:
            # a list without any repetition; its counted form also carries a line for a password counted zero times, ahead of that
            # password's single occurrence: nothing a reader notices on the way (here: "a duplicate was seen") may reach the ruleset
            rep = [(rep[-1][0], 0)] + rep
        order = None
        if i in (2, 3):
            # repeated lines that are not adjacent: the counted form lists every password once, in order of first occurrence (what
            # collapsing a list does); words at the multi-word threshold (4 / 5 occurrences) followed by passwords too short or too
            # long for the multi-word trainer, so that a count that depends on the neighbours of a line decides a parsing
            enc = 'utf-8'
            # (word, count, do its repeats come back later instead of following at once)
            pool = [('monkey', 5, False), ('dragon12', 3, False), ('password', 4, False), ('abc', 2, True), ('passwordmonkey', 1, False),
                    ('q' * 24, 2, True), ('summer', 4, False), ('x1', 3, True), ('summermonkey', 1, False), ('123456', 6, False),
                    # two spellings of one word that differ in capitalisation only, each seen again after other passwords
                    ('monkey12', 2, True), ('Monkey12', 2, True), ('dragon7', 1, False), ('MONKEY12', 2, True)]
            if i == 3:
                pool = [pool[k] for k in rng.sample(range(len(pool)), len(pool))]
            rep = [(w.encode(enc), n) for w, n, _ in pool]
            order = [k for k, _ in enumerate(rep)]
            for k, (_, n, later) in enumerate(pool):
                for _ in range(n - 1):
                    at = order.index(k) + 1 if not later else rng.randint(min(order.index(k) + 2, len(order)), len(order))
                    order.insert(at, k)
        else:
            order = [k for k, (_, n) in enumerate(rep) for _ in range(n)]
        dist['nonadjacent_repeats'] = dist.get('nonadjacent_repeats', 0) + int(any(order[j] in order[:j] and order[j - 1] != order[j] for j in range(1, len(order))))
        f1, f2, f3 = (os.path.join(root, n) for n in ('t1.txt', 't2.txt', 't3.txt'))
        with open(f1, 'wb') as f:
            for k in order:
                f.write(rep[k][0] + b'\n')
        with open(f2, 'wb') as f:
            for k in order:
                f.write(b'$HEX[' + rep[k][0].hex().encode() + b']\n')
        with open(f3, 'wb') as f:
            for b, n in rep:
                f.write(b'  ' + str(n).encode() + b' ' + b + b'\n')
        rdirs = [os.path.join(common.scratch_dir('rules'), n) for n in ('c19a', 'c19b', 'c19c')]
        over = i in (0, 1)
        if over:
            # the counted form is trained under a rule name that holds an earlier training of another list (keyboard walks, symbols,
            # long digit runs): the ruleset is that of the list all the same
            f0 = os.path.join(root, 't0.txt')
            with open(f0, 'wb') as f:
                f.write(b''.join(w_ + b'\n' for w_ in (b'1qaz2wsx', b'zaq1!@#', b'qwerty!!', b'$$$$', b'1234567890123', b'asdf1', b'tiger')))
            common.train(f0, rdirs[2], encoding=enc, ngram=2)
        oks = [common.train(f1, rdirs[0], encoding=enc, ngram=3)[0], common.train(f2, rdirs[1], encoding=enc, ngram=3)[0],
               common.train(f3, rdirs[2], encoding=enc, ngram=3, prefixcount=True, keep=over)[0]]
        cases += 1
        dist['trained_pairs'] += 1
        if not all(oks):
            if any(oks):
                viol.append({'property': 'C19', 'kind': 'training-success-differs', 'ok': oks, 'witness': {'rep': [(b.hex(), n) for b, n in rep], 'order': order, 'encoding': enc}})
            continue
        for other, kind in ((rdirs[1], 'hex-ruleset-differs'), (rdirs[2], 'count-ruleset-differs')):
            d = same_ruleset(rdirs[0], other)
            if d:
                viol.append({'property': 'C19', 'kind': kind, 'files': d[:5], 'witness': {'rep': [(b.hex(), n) for b, n in rep], 'order': order, 'trained': True, 'encoding': enc}})
    # the command line without --encoding: the encoding is auto-detected.  The same list as plain / $HEX[] / count-prefixed file, each
    # saved with a UTF-8 byte order mark (and once without), must train the same ruleset through `trainer.py` itself
    for variant, bom in (('bom', b'\xef\xbb\xbf'),) + ((('nobom', b''),) if not ctx.quick else ()):
        viol += autodetect_case(variant, bom, root)
        cases += 1
        dist['autodetect_trainings'] = dist.get('autodetect_trainings', 0) + 3
    if ctx.driver_ok:
        out = common.run_driver(ops)
        for i, (a, b) in enumerate(zip(out, exp)):
            if a != b:
                disagreements.append({'stream': 'read_password', 'op': ops[i][:200], 'model': a[:300], 'implementation': b[:300]})
                if len(disagreements) >= 5:
                    break
    else:
        disagreements.append({'stream': 'read_password', 'detail': 'driver does not build'})
    return {'evaluations': cases, 'distinct_nontrivial': nontrivial, 'traces': cases,
            'rule': 'training files mixing plain, $HEX[], count-prefixed, blank, undecodable and bad-hex lines with LF/CRLF ends, passwords '
                    'with leading/inner/trailing spaces, non-ASCII text, $HEX[ look-alikes, control characters, per encoding; the yielded '
                    'sequence and counters of the real reader are compared with the Lean reader; the same content re-encoded as $HEX[] and '
                    'as count prefixes must yield the same sequence; whole rulesets trained from the three encodings are compared file by '
                    'file. non-trivial = >=2 kinds of lines and at least one password yielded',
            'samples': samples, 'disagreements': disagreements, 'violations': viol, 'distribution': dist,
            'extra': {'protocol_ops': len(ops)}}


def replay(ctx, payload):
    w0 = payload.get('violation', {}).get('witness') or {}
    if 'autodetect' in w0:
        common.use_impl()
        return autodetect_case(w0['autodetect'], b'\xef\xbb\xbf' if w0['autodetect'] == 'bom' else b'', common.scratch_dir('c19'))
    w = payload.get('violation', {}).get('witness') or {}
    root = common.scratch_dir('c19r')
    if w.get('long_lines'):
        common.use_impl()
        return long_lines_case(root, w.get('encoding', 'utf-8'), b'\r\n' if w.get('crlf') else b'\n', False)[0]
    enc = w.get('encoding', 'utf-8')
    out = []
    if w.get('trained'):
        rep = [(bytes.fromhex(h), n) for h, n in w['rep']]
        order = w.get('order') or [k for k, (_, n) in enumerate(rep) for _ in range(n)]
        f1, f2, f3 = (os.path.join(root, n) for n in ('t1.txt', 't2.txt', 't3.txt'))
        open(f1, 'wb').write(b''.join(rep[k][0] + b'\n' for k in order))
        open(f2, 'wb').write(b''.join(b'$HEX[' + rep[k][0].hex().encode() + b']\n' for k in order))
        open(f3, 'wb').write(b''.join(b'  ' + str(n).encode() + b' ' + b + b'\n' for b, n in rep))
        rdirs = [os.path.join(common.scratch_dir('rules'), n) for n in ('c19ra', 'c19rb', 'c19rc')]
        oks = [common.train(f1, rdirs[0], encoding=enc, ngram=3)[0], common.train(f2, rdirs[1], encoding=enc, ngram=3)[0],
               common.train(f3, rdirs[2], encoding=enc, ngram=3, prefixcount=True)[0]]
        if not all(oks):
            return [{'kind': 'training-success-differs'}] if any(oks) else []
        for other, kind in ((rdirs[1], 'hex-ruleset-differs'), (rdirs[2], 'count-ruleset-differs')):
            if same_ruleset(rdirs[0], other):
                out.append({'kind': kind})
        return out
    if 'lines' in w:
        pa, pb = os.path.join(root, 'a.txt'), os.path.join(root, 'b.txt')
        ls = [bytes.fromhex(h) for h in w['lines']]
        open(pa, 'wb').write(b''.join(b + b'\n' for b in ls))
        open(pb, 'wb').write(b''.join((b'$HEX[' + b.hex().encode() + b']' if not (b.startswith(b'$HEX[') and b.endswith(b']')) else b) + b'\n' for b in ls))
        a = real_read(pa, enc, False)
        b = real_read(pb, enc, False)
        if a[3] or b[3]:
            out.append({'kind': 'reader-raised'})
    elif 'rep' in w:
        pc, pd = os.path.join(root, 'c.txt'), os.path.join(root, 'd.txt')
        open(pc, 'wb').write(b''.join(str(n).encode() + b' ' + bytes.fromhex(h) + b'\n' for h, n in w['rep']))
        open(pd, 'wb').write(b''.join((bytes.fromhex(h) + b'\n') * n for h, n in w['rep']))
        if real_read(pc, enc, True)[0] != real_read(pd, enc, False)[0]:
            out.append({'kind': 'count-prefix-differs-from-repeats'})
    return out
