"""C20 - edit_rules only removes base structures, and only those that fail the filter."""
import contextlib
import hashlib
import io
import itertools
import os
import re
import shutil

import common
import corr_loader as cl

SITES = ['edit_length', 'edit_terminal_set', 'edit_check_regex', 'edit_rules']
TRUSTED = ["Python's re module for the user's --regex (an abstract predicate in the model; the harness ships its verdict per structure)",
           'shutil.copytree copies the ruleset (--copy)']
ASSUMPTIONS = ['grammar.txt lines are `labels<TAB>probability`; a label is an upper-case letter followed by decimal digits',
               'guess length = sum of the value lengths: A/D/O/K values have the length their label states (C05/C06), masks preserve length']

STRUCT_POOL = ['A3', 'A10', 'A1', 'D2', 'D12', 'D1', 'O1', 'O3', 'K4', 'K6', 'Y1', 'X1', 'A123', 'D1000', 'A4']
CONTEXT_VALUES = ['#1', ';p', '<3', '*0*', '#2pac']


def gen_grammar(rng):
    rows = []
    for _ in range(rng.randint(1, 9)):
        k = rng.randint(1, 4)
        rows.append((''.join(rng.choice(STRUCT_POOL) for _ in range(k)), repr(rng.choice([0.5, 0.25, 0.125, 0.3, 1e-05, 0.0625]))))
    if rng.random() < 0.6:
        rows.insert(rng.randint(0, len(rows)), ('M', repr(rng.choice([0.25, 0.1]))))
    return rows


def gen_options(rng):
    o = {'min_length': 0, 'max_length': 0, 'terminal_set': False, 'regex': None}
    r = rng.random()
    if r < 0.7:
        o['min_length'] = rng.choice([0, 0, 1, 3, 4, 6, 10])
        o['max_length'] = rng.choice([0, 0, 4, 6, 8, 12, 16, 130])
    if rng.random() < 0.4:
        o['terminal_set'] = rng.sample(['A', 'D', 'O', 'K', 'Y', 'X', 'M'], rng.randint(1, 6))
    if rng.random() < 0.3:
        o['regex'] = rng.sample(['A', 'D', '^A', 'D[0-9]+$', '[OK]', '^[^M]', 'D|O|Y', '(A|K)[0-9]+$'], rng.randint(1, 2))
    return o


def label_lengths(struct, context_lengths):
    """set of possible guess lengths of a structure (None for Markov)"""
    toks = re.findall('[A-Z][0-9]*', struct)
    if 'M' in toks:
        return None
    opts = []
    for t in toks:
        if t[0] in 'ADOK':
            opts.append([int(t[1:])])
        elif t[0] == 'Y':
            opts.append([4])
        elif t[0] == 'X':
            opts.append(sorted(context_lengths))
        else:
            opts.append([0])
    return {sum(c) for c in itertools.product(*opts)}


def expect_flags(rows, opts, context_lengths):
    """for every row: does the structure pass every requested filter (computed from the property's text, not from edit_rules)"""
    mn, mx = opts['min_length'], opts['max_length']
    out = []
    for s, _ in rows:
        toks = re.findall('[A-Z][0-9]*', s)
        lens = label_lengths(s, context_lengths)
        ok = True
        if (mn or mx) and lens is not None and any(L < mn or (mx and L > mx) for L in lens):
            ok = False
        if opts['terminal_set'] and any(t[0] not in opts['terminal_set'] for t in toks):
            ok = False
        if opts['regex'] and not all(re.search(r, s) for r in opts['regex']):
            ok = False
        out.append(ok)
    return out


def tree_digest(root, skip):
    out = {}
    for d, _, files in os.walk(root):
        for f in files:
            p = os.path.join(d, f)
            rel = os.path.relpath(p, root)
            if rel in skip:
                continue
            out[rel] = hashlib.sha256(open(p, 'rb').read()).hexdigest()
    return out


def real_edit(rules_dir, rule, opts, copy=None):
    common.use_impl()
    import importlib
    er = importlib.import_module('edit_rules')
    cfg = {'rules_dir': rules_dir, 'rule': rule, 'copy': copy, 'min_length': opts['min_length'], 'max_length': opts['max_length'],
           'terminal_set': opts['terminal_set']}
    if opts['regex']:
        cfg['regex'] = opts['regex']
    buf = io.StringIO()
    try:
        with contextlib.redirect_stdout(buf), contextlib.redirect_stderr(buf):
            er.edit_rules(cfg)
    except Exception as e:
        return 'raise:' + type(e).__name__
    return None


def guesses_by_structure(ruledir):
    """the real guesser on a ruleset: structure string (without the inserted C<n>) -> lengths of all its guesses"""
    import corr_pq
    import corr_expand
    pcfg = common.load_grammar(ruledir, skip_brute=True)
    out = {}
    pq = corr_pq.fresh_queue(pcfg)
    while True:
        it = pq.next()
        if it is None:
            break
        name = ''.join(t for t, _ in it['pt'] if t[0] != 'C')
        n, lines, raised = corr_expand.real_create(pcfg, it['pt'], None)
        out.setdefault(name, set()).update(len(l) for l in lines)
    return out


TRAINED_LIST = ['alice@gmail.com123', 'bob@yahoo.com7', 'carol@gmail.com', 'www.google.com1', 'password1', 'password1', 'monkey12', 'Summer19',
                'abcdefghijklmnopqrst1', 'x1', 'dragon!', 'dragon!', 'letmein', '12345', 'qwer1234',
                # segments that begin or end with a blank (or are blanks): a value is as long as its label says, blanks included
                'abc! 123', 'dog !1', 'my  pass', ' lead1', 'trail9 ']


def guess_level_case(spec, opts, rules_dir, trained=None):
    """the length promise on real guesses: generate every guess of the original and of the edited ruleset with the real guesser
    (`trained`: the ruleset is not written from a spec but trained from this password list by the real trainer)"""
    v = []
    rdir = os.path.join(rules_dir, 'gsrc')
    if trained is not None:
        tf = os.path.join(common.scratch_dir('c20t'), 'list.txt')
        with open(tf, 'w', encoding='utf-8') as f:
            f.write(''.join(p_ + '\n' for p_ in trained))
        ok_, log_ = common.train(tf, rdir, coverage=0.6)
        spec = {'terminals': {}, 'trained_passwords': trained}
        if not ok_:
            return [{'property': 'C20', 'kind': 'training-failed', 'log_tail': log_[-200:], 'witness': {'spec': spec, 'options': opts}}]
    else:
        common.write_ruleset(rdir, spec)
    before = guesses_by_structure(rdir)
    err = real_edit(rules_dir, 'gsrc', opts)
    if err:
        return [{'property': 'C20', 'kind': 'edit-raised', 'error': err, 'witness': {'spec': spec, 'options': opts}}]
    after = guesses_by_structure(rdir)
    mn, mx = opts['min_length'], opts['max_length']
    inb = lambda L: L >= mn and (not mx or L <= mx)
    def cat(st):
        # a letter whose upper-casing is longer than one character makes a guess longer than the stored value: if the lengths
        # of the stored values (X: the real context strings) are all within the bounds, that is the only cause left
        stored = label_lengths(st, {len(v) for v, _ in spec['terminals'].get('X1', [])} or {1})
        expanding = any(len(ch.upper()) > 1 for tok in re.findall('A[0-9]+', st) for val, _ in spec['terminals'].get(tok, []) for ch in val)
        if expanding and stored is not None and all(inb(L) for L in stored):
            return 'case-expansion'
        return 'X' if 'X' in st else 'other'
    for st, lens in before.items():
        ok = all(inb(L) for L in lens)
        if st in after and not ok:
            v.append({'property': 'C20', 'kind': 'guess-length-out-of-bounds', 'category': cat(st), 'structure': st,
                      'possible_lengths': sorted(lens), 'bounds': [mn, mx], 'via': 'real guesses', 'witness': {'spec': spec, 'options': opts}})
        if st not in after and ok:
            v.append({'property': 'C20', 'kind': 'removed-although-passing', 'category': cat(st), 'structure': st,
                      'possible_lengths': sorted(lens), 'bounds': [mn, mx], 'via': 'real guesses', 'witness': {'spec': spec, 'options': opts}})
    for st in after:
        if st not in before:
            v.append({'property': 'C20', 'kind': 'survivor-changed-or-reordered', 'structure': st, 'witness': {'spec': spec, 'options': opts}})
    return v


def linked_installation_case():
    """the tools started through symbolic links kept in a work directory that also holds an older copy of the ruleset under `Rules/`:
    every tool works on the installation's ruleset (the directory of the program file itself), so what `edit_rules.py` filtered is what
    `pcfg_guesser.py` guesses from - by whichever path either was started"""
    spec = {'terminals': {'D1': [['1', '0.5'], ['2', '0.5']], 'D3': [['123', '0.75'], ['777', '0.25']], 'A4': [['pass', '0.5'], ['word', '0.5']],
                          'C4': [['LLLL', '1.0']], 'A7': [['letmein', '1.0']], 'C7': [['LLLLLLL', '1.0']]},
            'grammar': [['A4D1', '0.25'], ['D1', '0.25'], ['A7D3', '0.125'], ['D3', '0.125'], ['A4', '0.125'], ['A4D3', '0.125']],
            'omen_prob': [], 'prince': [], 'mode': 'dyadic', 'encoding': 'utf-8'}
    name = 'c20link'
    d = common.install_ruleset(spec, name)
    snap = common.snapshot()
    work = common.scratch_dir('c20work')
    for f in ('pcfg_guesser.py', 'edit_rules.py'):
        lp = os.path.join(work, f)
        if os.path.lexists(lp):
            os.remove(lp)
        os.symlink(os.path.join(snap, f), lp)
    old = os.path.join(work, 'Rules', name)
    if os.path.exists(old):
        shutil.rmtree(old)
    shutil.copytree(d, old)
    viol = []
    wit = {'linked_installation': True}
    o, e, rc = common.run_cli(os.path.join(work, 'edit_rules.py'), ['-r', name, '--min_length', '3', '--max_length', '5'], stdin='devnull')
    kept = [l.split('\t')[0] for l in open(os.path.join(d, 'Grammar', 'grammar.txt')).read().split('\n') if l]
    if rc != 0 or kept != ['A4D1', 'D3', 'A4']:
        viol.append({'property': 'C20', 'kind': 'cli-typed-options', 'kept': kept, 'expected': ['A4D1', 'D3', 'A4'], 'rc': rc,
                     'stderr': e.decode(errors='replace')[-200:], 'witness': wit})
        return viol, 1
    direct, _, _ = common.run_cli('pcfg_guesser.py', ['-r', name, '-s', 'c20linka'], stdin='devnull')
    linked, _, _ = common.run_cli(os.path.join(work, 'pcfg_guesser.py'), ['-r', name, '-s', 'c20linkb'], stdin='devnull')
    bad = [w for w in linked.decode('utf-8', 'replace').split('\n') if w and not 3 <= len(w) <= 5]
    if linked != direct or bad or not direct:
        viol.append({'property': 'C20', 'kind': 'guess-outside-length-bounds', 'guesses': bad[:5], 'lines_direct': direct.count(b'\n'),
                     'lines_through_link': linked.count(b'\n'), 'witness': wit})
    return viol, 3


def run(ctx):
    rng = ctx.rng
    viol, samples, disagreements = [], [], []
    ops, exp = ['er.new'], ['ok']
    dist = {'options': {}, 'has_X': 0, 'multi_digit': 0, 'copy': 0, 'kept_fraction': []}
    cases = nontrivial = 0
    rules_dir = common.scratch_dir('c20rules')
    base_spec = {'terminals': {'X1': [[v, '0.2'] for v in CONTEXT_VALUES], 'D1': [['1', '1.0']]}, 'grammar': [], 'omen_prob': []}
    ctx_lens = {len(v) for v in CONTEXT_VALUES}
    seen = set()
    for i in range(ctx.scale(150, 2500)):
        rows = gen_grammar(rng)
        opts = gen_options(rng)
        # the context-sensitive values of this ruleset (their lengths are what an `X1` label stands for)
        cvals = rng.sample(CONTEXT_VALUES, rng.randint(1, len(CONTEXT_VALUES)))
        ctx_lens = {len(v) for v in cvals}
        spec = dict(base_spec, grammar=[[s, p] for s, p in rows])
        spec['terminals'] = dict(base_spec['terminals'], X1=[[v, '0.2'] for v in cvals])
        rdir = os.path.join(rules_dir, 'src')
        common.write_ruleset(rdir, spec)
        gfile = os.path.join(rdir, 'Grammar', 'grammar.txt')
        before_text = open(gfile).read()
        use_copy = rng.random() < 0.25
        cdir = os.path.join(rules_dir, 'cpy')
        if os.path.exists(cdir):
            shutil.rmtree(cdir)
        before = tree_digest(rdir, set())
        err = real_edit(rules_dir, 'src', opts, copy='cpy' if use_copy else None)
        target = cdir if use_copy else rdir
        cases += 1
        dist['copy'] += int(use_copy)
        okey = ('len' if opts['min_length'] or opts['max_length'] else '') + ('+set' if opts['terminal_set'] else '') + ('+re' if opts['regex'] else '')
        dist['options'][okey or 'none'] = dist['options'].get(okey or 'none', 0) + 1
        # model correspondence
        okre = []
        if opts['regex']:
            # the regex step sees the text after the previous steps; ship the verdict for every structure of the original
            for s, _ in rows:
                if all(re.search(r, s) for r in opts['regex']):
                    okre.append(s)
            ops.append('er.new')
            exp.append('ok')
            for s in okre:
                ops.append('er.reok ' + cl.cps(s))
                exp.append('ok')
        terms = 'none' if not opts['terminal_set'] else cl.cps(''.join(x for x in opts['terminal_set'] if len(x) == 1))
        ops.append(f"er.edit {min(ctx_lens)} {max(ctx_lens)} {opts['min_length']} {opts['max_length']} {terms} {1 if opts['regex'] else 0} {cl.cps(before_text)}")
        if err:
            exp.append('raise')
            viol.append({'property': 'C20', 'kind': 'edit-raised', 'error': err, 'witness': {'rows': rows, 'options': opts, 'context_values': cvals}})
            continue
        after_text = open(os.path.join(target, 'Grammar', 'grammar.txt')).read()
        exp.append('text ' + cl.cps(after_text))
        # oracle 1: other files untouched; with --copy the source is untouched and the copy differs only in grammar.txt
        skip = {os.path.join('Grammar', 'grammar.txt')}
        if use_copy:
            if tree_digest(rdir, set()) != before:
                viol.append({'property': 'C20', 'kind': 'copy-source-modified', 'witness': {'rows': rows, 'options': opts, 'context_values': cvals}})
            if tree_digest(cdir, skip) != {k: v for k, v in before.items() if k not in skip}:
                viol.append({'property': 'C20', 'kind': 'other-file-touched', 'witness': {'rows': rows, 'options': opts, 'context_values': cvals}})
        else:
            if tree_digest(rdir, skip) != {k: v for k, v in before.items() if k not in skip}:
                viol.append({'property': 'C20', 'kind': 'other-file-touched', 'witness': {'rows': rows, 'options': opts, 'context_values': cvals}})
        # oracle 2: survivors = a subsequence of the original lines, byte-identical
        orig_lines = [f"{s}\t{p}" for s, p in rows]
        after_lines = [l for l in after_text.split('\n') if l]
        it = iter(orig_lines)
        if not all(any(a == o for o in it) for a in after_lines):
            viol.append({'property': 'C20', 'kind': 'survivor-changed-or-reordered', 'after': after_lines[:4], 'before': orig_lines[:6],
                         'witness': {'rows': rows, 'options': opts, 'context_values': cvals}})
            continue
        # oracle 3: removed <=> fails a requested filter; kept => every guess length within bounds
        kept = set()
        j = 0
        flags = []
        for o in orig_lines:
            if j < len(after_lines) and after_lines[j] == o:
                flags.append(True)
                j += 1
            else:
                flags.append(False)
        mn, mx = opts['min_length'], opts['max_length']
        for (s, p), k in zip(rows, flags):
            toks = re.findall('[A-Z][0-9]*', s)
            lens = label_lengths(s, ctx_lens)
            fails = []
            if (mn or mx) and lens is not None:
                if any(L < mn or (mx and L > mx) for L in lens):
                    fails.append('length')
            if opts['terminal_set'] and any(t[0] not in opts['terminal_set'] for t in toks):
                fails.append('terminal_set')
            if opts['regex'] and not all(re.search(r, s) for r in opts['regex']):
                fails.append('regex')
            hasx = 'X' in s
            if k and 'length' in fails:
                viol.append({'property': 'C20', 'kind': 'guess-length-out-of-bounds', 'category': 'X' if hasx else 'other',
                             'structure': s, 'possible_lengths': sorted(lens), 'bounds': [mn, mx],
                             'witness': {'rows': rows, 'options': opts, 'context_values': cvals}})
            elif k and fails:
                viol.append({'property': 'C20', 'kind': 'kept-although-failing', 'structure': s, 'fails': fails,
                             'witness': {'rows': rows, 'options': opts, 'context_values': cvals}})
            elif not k and not fails:
                viol.append({'property': 'C20', 'kind': 'removed-although-passing', 'structure': s, 'category': 'X' if hasx else 'other',
                             'witness': {'rows': rows, 'options': opts, 'context_values': cvals}})
        dist['has_X'] += int(any('X' in s for s, _ in rows))
        dist['multi_digit'] += int(any(re.search('[0-9]{2,}', s) for s, _ in rows))
        key = (len(rows), sum(flags), okey)
        if 0 < sum(flags) < len(rows) and key not in seen:
            nontrivial += 1
        seen.add(key)
        if len(samples) < 3 and 0 < sum(flags) < len(rows):
            samples.append({'rows': rows, 'options': opts, 'kept': [s for (s, _), k in zip(rows, flags) if k]})
    # the length promise on real guesses of complete rulesets (every label has its list; X values of 2-5 characters)
    import gen_rulesets
    import gen_omen
    greal = 0
    for i in range(ctx.scale(20, 200)):
        gspec = gen_rulesets.gen_ruleset(rng, mode='dyadic', markov=rng.random() < 0.3, max_structs=5, max_pos=3, max_groups=2, max_vals=2,
                                         omen=gen_omen.gen_omen(rng, ngram=2, nletters=2, maxlen_extra=1), allow_dup_struct=False)
        gopts = {'min_length': rng.choice([0, 0, 2, 3, 5]), 'max_length': rng.choice([0, 4, 6, 8, 12]), 'terminal_set': False, 'regex': None}
        if not gopts['min_length'] and not gopts['max_length']:
            gopts['max_length'] = 7
        try:
            viol += guess_level_case(gspec, gopts, rules_dir)
        except common.ImplFailure:
            raise
        greal += 1
    # the recorded finding's own input, whatever the seed: a letter whose upper-casing is two characters under a `U` mask
    kspec = {'terminals': {'A2': [['a\xdf', '1.0']], 'C2': [['LL', '0.5'], ['LU', '0.5']], 'K4': [['qwer', '1.0']], 'A1': [['x', '1.0']], 'C1': [['L', '1.0']]},
             'grammar': [['A2K4A1', '0.5'], ['K4', '0.5']], 'omen_prob': [], 'prince': [], 'mode': 'dyadic', 'encoding': 'utf-8'}
    viol += guess_level_case(kspec, {'min_length': 0, 'max_length': 7, 'terminal_set': False, 'regex': None}, rules_dir)
    greal += 1
    # whatever the seed: a stored word that keeps an upper-case letter (U+0130: lower-casing it would change the length, so the trainer
    # leaves it) under masks that touch the first letter only - every guess of A5D3 has exactly 8 characters
    ispec = {'terminals': {'A5': [['den\u0130z', '0.5'], ['hello', '0.5']], 'C5': [['LLLLL', '0.5'], ['ULLLL', '0.25'], ['UUUUU', '0.25']],
                           'D3': [['123', '1.0']], 'D2': [['12', '1.0']]},
             'grammar': [['A5D3', '0.5'], ['A5D2', '0.25'], ['A5', '0.25']], 'omen_prob': [], 'prince': [], 'mode': 'dyadic', 'encoding': 'utf-8'}
    viol += guess_level_case(ispec, {'min_length': 8, 'max_length': 8, 'terminal_set': False, 'regex': None}, rules_dir)
    greal += 1
    # whatever the seed: values that begin or end with a blank (or consist of blanks) - they count with their full length
    bspec = {'terminals': {'A4': [['pass', '1.0']], 'C4': [['LLLL', '1.0']], 'O2': [[' !', '0.4'], ['! ', '0.3'], ['  ', '0.3']], 'D2': [['12', '1.0']],
                           'O1': [[' ', '0.5'], ['\xa0', '0.5']]},
             'grammar': [['A4O2D2', '0.5'], ['A4O1D2', '0.25'], ['A4D2', '0.25']], 'omen_prob': [], 'prince': [], 'mode': 'dyadic', 'encoding': 'utf-8'}
    viol += guess_level_case(bspec, {'min_length': 8, 'max_length': 8, 'terminal_set': False, 'regex': None}, rules_dir)
    greal += 1
    # trainer -> edit_rules -> guesser: a ruleset trained from a list with e-mail / web-site passwords followed by further segments
    viol += guess_level_case(None, {'min_length': 0, 'max_length': 10, 'terminal_set': False, 'regex': None}, rules_dir, trained=TRAINED_LIST)
    viol += guess_level_case(None, {'min_length': 8, 'max_length': 8, 'terminal_set': False, 'regex': None}, rules_dir, trained=TRAINED_LIST)
    greal += 1
    cases += greal
    # CLI level: the same through edit_rules.py in the snapshot
    cli_runs = 0
    for i in range(ctx.scale(2, 10)):
        rows = gen_grammar(rng)
        if i == 0:
            # whatever the seed: structures that tell comma-separated regexes with alternations, anchors and groups apart
            rows = [('A3O1', '0.25'), ('A3D2', '0.125'), ('O1A3', '0.125'), ('M', '0.1'), ('D2', '0.0625'), ('A4Y1', '0.0625'), ('K4', '0.0625'),
                    ('X1A3', '0.0625'), ('D12O3A10', '0.0625'), ('Y1', '0.03125')]
        # the context-sensitive values of this ruleset (their lengths are what an `X1` label stands for)
        cvals = rng.sample(CONTEXT_VALUES, rng.randint(1, len(CONTEXT_VALUES)))
        ctx_lens = {len(v) for v in cvals}
        spec = dict(base_spec, grammar=[[s, p] for s, p in rows])
        spec['terminals'] = dict(base_spec['terminals'], X1=[[v, '0.2'] for v in cvals])
        name = f"er{i}"
        d = common.install_ruleset(spec, name)
        snap = common.snapshot()
        before = tree_digest(d, set())
        cp = os.path.join(snap, 'Rules', name + 'c')
        if os.path.exists(cp):
            shutil.rmtree(cp)
        out, err, rc = common.run_cli('edit_rules.py', ['-r', name, '--copy', name + 'c', '--max_length', '8', '--min_length', '2'], stdin='devnull')
        cli_runs += 1
        if rc != 0 or tree_digest(d, set()) != before or not os.path.exists(cp):
            viol.append({'property': 'C20', 'kind': 'cli-copy', 'rc': rc, 'stderr': err.decode(errors='replace')[-200:], 'witness': {'rows': rows}})
            continue
        # the error path: --copy onto a ruleset that already exists (the copy just made, then the source itself).  Whatever the program
        # reports, nothing on disk may change: neither the source nor the existing target
        copy_before = tree_digest(cp, set())
        for target in (name + 'c', name):
            out, err, rc = common.run_cli('edit_rules.py', ['-r', name, '--copy', target, '--max_length', '6'], stdin='devnull')
            cli_runs += 1
            src_now = tree_digest(d, set()) if os.path.isdir(d) else None
            cp_now = tree_digest(cp, set()) if os.path.isdir(cp) else None
            if src_now != before or cp_now != copy_before:
                viol.append({'property': 'C20', 'kind': 'cli-copy-onto-existing-changed-disk', 'copy_target': 'the source itself' if target == name else 'an existing ruleset',
                             'source_present': src_now is not None, 'target_present': cp_now is not None, 'rc': rc,
                             'witness': {'rows': rows, 'copy_onto_existing': True}})
                break
        # the options as typed: comma-separated regexes with alternations, anchors and groups, terminal sets in lower case,
        # bounds given as strings.  The copy's grammar.txt must be the original minus exactly the structures failing a filter
        typed = [(['--regex', 'A,D|O|Y'], {'regex': ['A', 'D|O|Y']}), (['--regex', 'D|O|Y'], {'regex': ['D|O|Y']}),
                 (['--regex', '^A[0-9]+,[0-9]$'], {'regex': ['^A[0-9]+', '[0-9]$']}), (['--regex', '(A|D)[0-9],K|X|^M$'], {'regex': ['(A|D)[0-9]', 'K|X|^M$']}),
                 (['--regex', '^(A|D),([0-9])$', '--max_length', '12'], {'regex': ['^(A|D)', '([0-9])$'], 'max_length': 12}),
                 (['--terminal_set', 'a,d,o,m'], {'terminal_set': ['A', 'D', 'O', 'M']}),
                 (['--terminal_set', 'A,K,X', '--regex', 'A|X', '--min_length', '3'], {'terminal_set': ['A', 'K', 'X'], 'regex': ['A|X'], 'min_length': 3})]
        picks = typed if not ctx.quick else [typed[0], typed[(i * 2 + 1) % len(typed)], typed[(i * 2 + 2) % len(typed)]]
        for argv, o in picks:
            topts = dict({'min_length': 0, 'max_length': 0, 'terminal_set': False, 'regex': None}, **o)
            tgt = name + 't'
            tdir = os.path.join(snap, 'Rules', tgt)
            if os.path.exists(tdir):
                shutil.rmtree(tdir)
            out, err, rc = common.run_cli('edit_rules.py', ['-r', name, '--copy', tgt] + argv, stdin='devnull')
            cli_runs += 1
            dist['cli_typed_options'] = dist.get('cli_typed_options', 0) + 1
            gpath = os.path.join(tdir, 'Grammar', 'grammar.txt')
            want = [f"{s}\t{p}" for (s, p), k in zip(rows, expect_flags(rows, topts, ctx_lens)) if k]
            got = [l for l in open(gpath).read().split('\n') if l] if os.path.exists(gpath) else None
            if rc != 0 or got != want or tree_digest(d, set()) != before:
                viol.append({'property': 'C20', 'kind': 'cli-typed-options', 'argv': argv, 'rc': rc, 'kept': got if got is None else got[:8], 'expected': want[:8],
                             'stderr': err.decode(errors='replace')[-200:], 'witness': {'rows': rows, 'argv': argv, 'options': topts, 'context_values': cvals, 'cli': True}})
    v_link, r_link = linked_installation_case()
    viol += v_link
    cli_runs += r_link
    cases += cli_runs
    if ctx.driver_ok:
        out = common.run_driver(ops)
        for i, (a, b) in enumerate(zip(out, exp)):
            if a != b:
                disagreements.append({'stream': 'edit_rules', 'op': ops[i][:200], 'model': a[:300], 'implementation': b[:300]})
                if len(disagreements) >= 5:
                    break
    else:
        disagreements.append({'stream': 'edit_rules', 'detail': 'driver does not build'})
    return {'evaluations': cases, 'distinct_nontrivial': nontrivial, 'traces': cases,
            'rule': 'grammar.txt files over labels with 1-4 digit lengths, years, context (X), keyboard, the Markov structure; random '
                    'combinations of --min_length/--max_length, --terminal_set, --regex, --copy; the real edit_rules() runs on a ruleset '
                    'directory; the resulting grammar.txt is compared with the Lean model, the directory tree is hashed before/after, '
                    'survivors must be a byte-identical subsequence, removed <=> fails a filter, and every possible guess length of a kept '
                    'structure (X contributes the real lengths of the context strings) must lie within the bounds. non-trivial = some but '
                    'not all structures survive; distinct by (#structures, #kept, options); plus complete generated rulesets edited with length bounds and '
                    'every guess of every structure produced by the real guesser before and after (kept <=> all its guesses within the bounds)',
            'samples': samples, 'disagreements': disagreements, 'violations': viol, 'distribution': {k: v for k, v in dist.items() if k != 'kept_fraction'},
            'extra': {'cli_runs': cli_runs, 'protocol_ops': len(ops), 'rulesets_with_real_guesses': greal}}


def replay(ctx, payload):
    if (payload.get('violation', {}).get('witness') or {}).get('linked_installation'):
        common.use_impl()
        return linked_installation_case()[0]
    w = payload.get('violation', {}).get('witness') or {}
    if 'rows' not in w or 'options' not in w:
        return []
    rules_dir = common.scratch_dir('c20replay')
    if w.get('cli'):
        cvals = w.get('context_values') or CONTEXT_VALUES
        spec = {'terminals': {'X1': [[v, '0.2'] for v in cvals], 'D1': [['1', '1.0']]}, 'grammar': [[s, p] for s, p in w['rows']], 'omen_prob': []}
        common.install_ruleset(spec, 'c20r')
        snap = common.snapshot()
        tdir = os.path.join(snap, 'Rules', 'c20rt')
        if os.path.exists(tdir):
            shutil.rmtree(tdir)
        out_, err_, rc = common.run_cli('edit_rules.py', ['-r', 'c20r', '--copy', 'c20rt'] + w['argv'], stdin='devnull')
        gpath = os.path.join(tdir, 'Grammar', 'grammar.txt')
        want = [f"{s}\t{p}" for (s, p), k in zip(w['rows'], expect_flags(w['rows'], w['options'], {len(v) for v in cvals})) if k]
        got = [l for l in open(gpath).read().split('\n') if l] if os.path.exists(gpath) else None
        return [{'kind': 'cli-typed-options', 'kept': got, 'expected': want}] if rc != 0 or got != want else []
    if 'spec' in w:
        return [{'kind': v['kind'], 'structure': v.get('structure')}
                for v in guess_level_case(w['spec'], w['options'], rules_dir, trained=w['spec'].get('trained_passwords'))]
    cvals = w.get('context_values') or CONTEXT_VALUES
    spec = {'terminals': {'X1': [[v, '0.2'] for v in cvals], 'D1': [['1', '1.0']]}, 'grammar': [[s, p] for s, p in w['rows']], 'omen_prob': []}
    common.write_ruleset(os.path.join(rules_dir, 'src'), spec)
    err = real_edit(rules_dir, 'src', w['options'])
    if err:
        return [{'kind': 'edit-raised', 'error': err}]
    after = [l.split('\t')[0] for l in open(os.path.join(rules_dir, 'src', 'Grammar', 'grammar.txt')).read().split('\n') if l]
    mn, mx = w['options']['min_length'], w['options']['max_length']
    out = []
    for s in after:
        lens = label_lengths(s, {len(v) for v in cvals})
        if lens and (mn or mx) and any(L < mn or (mx and L > mx) for L in lens):
            out.append({'kind': 'guess-length-out-of-bounds', 'structure': s})
    orig = [s for s, _ in w['rows']]
    if any(s not in orig for s in after):
        out.append({'kind': 'survivor-changed'})
    return out
