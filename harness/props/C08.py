from props import pq_shared
SITES = pq_shared.PQ_SITES
TRUSTED = pq_shared.PQ_TRUSTED
ASSUMPTIONS = ['ruleset is well-formed: group probabilities non-increasing in file order, finite, non-negative']
def run(ctx): return pq_shared.run(ctx, 'C08')
def replay(ctx, payload): return pq_shared.replay(ctx, payload, 'C08')
