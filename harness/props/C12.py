"""C12 - the guess stream does not depend on thread timing or on standard input."""
import configparser
import os

import common
import corr_loader as cl
import gen_omen
import gen_rulesets
import sched_session as ss

SITES = ['session_run', 'save_session', 'keypress', 'omen_gen', 'restore_omen']
TRUSTED = ['GIL atomicity of single attribute reads/writes (should_exit)', 'OS scheduling of the keyboard thread and the behaviour of input() '
           'per kind of stdin are observed (5 kinds, subprocess), not proved',
           'shared state between the two threads is only should_exit (read by the main loop at the quit test and after every Markov guess)']
ASSUMPTIONS = ['pre-terminal probabilities are distinct in the scripted runs (the saved position then identifies one pre-terminal; ties are C08)']

LINES = ['', 'h', 'x', 'status', 'Q', ' q']


def new_cfg():
    c = configparser.ConfigParser()
    for sec in ('rule_info', 'session_info', 'guessing_info'):
        c.add_section(sec)
    return c


def small_ruleset(rng, markov_pos=None, rich=False, wide=False):
    if wide:
        # four letters, most transitions at one level: lists of three and four characters for one (context, level), so that a quit
        # can fall on an interior entry of such a list
        om = gen_omen.gen_omen(rng, ngram=2, nletters=4, maxlen_extra=1, levels=[0, 0, 0, 1], density=1.0)
    elif rich:
        # lengths and n-grams at levels up to 2, Markov targets up to 4: a resumed level has to step to further lengths / IP levels
        om = gen_omen.gen_omen(rng, ngram=2, nletters=2, maxlen_extra=2, levels=[0, 1, 2], density=1.0)
        om['ln'][1:] = [rng.choice([0, 1]), 1, 2]          # lengths 2, 3, 4 at increasing length levels
    else:
        om = gen_omen.gen_omen(rng, ngram=2, nletters=2, maxlen_extra=1, levels=[0, 1], density=1.0)
    om['keyspace'] = [[l, 1] for l in range(0, 19)]
    # groups with several values of equal probability: one pre-terminal then expands to several guesses, so a quit can arrive
    # in the middle of a pre-terminal
    spec = {'terminals': {'D1': [['3', '0.4'], ['1', '0.3'], ['2', '0.3']], 'A2': [['ab', '0.35'], ['cd', '0.35'], ['ef', '0.3']],
                          'C2': [['LL', '0.9'], ['UL', '0.1']], 'O1': [['!', '0.5'], ['%', '0.25'], ['$', '0.25']]},      # `%`: a character config-file interpolation treats specially
            'grammar': [['A2D1', '0.45'], ['D1O1', '0.17'], ['D1', '0.03']], 'omen_prob': [['1', '0.5'], ['2', '0.3']], 'omen': om}
    if rich:
        a, b = rng.choice([1, 2]), rng.choice([3, 4])
        spec['omen_prob'] = [[str(b), '0.5'], [str(a), '0.3']] if rng.random() < 0.5 else [[str(a), '0.5'], [str(b), '0.3']]
    pm = rng.choice(['0.35', '0.0001', '0.2'])
    pos = rng.randint(0, 3) if markov_pos is None else markov_pos
    spec['grammar'].insert(pos, ['M', pm])
    return spec


def unit_ops(units):
    ops = ['ss.new']
    for kind, prob, lines in units:
        ops.append(' '.join(['ss.unit', kind] + [cl.cps(l) for l in lines]))
    return ops


def ev_tokens(events):
    out = []
    for e in events:
        if e[0] == 'line':
            out.append(f"L:{cl.cps(e[1])}:{1 if e[2] else 0}")
        elif e[0] == 'eof':
            out.append('E')
        else:
            out.append('X')
    return ','.join(out) or '-'


def omn_token(omn):
    if omn is None:
        return 'none'
    if not omn:
        return 'some'
    return 'some;' + ';'.join(cl.cps(x) for x in omn)


def distinct_probs(units):
    ps = [u[1] for u in units]
    return len(set(ps)) == len(ps)


def trained_list(rng):
    import random
    rng = random.Random(6)          # one fixed list (seed chosen so that a training password lies at the highest listed level), whatever the seed of the run: its top listed level is a level the guesser enters
    syl = ['ka', 'mi', 'to', 'ra', 'ne', 'lu', 'so', 'be', 'di', 'va', 'x', 'q', '7', '12', '99', '2000']
    return [''.join(rng.choice(syl) for _ in range(rng.randint(3, 6))) for _ in range(300)]


def trained_status_case(rng, dist, pws=None):
    import io
    import contextlib
    pws = pws or trained_list(rng)
    tf = os.path.join(common.scratch_dir('c12t'), 'list.txt')
    with open(tf, 'w', encoding='utf-8') as f:
        f.write(''.join(p + '\n' for p in pws))
    rd = os.path.join(common.scratch_dir('rules'), 'c12trained')
    ok, log = common.train(tf, rd, ngram=3, coverage=0.6)
    wit = {'trained_passwords': pws}
    if not ok:
        return [{'property': 'C12', 'kind': 'training-failed', 'log_tail': log[-200:], 'witness': wit}]
    pcfg = common.load_grammar(rd)
    out = []
    levels = []
    for idx, grp in enumerate(pcfg.grammar.get('M', [])):
        levels.append(grp['values'][0])
        try:
            with contextlib.redirect_stderr(io.StringIO()), contextlib.redirect_stdout(io.StringIO()):
                st = pcfg.get_status([('M', idx)])
            if 'keyspace' not in st:
                raise KeyError('keyspace')
        except Exception as e:
            out.append({'property': 'C12', 'kind': 'status-request-fails-inside-markov-level', 'level': grp['values'][0], 'error': repr(e)[:100], 'witness': wit})
            break
    dist['trained_markov_levels_status_checked'] = len(levels)
    ks_levels = [int(ln.split('\t')[0]) for ln in open(os.path.join(rd, 'Omen', 'omen_keyspace.txt'), encoding='utf-8') if ln.strip()]
    dist['trained_top_keyspace_level_is_generated'] = bool(ks_levels) and str(max(ks_levels)) in [str(x) for x in levels]
    return out


def line_interleaving_case():
    """a status request served at *every* line boundary of the generation code (the finest switch point the interpreter offers between
    two threads, short of single byte codes): the real `StatusReport.print_status` - what `keypress` calls - is run at the k-th line
    event inside `lib_guesser` while a pre-terminal with a word, a mask and digits is expanded and while a Markov level runs; the
    stream written to stdout is the same for every k as without any request"""
    import contextlib
    import io
    import sys
    common.use_impl()
    spec = {'terminals': {'A4': [['love', '0.5'], ['pass', '0.5']], 'C4': [['LLLL', '0.4'], ['ULLL', '0.4'], ['UUUU', '0.2']], 'D2': [['12', '0.5'], ['99', '0.5']],
                          'O1': [['!', '1.0']]},
            'grammar': [['A4D2', '0.5'], ['O1A4', '0.25'], ['M', '0.25']], 'omen_prob': [['1', '0.5']], 'prince': [], 'mode': 'dyadic', 'encoding': 'utf-8',
            'omen': {'ngram': 2, 'alphabet': ['a', 'b'], 'ip': [[0, 'a'], [0, 'b']], 'ep': [[0, 'a'], [0, 'b']],
                     'cp': [[0, 'aa'], [0, 'ab'], [0, 'ba'], [0, 'bb']], 'ln': [10, 1, 10], 'keyspace': [[1, 4]]}}
    d = common.write_ruleset(os.path.join(common.scratch_dir('rules'), 'c12lines'), spec)
    pcfg = common.load_grammar(d)
    import lib_guesser.cracking_session as cs
    session = cs.CrackingSession(pcfg, new_cfg(), os.path.join(common.scratch_dir('sess'), 'c12lines.sav'))
    report = session.report
    pts = [[('A4', 0), ('C4', 0), ('D2', 0)], [('O1', 0), ('A4', 0), ('C4', 1)], [('M', 0)]]
    here = os.sep + 'lib_guesser' + os.sep

    def expand(k):
        """all three pre-terminals with one status request at line event k (None: no request); returns (stdout text, events seen)"""
        seen = [0]
        served = [False]

        def tracer(frame, event, arg):
            if here not in frame.f_code.co_filename:
                return None
            if event == 'line':
                if k is not None and seen[0] == k and not served[0]:
                    served[0] = True
                    sys.settrace(None)
                    try:
                        with contextlib.redirect_stderr(io.StringIO()):
                            report.print_status(pcfg)
                    except Exception:
                        pass
                    sys.settrace(tracer)
                seen[0] += 1
            return tracer
        buf = io.StringIO()
        with contextlib.redirect_stdout(buf), contextlib.redirect_stderr(io.StringIO()):
            for pt in pts:
                report.pt_item = {'pt': pt, 'prob': 0.5, 'base_prob': 0.5}
                sys.settrace(tracer)
                try:
                    pcfg.create_guesses(pt)
                finally:
                    sys.settrace(None)
        return buf.getvalue(), seen[0]
    base, total = expand(None)
    viol = []
    for k in range(total):
        got, _ = expand(k)
        if got != base:
            viol.append({'property': 'C12', 'kind': 'status-request-changes-stream', 'line_event': k, 'of': total, 'without_request': base.split('\n')[:8],
                         'with_request': got.split('\n')[:8], 'witness': {'line_interleaving_case': True}})
            break
    return viol, total


def run(ctx):
    rng = ctx.rng
    common.use_impl()
    viol, samples, disagreements = [], [], []
    ops, exp = [], []
    dist = {'stdin': {}, 'ended': {}, 'q_lines': 0, 'status_failures': 0}
    cases = nontrivial = 0
    root = common.scratch_dir('rules')
    sdir = common.scratch_dir('sess')
    v_lines, n_lines = line_interleaving_case()
    viol += v_lines
    cases += n_lines
    dist['status_at_line_boundaries'] = n_lines
    for i in range(ctx.scale(12, 120)):
        spec = small_ruleset(rng, rich=(i % 2 == 1))      # every other ruleset: Markov levels that span several lengths / IP levels
        d = common.write_ruleset(os.path.join(root, f"c12_{i % 5}"), spec)
        pcfg = common.load_grammar(d)
        units = ss.units_of(pcfg)
        if not distinct_probs(units):
            continue
        full = [l for u in units for l in u[2]]
        uops = unit_ops(units)
        ops += uops
        exp += ['ok'] * len(uops)
        nsteps = len(full) + 2 * len(units) + 3
        if i % 2 == 1:
            # deterministic part for the rich rulesets: q handled right before guess j of every Markov level (j = 0 and the middle), then
            # a resumed session that nobody talks to: both sessions together print the whole stream
            from props import C15 as _c15
            import configparser as _cp
            for ui in [k for k, u in enumerate(units) if u[0] == 'm' and len(u[2]) >= 2 and k != len(units) - 1]:
                for j in sorted({0, len(units[ui][2]) // 2}):
                    sfq = os.path.join(sdir, f"c12q_{i}_{ui}_{j}.sav")
                    for ext in ('.sav', '.omn'):
                        if os.path.exists(sfq[:-4] + ext):
                            os.remove(sfq[:-4] + ext)
                    witq = {'spec': spec, 'schedule': _c15.quit_schedule(units, ui, j), 'events': [('line', 'q', False)], 'past_time': None, 'then_resumed': True}
                    try:
                        q1 = ss.run_session(pcfg, sfq, new_cfg(), False, witq['schedule'], witq['events'])
                        cfgq = _cp.ConfigParser()
                        cfgq.read(sfq)
                        q2 = ss.run_session(pcfg, sfq, cfgq, True, 'm' * (nsteps + 5), []) if q1['state'] == 'exited' else {'out': []}
                    except Exception as e:
                        viol.append({'property': 'C12', 'kind': 'session-raised', 'error': repr(e)[:200], 'witness': witq})
                        continue
                    cases += 1
                    dist['quit_in_markov_then_resumed'] = dist.get('quit_in_markov_then_resumed', 0) + 1
                    if q1['state'] == 'exited' and q1['out'] + q2['out'] != full:
                        viol.append({'property': 'C12', 'kind': 'resumed-session-does-not-print-the-rest', 'first': len(q1['out']), 'resumed': len(q2['out']),
                                     'total': len(full), 'witness': witq})
        for rep in range(ctx.scale(8, 25)):
            kind = rng.choice(['none', 'eof', 'err', 'chatter', 'q', 'q', 'q-fails', 'chatter+eof'])
            events = []
            if 'chatter' in kind:
                events += [('line', rng.choice(LINES), rng.random() < 0.2) for _ in range(rng.randint(1, 4))]
            if kind in ('eof', 'chatter+eof'):
                events.append(('eof',))
            if kind == 'err':
                events.append(('err',))
            if kind.startswith('q'):
                events += [('line', rng.choice(LINES), False) for _ in range(rng.randint(0, 2))]
                events.append(('line', 'q', kind == 'q-fails'))
            nk = 2 * len(events) + 2
            sched = ['m'] * nsteps + ['k'] * nk
            rng.shuffle(sched)
            if rng.random() < 0.3:
                sched = ['k'] * nk + ['m'] * nsteps          # keyboard thread runs (and may die) before the first guess
            sched = ''.join(sched)
            sf = os.path.join(sdir, f"c12_{i}_{rep}.sav")
            for ext in ('.sav', '.omn'):
                if os.path.exists(sf[:-4] + ext):
                    os.remove(sf[:-4] + ext)
            try:
                past = rng.choice([None, 0, 3700, 90000, 200000, 90000000])
                r = ss.run_session(pcfg, sf, new_cfg(), False, sched, events, past_time=past)
            except Exception as e:
                viol.append({'property': 'C12', 'kind': 'session-raised', 'error': repr(e)[:200], 'witness': {'spec': spec, 'schedule': sched, 'events': events, 'past_time': past}})
                continue
            cases += 1
            dist['stdin'][kind] = dist['stdin'].get(kind, 0) + 1
            dist['ended'][r['state']] = dist['ended'].get(r['state'], 0) + 1
            has_q = any(e[0] == 'line' and e[1] == 'q' for e in events)
            dist['q_lines'] += int(has_q)
            dist['status_failures'] += sum(1 for e in events if e[0] == 'line' and e[2])
            wit = {'spec': spec, 'schedule': sched, 'events': events, 'past_time': past}
            # oracle on the implementation
            if r['stdout_extra']:
                viol.append({'property': 'C12', 'kind': 'stdout-written-outside-guess-stream', 'text': r['stdout_extra'][:80], 'witness': wit})
            if r['out'] != full[:len(r['out'])]:
                viol.append({'property': 'C12', 'kind': 'stream-altered', 'out': r['out'][:6], 'witness': wit})
            if not has_q and (r['state'] != 'finished' or r['out'] != full):
                viol.append({'property': 'C12', 'kind': 'stdin-eof-quits' if kind in ('eof', 'err', 'chatter+eof', 'none') else 'shortened-without-quit',
                             'stdin': kind, 'state': r['state'], 'lines': len(r['out']), 'total': len(full), 'witness': wit})
            if r['state'] == 'exited':
                pos, opt, omn, cfg = ss.read_files(sf, units, pcfg)
                rest = (omn or []) if opt else []
                after = [l for u in units[pos:] for l in u[2]]
                if r['out'] + rest + after != full:
                    viol.append({'property': 'C12', 'kind': 'quit-not-at-boundary-or-state-not-saved', 'pos': pos, 'opt': opt, 'witness': wit})
                elif not (units[-1][0] == 'm' and pos >= len(units)):
                    # ... and the files are good for what they promise: the session resumed from them (nobody types anything) prints
                    # exactly the rest
                    try:
                        import configparser as _cp
                        cfg2 = _cp.ConfigParser()
                        cfg2.read(sf)
                        r2 = ss.run_session(pcfg, sf, cfg2, True, 'm' * (nsteps + 5), [])
                        cases += 1
                        dist['resumed_after_quit'] = dist.get('resumed_after_quit', 0) + 1
                        if r['out'] + r2['out'] != full:
                            viol.append({'property': 'C12', 'kind': 'resumed-session-does-not-print-the-rest', 'first': len(r['out']), 'resumed': len(r2['out']),
                                         'total': len(full), 'witness': wit})
                    except Exception as e:
                        viol.append({'property': 'C12', 'kind': 'session-raised', 'error': repr(e)[:200], 'witness': dict(wit, resumed=True)})
            # model
            pos, opt, omn = 0, False, None
            if r['state'] == 'exited':
                pos, opt, omn, _ = ss.read_files(sf, units, pcfg)
            state = {'finished': 'finished', 'exited': 'exited'}.get(r['state'])
            ops.append(f"ss.run 0 0 none {ev_tokens(events)} {r['consumed'] if r['state'] == 'stopped' else sched}")
            if state is None:
                exp.append(None)          # stopped mid-way: compare the output only
            else:
                exp.append((state, r['out'], pos if state == 'exited' else None, opt if state == 'exited' else None))
            if has_q and r['state'] == 'exited' and 0 < len(r['out']) < len(full):
                nontrivial += 1
            if len(samples) < 3 and r['state'] == 'exited':
                samples.append({'grammar': spec['grammar'], 'events': events, 'schedule': sched[:60], 'out': r['out'][:8], 'state': r['state']})
    # a ruleset written by the trainer itself (a few hundred passwords over letters and digits: the keyspace passes the trainer's
    # cut-off at some level, which is then the highest level listed): wherever the guesser is, a status request is answered - the
    # keyboard thread that dies on one never reads the `q` typed after it
    viol += trained_status_case(rng, dist)
    cases += 1
    # real stdin kinds (subprocess): the stream never depends on them
    cli_runs = 0
    for i in range(ctx.scale(1, 4)):
        spec = small_ruleset(rng)
        name = f"c12cli{i}"
        d = common.install_ruleset(spec, name)
        pcfg = common.load_grammar(d)
        full = [l for u in ss.units_of(pcfg) for l in u[2]]
        for kind, kw in (('pipe-open', {}), ('pipe-eof', {}), ('devnull', {}), ('closed', {}),
                         ('pipe-input-eof', {'input_bytes': b'\nh\nstatus\n'}), ('pipe-input', {'input_bytes': b'\n\nh\n'}),
                         ('tty', {}), ('tty-input', {'input_bytes': b'\nh\n\n'})):
            out, err, rc = common.run_cli('pcfg_guesser.py', ['-r', name, '-s', f"c12s{i}"], stdin=kind, **kw)
            cli_runs += 1
            got = out.decode('utf-8', errors='replace').split('\n')[:-1]
            if got != full:
                viol.append({'property': 'C12', 'kind': 'stdin-eof-quits' if len(got) < len(full) else 'stream-altered', 'stdin': kind,
                             'lines': len(got), 'total': len(full), 'witness': {'spec': spec, 'stdin': kind}})
    cases += cli_runs
    if ctx.driver_ok:
        out = common.run_driver(ops)
        for i, (a, b) in enumerate(zip(out, exp)):
            if b == 'ok' or b is None and a.startswith('main='):
                if b == 'ok' and a != 'ok':
                    disagreements.append({'stream': 'session', 'op': ops[i][:100], 'model': a[:200], 'implementation': 'ok'})
                continue
            state, outl, pos, opt = b
            fields = dict(f.split('=', 1) for f in a.split(' ') if '=' in f)
            mout = [] if fields.get('out', '') == '' else fields['out'].split(';')
            ok = fields.get('main') == state and mout == [cl.cps(x) for x in outl]
            if state == 'exited':
                ok = ok and fields.get('sav') == str(pos) and fields.get('opt') == ('1' if opt else '0')
            if not ok:
                disagreements.append({'stream': 'session', 'op': ops[i][:300], 'model': a[:300], 'implementation': str(b)[:300]})
                if len(disagreements) >= 5:
                    break
    else:
        disagreements.append({'stream': 'session', 'detail': 'driver does not build'})
    return {'evaluations': cases, 'distinct_nontrivial': nontrivial, 'traces': cases,
            'rule': 'the real CrackingSession.run and keypress run as two real threads under a baton (yield points: before pqueue.next, '
                    'before every printed guess, inside input(), inside time.sleep) with random and adversarial schedules (keyboard thread '
                    'finishing before the first guess) and stdin scripts (silent pipe, EOF, error, status/help chatter, q, q whose status '
                    'print fails); output / final state / saved position compared with the Lean state machine; oracle: output is a prefix of '
                    'the uninterrupted stream, complete unless q was typed, and after a quit out + saved remainder = full; plus pcfg_guesser.py '
                    'under eight real stdin conditions (incl. a pseudo-terminal, silent and with typed status requests). non-trivial = q honoured strictly inside the stream',
            'samples': samples, 'disagreements': disagreements, 'violations': viol, 'distribution': dist,
            'extra': {'cli_runs': cli_runs, 'protocol_ops': len(ops)}}


def replay(ctx, payload):
    w_ = payload.get('violation', {}).get('witness') or {}
    if w_.get('line_interleaving_case'):
        return line_interleaving_case()[0]
    if 'trained_passwords' in w_:
        common.use_impl()
        return [{'kind': v['kind']} for v in trained_status_case(None, {}, pws=w_['trained_passwords'])]
    w = payload.get('violation', {}).get('witness') or {}
    if 'spec' not in w:
        return []
    common.use_impl()
    out = []
    if 'stdin' in w:
        d = common.install_ruleset(w['spec'], 'replay12')
        pcfg = common.load_grammar(d)
        full = [l for u in ss.units_of(pcfg) for l in u[2]]
        o, e, rc = common.run_cli('pcfg_guesser.py', ['-r', 'replay12', '-s', 'replay12'], stdin=w['stdin'])
        if o.decode('utf-8', errors='replace').split('\n')[:-1] != full:
            out.append({'kind': 'stdin-eof-quits'})
        return out
    d = common.write_ruleset(os.path.join(common.scratch_dir('rules'), 'replay12'), w['spec'])
    pcfg = common.load_grammar(d)
    units = ss.units_of(pcfg)
    full = [l for u in units for l in u[2]]
    sf = os.path.join(common.scratch_dir('sess'), 'replay12.sav')
    for ext in ('.sav', '.omn'):
        if os.path.exists(sf[:-4] + ext):
            os.remove(sf[:-4] + ext)
    ev = [tuple(e) for e in w['events']]
    r = ss.run_session(pcfg, sf, new_cfg(), False, w['schedule'], ev, past_time=w.get('past_time'))
    if r['stdout_extra']:
        out.append({'kind': 'stdout-written-outside-guess-stream', 'text': r['stdout_extra'][:80]})
    has_q = any(e[0] == 'line' and e[1] == 'q' for e in ev)
    if r['out'] != full[:len(r['out'])] or (not has_q and r['out'] != full):
        out.append({'kind': 'stream', 'lines': len(r['out']), 'total': len(full)})
    if r['state'] == 'exited':
        # the files the quit left behind: a resumed session prints exactly the rest
        import configparser as _cp
        cfg2 = _cp.ConfigParser()
        cfg2.read(sf)
        r2 = ss.run_session(pcfg, sf, cfg2, True, 'm' * (len(full) + 2 * len(units) + 8), [])
        pos = int(0)
        if r['out'] + r2['out'] != full and not (units[-1][0] == 'm' and len(r['out']) > len(full) - len(units[-1][2])):
            out.append({'kind': 'resumed-session-does-not-print-the-rest', 'first': len(r['out']), 'resumed': len(r2['out']), 'total': len(full)})
    return out
