"""C04 - a pre-terminal expands to exactly the product of its terminal groups."""
import os
import sys

import common
import corr_expand
import corr_pq
import gen_omen
import gen_rulesets

SITES = ['rec_guesses', 'omen_gen', 'create_guesses', 'print_guess', 'load_file']
TRUSTED = ["CPython str.upper() per character (parameter `upper` of the model; the harness ships the mapping of every letter involved)",
           'print() writes the line it is given (stdout captured in-process)']
ASSUMPTIONS = ['every capitalisation mask C<n> directly follows an alpha variable A<n> whose values have n characters (what the loader constructs)']


def cases_for(ctx, focus_limits):
    rng = ctx.rng
    n = ctx.scale(60, 700) * (2 if ctx.proof_broken else 1)
    root = common.scratch_dir('rules')
    ops, exp, meta, viol, samples = [], [], [], [], []
    dist = {'positions': {}, 'limit': {}, 'markov': 0, 'multi_mask': 0, 'adjacent_alpha': 0, 'size': {}}
    cases = nontrivial = 0
    seen = set()
    for i in range(n):
        if i % 5 == 4:
            # a Markov structure over a model with transitions at the top levels (9 / 10), expanded at levels above 10
            import itertools
            om = gen_omen.gen_omen(rng, ngram=2, nletters=2, maxlen_extra=rng.choice([1, 2, 3]), levels=rng.choice([[10], [0, 10], [9, 10]]))
            if i == 4:
                # whatever the seed: an initial n-gram, a transition and a length at the highest level (10) next to cheap ones, and every
                # level from 10 upwards that holds a string is expanded (`ab` = 0 + 10, `ba` = 10 + 0, `aab` = 10 + 0 + 0 + 10, ...)
                om = {'ngram': 2, 'alphabet': ['a', 'b'], 'ip': [[0, 'a'], [10, 'b']], 'ep': [[0, 'a'], [0, 'b']],
                      'cp': [[0, 'aa'], [10, 'ab'], [0, 'ba'], [1, 'bb']], 'ln': [10, 0, 10, 1], 'keyspace': []}
            lv = set()
            for ln_ in range(om['ngram'], len(om['ln']) + 1):
                for t_ in itertools.product(om['alphabet'], repeat=ln_):
                    lv.update(gen_omen.level_of(om, ''.join(t_)))
            high = sorted(l for l in lv if l >= 10) or sorted(lv) or [1]
            spec = gen_rulesets.gen_ruleset(rng, omen=om, max_vals=3, max_pos=3, markov=True, markov_levels=high)
            dist['high_level_markov'] = dist.get('high_level_markov', 0) + 1
            if i == 4:
                spec['omen_prob'] = [[str(L), repr(0.5 ** (k + 1))] for k, L in enumerate(high[:12])]
        elif i == 0:
            # one grammar object expands Markov levels 1..8 of a three-letter model one after the other (as a session does): the memo
            # table filled by earlier levels is in use for the later ones
            om = gen_omen.gen_omen(rng, ngram=2, nletters=3, maxlen_extra=3, levels=[0, 1, 2, 3], density=1.0)
            spec = gen_rulesets.gen_ruleset(rng, omen=om, max_vals=2, max_pos=2, max_structs=1, markov=True)
            spec['omen_prob'] = [[str(L), repr(0.5 ** (k + 1))] for k, L in enumerate(range(1, 9))]
            dist['markov_level_sequence'] = 8
        elif i in (1, 2, 3):
            # whatever the seed: rulesets in a two-byte legacy encoding whose Markov alphabet holds the characters that "compatible"
            # codecs decode differently (GB2312 A1A4 / A1AA: U+30FB / U+2015 there, U+00B7 / U+2014 under GBK and GB18030)
            enc_, repl_ = [('gb2312', '\u30fb'), ('gb2312', '\u2015'), ('euc_kr', '\ud55c')][i - 1]
            om = gen_omen.gen_omen(rng, ngram=2, nletters=2, maxlen_extra=2, levels=[0, 1, 2], density=1.0)
            tr_ = {ord(om['alphabet'][1]): repl_}
            om = dict(om, alphabet=[a.translate(tr_) for a in om['alphabet']], ip=[[l, g.translate(tr_)] for l, g in om['ip']],
                      ep=[[l, g.translate(tr_)] for l, g in om['ep']], cp=[[l, g.translate(tr_)] for l, g in om['cp']])
            spec = {'terminals': {'D1': [['1', '0.5'], ['2', '0.25']], 'A2': [['ab', '0.5'], [repl_ + 'x', '0.25']], 'C2': [['LL', '0.75'], ['UL', '0.25']]},
                    'grammar': [['M', '0.5'], ['A2D1', '0.25'], ['D1', '0.25']], 'omen_prob': [['1', '0.5'], ['2', '0.25'], ['3', '0.125']], 'prince': [],
                    'mode': 'dyadic', 'encoding': enc_, 'omen': om}
            dist['two_byte_encodings'] = dist.get('two_byte_encodings', 0) + 1
        else:
            om = gen_omen.gen_omen(rng, ngram=rng.choice([2, 3]), nletters=2, maxlen_extra=rng.choice([1, 2]))
            spec = gen_rulesets.gen_ruleset(rng, omen=om, max_vals=3, max_pos=4)
        d = common.write_ruleset(os.path.join(root, f"e{i % 20}"), spec)
        flags = {'skip_case': rng.random() < 0.2, 'skip_brute': False}
        try:
            pcfg = common.load_grammar(d, **flags)
        except Exception as e:
            viol.append({'property': 'C04', 'kind': 'load-raised', 'error': repr(e)[:200], 'witness': {'spec': spec, 'flags': flags}})
            continue
        # "the terminal groups" are the ruleset's: maximal runs of equal probability of each list file, every value with the file's
        # probability, the base structures tokenised from grammar.txt - computed from the file text, independently of the loader
        seen_kinds = set()
        for v_ in corr_pq.oracle_loaded_vs_files(pcfg, spec, flags) + corr_pq.oracle_structures_vs_files(pcfg, spec, flags):
            if v_['kind'] not in seen_kinds:
                seen_kinds.add(v_['kind'])
                viol.append(dict(v_, property='C04', witness={'spec': spec, 'flags': flags}))
        grid = gen_rulesets.grid_of(pcfg)
        gops = corr_expand.grammar_ops(pcfg, om)
        start = len(ops)
        ops += gops
        exp += ['ok'] * len(gops)
        nodes = list(gen_rulesets.all_nodes(grid))
        rng.shuffle(nodes)
        if i in (0, 1, 2, 3, 4):
            mnodes = sorted((n_ for n_ in nodes if grid[n_[0]][2] and grid[n_[0]][2][0] == 'M'), key=lambda n_: n_[1])
            nodes = mnodes + [n_ for n_ in nodes if n_ not in mnodes][:3]
        for b, idx in (nodes if i in (0, 1, 2, 3, 4) else nodes[:ctx.scale(5, 10)]):
            pt = [(r, j) for r, j in zip(grid[b][2], idx)]
            total = corr_expand.pt_size(pcfg, pt)
            if total > 400 and i not in (0, 1, 2, 3, 4):
                continue
            limits = corr_expand.limits_for(total, rng, ctx.quick) if focus_limits else [None]
            want = corr_expand.product_oracle(pcfg, pt)
            for lim in limits:
                n_ret, lines, raised = corr_expand.real_create(pcfg, pt, lim)
                ops.append(' '.join(['exp.run', 'none' if lim is None else str(lim)] + [f"{t}:{j}" for t, j in pt]))
                exp.append(corr_expand.expected_line(n_ret, lines, raised))
                cases += 1
                is_m = any(t[0] == 'M' for t, _ in pt)
                multi_mask = any(t[0] == 'C' and len(pcfg.grammar[t][j]['values']) > 1 for t, j in pt)
                adj = any(a[0][0] == 'C' and b2[0][0] == 'A' for a, b2 in zip(pt, pt[1:]))
                key = (tuple(t for t, _ in pt), tuple(len(pcfg.grammar[t][j]['values']) for t, j in pt), lim if lim is None else min(lim, total + 1))
                if len(pt) >= 2 and total >= 2 and (multi_mask or total >= 4) and key not in seen:
                    nontrivial += 1
                seen.add(key)
                dist['positions'][str(len(pt))] = dist['positions'].get(str(len(pt)), 0) + 1
                dist['limit']['none' if lim is None else ('inside' if lim < total else 'at-or-above')] = \
                    dist['limit'].get('none' if lim is None else ('inside' if lim < total else 'at-or-above'), 0) + 1
                dist['markov'] += int(is_m)
                dist['multi_mask'] += int(multi_mask)
                dist['adjacent_alpha'] += int(adj)
                if raised and not is_m:
                    viol.append({'property': 'C04', 'kind': 'create-guesses-raised', 'pt': str(pt), 'limit': lim,
                                 'witness': {'spec': spec, 'flags': flags, 'pt': pt, 'limit': lim}})
                    continue
                if raised:
                    continue
                if want is not None:
                    w = want if lim is None else want[:lim]
                    if lines != w:
                        viol.append({'property': 'C04' if lim is None else 'C09', 'kind': 'not-the-product' if lim is None else 'limit-not-prefix',
                                     'pt': str(pt), 'limit': lim, 'got': lines[:6], 'want': w[:6],
                                     'witness': {'spec': spec, 'flags': flags, 'pt': pt, 'limit': lim}})
                    if n_ret != len(lines):
                        viol.append({'property': 'C04', 'kind': 'count-differs-from-lines', 'pt': str(pt), 'limit': lim,
                                     'returned': n_ret, 'lines': len(lines),
                                     'witness': {'spec': spec, 'flags': flags, 'pt': pt, 'limit': lim}})
                else:
                    level = int(pcfg.grammar[pt[0][0]][pt[0][1]]['values'][0])
                    wantm = gen_omen.brute_level(om, level)
                    if wantm is not None:
                        if lim is None and sorted(lines) != wantm:
                            viol.append({'property': 'C04', 'kind': 'markov-level-set', 'level': level,
                                         'witness': {'spec': spec, 'flags': flags, 'pt': pt, 'limit': lim}})
                        if lim is not None and (len(lines) != min(lim, len(wantm)) or n_ret != len(lines)):
                            viol.append({'property': 'C09', 'kind': 'markov-limit', 'level': level, 'limit': lim, 'lines': len(lines),
                                         'witness': {'spec': spec, 'flags': flags, 'pt': pt, 'limit': lim}})
                if len(samples) < 4 and multi_mask and lim is not None and lim < total:
                    samples.append({'pt': pt, 'limit': lim, 'lines': lines, 'groups': [pcfg.grammar[t][j]['values'] for t, j in pt]})
        # group values share the file probability (C04 last sentence): by construction of _load_from_file
        meta.append((start, len(ops), spec, flags))
    return ops, exp, meta, viol, samples, dist, cases, nontrivial


def cli_resumed_limit_case(pid):
    """the program itself: a run quit by a typed `q` while a Markov level flows, then `--load -n N`: stdout holds exactly N lines - the next
    N guesses of the uninterrupted run (what the guesser counts as generated is what was written)"""
    from props import C15 as _c15
    spec = _c15.big_markov_spec()
    # six letters, lengths 2..8: 2,015,538 strings in the one Markov level (a second or more of block-buffered output - the `q` is read a
    # tenth of a second into the run)
    letters = ['a', 'b', 'c', 'd', 'e', 'f']
    spec['omen'] = {'ngram': 2, 'alphabet': letters, 'ip': [[0, x] for x in letters], 'ep': [[0, x] for x in letters],
                    'cp': [[0, x + y] for x in letters for y in letters], 'ln': [10] + [1] * 7, 'keyspace': [[1, 2015538]]}
    name = 'c04resume'
    common.install_ruleset(spec, name)
    viol = []
    for attempt in range(4):
        # (where the `q` lands is up to the scheduler: a run that was over before it was read is started again)
        snap = common.snapshot()
        for ext in ('.sav', '.omn'):
            if os.path.exists(os.path.join(snap, 'c04quit' + ext)):
                os.remove(os.path.join(snap, 'c04quit' + ext))
        a1, e1, _ = common.run_cli_quit('pcfg_guesser.py', ['-r', name, '-s', 'c04quit'], timeout=300)
        if b'Saving Session Info' in e1 and b'Saving OMEN guess generation status' in e1:
            break
    else:
        return viol, 1
    done = a1.count(b'\n')
    snap = common.snapshot()
    saved = {}
    for ext in ('.sav', '.omn'):
        pth = os.path.join(snap, 'c04quit' + ext)
        if os.path.exists(pth):
            saved[pth] = open(pth, 'rb').read()
    full, _, _ = common.run_cli('pcfg_guesser.py', ['-s', 'c04quit', '--load'], stdin='devnull', timeout=300)
    for pth, data in saved.items():
        open(pth, 'wb').write(data)
    full = a1 + full
    runs = 2
    for n in (9, 4096, 5000):
        # every limited resume starts from the same saved files
        snap = common.snapshot()
        keep = {}
        for ext in ('.sav', '.omn'):
            pth = os.path.join(snap, 'c04quit' + ext)
            if os.path.exists(pth):
                keep[pth] = open(pth, 'rb').read()
        o, e, rc = common.run_cli('pcfg_guesser.py', ['-s', 'c04quit', '--load', '-n', str(n)], stdin='devnull', timeout=300)
        for pth, data in keep.items():
            open(pth, 'wb').write(data)
        runs += 1
        want = b''.join(l + b'\n' for l in full.split(b'\n')[done:done + n])
        if o != want:
            viol.append({'property': pid, 'kind': 'resumed-limit-lines', 'limit': n, 'lines': o.count(b'\n'), 'want_lines': want.count(b'\n'),
                         'first_session_lines': done, 'witness': {'cli_resumed_limit': True}})
            break
    return viol, runs + 100        # (+100: the quit landed inside the run and the limited resumes were judged)


def run(ctx, pid='C04'):
    ops, exp, meta, viol, samples, dist, cases, nontrivial = cases_for(ctx, focus_limits=(pid == 'C09'))
    v_cli, r_cli = cli_resumed_limit_case(pid)
    viol += v_cli
    cases += r_cli
    disagreements = []
    if ctx.driver_ok:
        out = common.run_driver(ops)
        for i, (a, b) in enumerate(zip(out, exp)):
            if a != b:
                m = next((m for m in meta if m[0] <= i < m[1]), None)
                disagreements.append({'stream': 'create_guesses', 'op': ops[i][:200], 'model': a[:300], 'implementation': b[:300],
                                      'witness': {'spec': m[2], 'flags': m[3]} if m else None})
                if len(disagreements) >= 5:
                    break
        if len(out) != len(exp):
            disagreements.append({'stream': 'create_guesses', 'detail': 'line count differs'})
    else:
        disagreements.append({'stream': 'create_guesses', 'detail': 'driver does not build'})
    return {'evaluations': cases, 'distinct_nontrivial': nontrivial, 'traces': cases,
            'rule': 'generated rulesets (multi-value groups, several masks per group, repeated/adjacent alpha words, alpha at start/'
                    'middle/end, values with spaces, non-ASCII and non-BMP characters, Markov structures over small OMEN models) loaded '
                    'by the real loader; create_guesses(pt, limit) is run on sampled pre-terminals with limit in {None, 1, 2, total-1, '
                    'total, total+1, random}; printed lines and returned count are compared with the Lean model and with an independent '
                    'itertools.product expansion. non-trivial = >=2 positions and (several masks in a group or >=4 guesses); distinct by '
                    '(variable types, group sizes, limit)',
            'samples': samples, 'disagreements': disagreements, 'violations': viol, 'distribution': dist,
            'extra': {'protocol_ops': len(ops)}}


def replay(ctx, payload):
    w = payload.get('violation', {}).get('witness')
    if not w:
        return []
    if w.get('cli_resumed_limit'):
        return cli_resumed_limit_case(payload.get('property', 'C04'))[0]
    d = common.write_ruleset(os.path.join(common.scratch_dir('rules'), 'replay'), w['spec'])
    pcfg = common.load_grammar(d, **w['flags'])
    pt = [tuple(x) for x in w['pt']]
    n_ret, lines, raised = corr_expand.real_create(pcfg, pt, w.get('limit'))
    want = corr_expand.product_oracle(pcfg, pt)
    out = []
    if raised:
        out.append({'kind': 'create-guesses-raised'})
    elif want is not None:
        wl = want if w.get('limit') is None else want[:w['limit']]
        if lines != wl or n_ret != len(lines):
            out.append({'kind': 'mismatch', 'got': lines[:6], 'want': wl[:6], 'returned': n_ret})
    return out
