"""Shared runner for the priority-queue properties (C01, C02, C08)."""
import os

import common
import corr_pq
import corr_fp
import gen_rulesets

PQ_SITES = ['qi_lt', 'qi_le', 'qi_eq', 'qi_ne', 'qi_gt', 'qi_ge', 'pq_init', 'pq_next', 'pq_insert',
            'pq_restore_base', 'pq_update_save', 'init_base', 'find_children', 'aymc', 'find_prob', 'restore',
            'rec_restore', 'ipa']

PQ_TRUSTED = [
    'binary64: the PAlg laws are PROVED for the model SF.mul / <= on units (Lemmas/SoftFloatLemmas.lean: correctly rounded, '
    'monotone, closed on [0,1]) and instantiated (*_binary64 theorems); trusted is only that CPython\'s float * and <= on finite '
    'non-negative doubles are IEEE-754 round-to-nearest-even, which the fp stream compares bit for bit with SF.mul on every run',
    'CPython heapq pops an element that no other element precedes under QueueItem.__lt__',
    'modelled, not verified: max_queue_size / min_probability trimming (dead code: never changed from 50000 / 0.0)',
]


def exhaustive_specs():
    """all 2-position and 3-position grids over small columns with every tie pattern of 3 dyadic values"""
    import itertools
    vals = ['0.5', '0.25', '0.125']
    cols = []
    for n in (1, 2, 3):
        for c in itertools.combinations(vals, n):
            cols.append(list(c))
    specs = []
    for npos in (2, 3):
        for combo in itertools.product(range(len(cols)), repeat=npos):
            if npos == 3 and any(len(cols[i]) == 3 for i in combo) and sum(len(cols[i]) for i in combo) > 7:
                continue
            terminals = {}
            struct = ''
            for k, ci in enumerate(combo):
                name = f"D{k + 1}"
                terminals[name] = [[str(j) * (k + 1), p] for j, p in enumerate(cols[ci])]
                struct += name
            specs.append({'terminals': terminals, 'grammar': [[struct, '0.5']], 'omen_prob': [], 'mode': 'exhaustive'})
    return specs


def run(ctx, focus):
    rng = ctx.rng
    n_random = ctx.scale(150, 1200 if focus != 'C08' else 350) * (3 if ctx.proof_broken and ctx.quick else 1)
    ncuts = {'C08': ctx.scale(4, 10)}.get(focus, ctx.scale(1, 2))
    all_cuts = False
    root = common.scratch_dir('rules')
    specs = []
    corpus = os.path.join(common.VERIF, 'harness', 'corpus', 'pq')
    if os.path.isdir(corpus):
        import json
        for fn in sorted(os.listdir(corpus)):
            specs.append(('corpus', json.load(open(os.path.join(corpus, fn)))))
    if not ctx.quick:
        specs += [('exhaustive', s) for s in exhaustive_specs()]
    for _ in range(n_random):
        specs.append(('random', gen_rulesets.gen_ruleset(rng)))
    ops, exp, meta = [], [], []
    violations, samples = [], []
    dist = {'nodes': {}, 'positions': {}, 'structures': {}, 'mode': {}, 'flags': {}}
    cases = nontrivial = cuts = 0
    seen = set()
    for i, (src, spec) in enumerate(specs):
        d = common.write_ruleset(os.path.join(root, f"r{i % 50}"), spec)
        flags = spec.get('flags') or {'skip_brute': rng.random() < 0.3, 'skip_case': rng.random() < 0.3}
        try:
            r = corr_pq.run_case(d, flags, rng, ncuts=ncuts, all_cuts=(focus == 'C08' and not ctx.quick and src == 'exhaustive'),
                                 max_nodes=ctx.scale(400, 1000), spec=spec)
        except Exception as e:  # the implementation raised: that is itself a finding for C01/C02
            violations.append({'property': focus, 'kind': 'implementation-raised', 'error': repr(e)[:300],
                               'witness': {'spec': spec, 'flags': flags}})
            continue
        if r is None:
            continue
        cases += 1
        st = r['stats']
        cuts += st['cuts']
        key = (st['nodes'], st['structures'], st['max_positions'], st['parent_tie'], st['equal_neighbours'])
        if st['parent_tie'] and st['max_positions'] >= 2 and key not in seen:
            nontrivial += 1
        seen.add(key)
        for k, v in (('nodes', min(st['nodes'] // 50 * 50, 500)), ('positions', st['max_positions']),
                     ('structures', st['structures']), ('mode', spec.get('mode', '?')),
                     ('flags', f"brute={int(flags['skip_brute'])},case={int(flags['skip_case'])}")):
            dist[k][str(v)] = dist[k].get(str(v), 0) + 1
        start = len(ops)
        ops += r['ops']
        exp += r['expected']
        meta.append((start, len(ops), spec, flags))
        for v in r['violations']:
            v['witness'] = {'spec': spec, 'flags': flags, 'cut': v.get('cut')}
            violations.append(v)
        if len(samples) < 4 and st['parent_tie']:
            samples.append({'grammar': spec['grammar'], 'flags': flags, 'stats': st})
    disagreements = []
    if ctx.driver_ok:
        out = common.run_driver(ops)
        if len(out) != len(exp):
            disagreements.append({'stream': 'pq', 'detail': f"driver answered {len(out)} lines for {len(exp)} ops"})
        for i, (a, b) in enumerate(zip(out, exp)):
            if a != b:
                m = next((m for m in meta if m[0] <= i < m[1]), None)
                disagreements.append({'stream': 'pq-trace', 'op': ops[i], 'model': a[:300], 'implementation': b[:300],
                                      'witness': {'spec': m[2], 'flags': m[3]} if m else None})
                if len(disagreements) >= 5:
                    break
        fp_dis, fp_info = corr_fp.run(ctx)
        disagreements += fp_dis
    else:
        disagreements.append({'stream': 'pq', 'detail': 'driver does not build'})
        fp_info = {}
    cli_runs = 0
    if focus == 'C08':
        # the whole resume path of the program: a session started with option flags writes its save file; `--load` (flags taken
        # from the save file) must continue the same run - from the initial save that is the whole stream again
        import gen_omen
        for i in range(ctx.scale(1, 4)):
            om = gen_omen.gen_omen(rng, ngram=2, nletters=2, maxlen_extra=1)
            spec = gen_rulesets.gen_ruleset(rng, omen=om, mode='dyadic', markov=True, max_structs=2, max_pos=2, max_groups=3, max_vals=2)
            # both flags must matter for this ruleset: a word variable with two masks of different probability, and a Markov structure
            spec['terminals'].setdefault('A2', [['ab', '0.5'], ['cd', '0.25']])
            spec['terminals']['C2'] = [['LL', '0.5'], ['UL', '0.25']]
            if not any(st == 'A2' for st, _ in spec['grammar']):
                spec['grammar'].append(['A2', '0.0625'])
            name = f"c08cli{i}"
            common.install_ruleset(spec, name)
            for fl in ([], ['--skip_brute'], ['--all_lower'], ['--skip_brute', '--all_lower']):
                sess = f"c08s{i}{len(fl)}{(fl or ['--n'])[0][2]}"
                o1, e1, rc1 = common.run_cli('pcfg_guesser.py', ['-r', name, '-s', sess] + fl, stdin='pipe-open')
                o2, e2, rc2 = common.run_cli('pcfg_guesser.py', ['-s', sess, '--load'], stdin='pipe-open')
                cli_runs += 2
                if not fl:
                    # the same ruleset retrained (another UUID): the saved session must be refused - no guess is written
                    spec2 = dict(spec, uuid='00000000-0000-0000-0000-0000000000ff')
                    common.install_ruleset(spec2, name)
                    o3, e3, rc3 = common.run_cli('pcfg_guesser.py', ['-s', sess, '--load'], stdin='pipe-open')
                    cli_runs += 1
                    if o3 != b'':
                        violations.append({'property': 'C08', 'kind': 'uuid-mismatch-not-refused', 'lines': o3.count(b'\n'),
                                           'witness': {'spec': spec, 'cli': fl, 'uuid_changed': True}})
                    common.install_ruleset(spec, name)
                if o1 != o2:
                    violations.append({'property': 'C08', 'kind': 'resume-cli-differs', 'flags': fl, 'first_run_lines': o1.count(b'\n'),
                                       'resumed_lines': o2.count(b'\n'), 'witness': {'spec': spec, 'cli': fl}})
        cases += cli_runs
    return {
        'evaluations': cases, 'distinct_nontrivial': nontrivial, 'traces': cases + cuts,
        'rule': 'rulesets from gen_rulesets (dyadic / float / tiny-magnitude probabilities, repeated variable types, '
                'single-entry variables, duplicate structures, random skip_brute/all_lower), written to disk, loaded by the '
                'real loader, PcfgQueue run to exhaustion and from saved cut points; every pop is validated against the Lean '
                'model (member, maximal, probability bit-equal) and the heap is compared as a multiset after every pop. '
                'non-trivial = a node has two parents of exactly equal probability and >=2 positions; distinct = different '
                '(nodes, structures, positions, tie, equal-neighbour) signature',
        'samples': samples, 'disagreements': disagreements, 'violations': violations, 'distribution': dist,
        'exhaustive': False,
        'extra': dict({'protocol_ops': len(ops), 'resume_cuts': cuts}, **fp_info),
    }


def replay(ctx, payload, focus):
    w = payload.get('violation', {}).get('witness') or payload.get('witness')
    if w and 'cli' in w:
        common.install_ruleset(w['spec'], 'replay08')
        o1, _, _ = common.run_cli('pcfg_guesser.py', ['-r', 'replay08', '-s', 'replay08'] + w['cli'], stdin='pipe-open')
        o2, _, _ = common.run_cli('pcfg_guesser.py', ['-s', 'replay08', '--load'], stdin='pipe-open')
        return [] if o1 == o2 else [{'kind': 'resume-cli-differs'}]
    if not w:
        return []
    d = common.write_ruleset(os.path.join(common.scratch_dir('rules'), 'replay'), w['spec'])
    r = corr_pq.run_case(d, w['flags'], ctx.rng, all_cuts=True, max_nodes=100000, spec=w['spec'])
    return [v for v in r['violations'] if v['property'] == focus]
