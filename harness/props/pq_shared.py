"""Shared runner for the priority-queue properties (C01, C02, C08)."""
import os

import common
import corr_pq
import corr_fp
import gen_rulesets

PQ_SITES = ['qi_lt', 'qi_le', 'qi_eq', 'qi_ne', 'qi_gt', 'qi_ge', 'pq_init', 'pq_next', 'pq_insert',
            'pq_restore_base', 'pq_update_save', 'init_base', 'find_children', 'aymc', 'find_prob', 'restore',
            'rec_restore', 'ipa']

PQ_TRUSTED = [
    'binary64: the PAlg laws are PROVED for the model SF.mul / <= on units (Lemmas/SoftFloatLemmas.lean: correctly rounded, '
    'monotone, closed on [0,1]) and instantiated (*_binary64 theorems); trusted is only that CPython\'s float * and <= on finite '
    'non-negative doubles are IEEE-754 round-to-nearest-even, which the fp stream compares bit for bit with SF.mul on every run',
    'CPython heapq pops an element that no other element precedes under QueueItem.__lt__',
    'modelled, not verified: max_queue_size / min_probability trimming (dead code: never changed from 50000 / 0.0)',
]


def exhaustive_specs():
    """all 2-position and 3-position grids over small columns with every tie pattern of 3 dyadic values"""
    import itertools
    vals = ['0.5', '0.25', '0.125']
    cols = []
    for n in (1, 2, 3):
        for c in itertools.combinations(vals, n):
            cols.append(list(c))
    specs = []
    for npos in (2, 3):
        for combo in itertools.product(range(len(cols)), repeat=npos):
            if npos == 3 and any(len(cols[i]) == 3 for i in combo) and sum(len(cols[i]) for i in combo) > 7:
                continue
            terminals = {}
            struct = ''
            for k, ci in enumerate(combo):
                name = f"D{k + 1}"
                terminals[name] = [[str(j) * (k + 1), p] for j, p in enumerate(cols[ci])]
                struct += name
            specs.append({'terminals': terminals, 'grammar': [[struct, '0.5']], 'omen_prob': [], 'mode': 'exhaustive'})
    return specs


def tie_history_case(pcfg, units, U, k, sf, spec, big):
    """one session-level history: quit when pre-terminal k has been popped, resume, run to the end"""
    import configparser
    from collections import Counter
    import sched_session as ss
    from props import C12
    viol = []
    for ext in ('.sav', '.omn'):
        if os.path.exists(sf[:-4] + ext):
            os.remove(sf[:-4] + ext)
    steps_before = sum(1 + len(u[2]) + (1 if u[0] == 'm' else 0) for u in units[:k])
    wit = {'spec': spec, 'quit_at_preterminal': k, 'history': 'session-tie'}
    try:
        a = ss.run_session(pcfg, sf, C12.new_cfg(), False, 'm' * steps_before + 'kk' + big, [('line', 'q', False)])
        cfg = configparser.ConfigParser()
        cfg.read(sf)
        b = ss.run_session(pcfg, sf, cfg, True, big, [])
    except Exception as e:
        viol.append({'property': 'C08', 'kind': 'session-raised', 'error': repr(e)[:200], 'witness': wit})
        return viol, 0
    pass
    pa = [x for x in a['popped'] if x is not None]
    pb = [x for x in b['popped'] if x is not None]
    if a['state'] != 'exited' or pa[:k] != U[:k] or len(pa) != k + 1:
        viol.append({'property': 'C08', 'kind': 'first-session-differs', 'state': a['state'], 'popped': len(pa), 'witness': wit})
        return viol, 0
    saved = U[k][1]
    # what was *guessed* (a popped pre-terminal may be thrown away): the printed lines against the lines of the units from k on
    want_lines = Counter(l for u in units[k:] for l in u[2])
    got_lines = Counter(b['out'])
    lost_lines = list((want_lines - got_lines).items())[:4]
    tied_before = Counter(l for u in units[:k] if u[1] == saved for l in u[2])
    extra_lines = got_lines - want_lines
    if lost_lines:
        viol.append({'property': 'C08', 'kind': 'resume-lost-guesses', 'lost': str(lost_lines), 'saved_probability': repr(saved), 'witness': wit})
    if extra_lines - tied_before:
        viol.append({'property': 'C08', 'kind': 'illegal-repeat', 'repeated_lines': str(list((extra_lines - tied_before).items())[:4]), 'witness': wit})
    want = Counter(U[k:])
    got = Counter(pb)
    lost = list((want - got).items())[:3]
    extra = got - want
    bad_extra = [x for x in extra if x[1] != saved or x not in U[:k]]
    if lost:
        viol.append({'property': 'C08', 'kind': 'resume-lost-preterminals', 'lost': str(lost), 'saved_probability': repr(saved), 'witness': wit})
    if any(p > saved for _, p in pb):
        viol.append({'property': 'C08', 'kind': 'above-saved-position', 'witness': wit})
    if any(y[1] > x[1] for x, y in zip(pb, pb[1:])):
        viol.append({'property': 'C08', 'kind': 'order', 'witness': wit})
    # a base structure listed twice in grammar.txt gives two pre-terminals that look alike: the resumed session may hand each of them
    # out, never more often than the whole run has them
    whole = Counter(U)
    if bad_extra or any(c > whole[x] for x, c in got.items()):
        viol.append({'property': 'C08', 'kind': 'illegal-repeat', 'repeated': str(bad_extra[:3] or [x for x, c in got.items() if c > whole[x]][:3]), 'witness': wit})
    return viol, 2


def cli_resume_flags(ctx, focus, violations, n):
    """the whole resume path of the program: a session started with option flags writes its save file; `--load` (flags taken from the
    save file, whatever is typed beside `--load`) must continue the same run - from the initial save that is the whole stream again"""
    import gen_omen
    rng = ctx.rng
    cli_runs = 0
    for i in range(n):
        om = gen_omen.gen_omen(rng, ngram=2, nletters=2, maxlen_extra=1)
        spec = gen_rulesets.gen_ruleset(rng, omen=om, mode='dyadic', markov=True, max_structs=2, max_pos=2, max_groups=3, max_vals=2)
        if i == 0:
            # a Markov part that is known to produce strings (two letters, every n-gram at level 0, lengths 2 and 3 at level 1)
            spec['omen'] = {'ngram': 2, 'alphabet': ['a', 'b'], 'ip': [[0, 'a'], [0, 'b']], 'ep': [[0, 'a'], [0, 'b']],
                            'cp': [[0, x + y] for x in 'ab' for y in 'ab'], 'ln': [10, 1, 1], 'keyspace': [[1, 12]]}
            spec['omen_prob'] = [['1', '0.5']]
        # both flags must matter for this ruleset: a word variable with two masks of different probability, and a Markov structure
        spec['terminals'].setdefault('A2', [['ab', '0.5'], ['cd', '0.25']])
        spec['terminals']['C2'] = [['LL', '0.5'], ['UL', '0.25']]
        if not any(st == 'A2' for st, _ in spec['grammar']):
            spec['grammar'].append(['A2', '0.0625'])
        name = f"c08cli{i}"
        common.install_ruleset(spec, name)
        outs = {}
        for fl in ([], ['--skip_brute'], ['--all_lower'], ['--skip_brute', '--all_lower']):
            sess = f"c08s{i}{len(fl)}{(fl or ['--n'])[0][2]}"
            o1, e1, rc1 = common.run_cli('pcfg_guesser.py', ['-r', name, '-s', sess] + fl, stdin='pipe-open')
            o2, e2, rc2 = common.run_cli('pcfg_guesser.py', ['-s', sess, '--load'], stdin='pipe-open')
            cli_runs += 2
            if not fl and focus == 'C08':
                # the same ruleset retrained (another UUID): the saved session must be refused - no guess is written
                spec2 = dict(spec, uuid='00000000-0000-0000-0000-0000000000ff')
                common.install_ruleset(spec2, name)
                o3, e3, rc3 = common.run_cli('pcfg_guesser.py', ['-s', sess, '--load'], stdin='pipe-open')
                cli_runs += 1
                if o3 != b'':
                    violations.append({'property': 'C08', 'kind': 'uuid-mismatch-not-refused', 'lines': o3.count(b'\n'),
                                       'witness': {'spec': spec, 'cli': fl, 'uuid_changed': True}})
                common.install_ruleset(spec, name)
                if i == 0:
                    # identifiers that are not RFC 4122 syntax (a site's own naming): two different strings are two different rulesets
                    common.install_ruleset(dict(spec, uuid='rockyou-2019-train-01'), name)
                    common.run_cli('pcfg_guesser.py', ['-r', name, '-s', sess + 'u'], stdin='pipe-open')
                    common.install_ruleset(dict(spec, uuid='ROCKYOU-2019-train-02'), name)
                    o5, e5, rc5 = common.run_cli('pcfg_guesser.py', ['-s', sess + 'u', '--load'], stdin='pipe-open')
                    cli_runs += 2
                    if o5 != b'':
                        violations.append({'property': 'C08', 'kind': 'uuid-mismatch-not-refused', 'lines': o5.count(b'\n'), 'uuids': 'site-specific strings',
                                           'witness': {'spec': spec, 'cli': fl, 'uuid_changed': True}})
                    common.install_ruleset(spec, name)
            if o1 != o2:
                violations.append({'property': focus, 'kind': 'resume-cli-differs', 'flags': fl, 'first_run_lines': o1.count(b'\n'),
                                   'resumed_lines': o2.count(b'\n'), 'witness': {'spec': spec, 'cli': fl}})
            # the flags of a session are those it was started with: the other ones typed beside `--load` change nothing
            typed = [f for f in ('--skip_brute', '--all_lower') if f not in fl]
            outs[tuple(fl)] = o1
            if typed:
                o4, e4, rc4 = common.run_cli('pcfg_guesser.py', ['-s', sess, '--load'] + typed, stdin='pipe-open')
                cli_runs += 1
                if o4 != o1:
                    violations.append({'property': focus, 'kind': 'resume-cli-differs', 'flags': fl, 'typed_on_resume': typed,
                                       'first_run_lines': o1.count(b'\n'), 'resumed_lines': o4.count(b'\n'),
                                       'witness': {'spec': spec, 'cli': fl, 'typed': typed}})
        if i == 0 and len(set(outs.values())) != 4:
            violations.append({'property': focus, 'kind': 'option-flags-without-effect', 'lines': {' '.join(k): v.count(b'\n') for k, v in outs.items()},
                               'witness': {'spec': spec, 'cli': []}})
    return cli_runs


def session_full_runs(ctx, viol, dist):
    """C02 for the program's own loop: the real CrackingSession.run (no quit) must print, as a multiset, the guesses of every
    pre-terminal the queue hands out - also when grammar.txt lists one base structure twice with the same probability (two distinct
    pre-terminals that look alike and come off the heap back to back)"""
    from collections import Counter
    import sched_session as ss
    from props import C12
    rng = ctx.rng
    root = common.scratch_dir('rules')
    sdir = common.scratch_dir('sess')
    runs = 0
    for i in range(ctx.scale(3, 12)):
        if i == 0:
            spec = {'terminals': {'D2': [['12', '0.5'], ['99', '0.25'], ['00', '0.25']], 'D1': [['1', '0.5'], ['2', '0.5']], 'O1': [['!', '0.5'], ['#', '0.5']],
                                  'A3': [['abc', '0.5'], ['xyz', '0.5']], 'C3': [['LLL', '0.5'], ['ULL', '0.5']]},
                    'grammar': [['A3D1', '0.25'], ['D2', '0.25'], ['D2', '0.25'], ['O1D1', '0.25']], 'omen_prob': [], 'prince': [], 'mode': 'dyadic', 'encoding': 'utf-8'}
        else:
            spec = gen_rulesets.gen_ruleset(rng, mode='dyadic', markov=False, max_structs=3, max_pos=2, max_groups=3, max_vals=2, allow_dup_struct=True)
            if rng.random() < 0.7 and spec['grammar']:
                k = rng.randrange(len(spec['grammar']))
                spec['grammar'].insert(k, list(spec['grammar'][k]))        # the same line twice
        d = common.write_ruleset(os.path.join(root, f"c02sess{i % 3}"), spec)
        try:
            pcfg = common.load_grammar(d)
            units = ss.units_of(pcfg)
        except Exception as e:
            viol.append({'property': 'C02', 'kind': 'implementation-raised', 'error': repr(e)[:200], 'witness': {'spec': spec, 'flags': {'skip_brute': False, 'skip_case': False}}})
            continue
        if not (1 <= len(units) <= 120):
            continue
        want = Counter(l for u in units for l in u[2])
        sf = os.path.join(sdir, f"c02sess_{i}.sav")
        for ext in ('.sav', '.omn'):
            if os.path.exists(sf[:-4] + ext):
                os.remove(sf[:-4] + ext)
        wit = {'spec': spec, 'history': 'session-full-run'}
        try:
            r = ss.run_session(pcfg, sf, C12.new_cfg(), False, 'm' * (sum(len(u[2]) + 2 for u in units) + 10), [])
        except Exception as e:
            viol.append({'property': 'C02', 'kind': 'session-raised', 'error': repr(e)[:200], 'witness': wit})
            continue
        runs += 1
        got = Counter(r['out'])
        if got != want:
            viol.append({'property': 'C02', 'kind': 'session-output-multiset', 'missing': str(list((want - got).items())[:4]),
                         'extra': str(list((got - want).items())[:4]), 'emitted': sum(got.values()), 'language': sum(want.values()), 'witness': wit})
    dist['session_full_runs'] = runs
    return runs


def deep_restore_case(n1=950, n2=120, cut=(949, 110), pops=400):
    """C08 for a long session: one structure of two variables with hundreds of probability groups each, saved at a position whose
    already-guessed region reaches a pre-terminal whose indices add up to more than a thousand (the restore walks one call deeper per
    index step in every position).  The resumed queue hands out exactly the most probable pre-terminals at or below the saved position"""
    common.use_impl()
    a = [0.5 * 0.9995 ** i for i in range(n1)]
    b = [0.5 * 0.99 ** j for j in range(n2)]
    spec = {'terminals': {'D4': [['%04d' % i, repr(x)] for i, x in enumerate(a)], 'D3': [['%03d' % j, repr(x)] for j, x in enumerate(b)]},
            'grammar': [['D4D3', '1.0']], 'omen_prob': [], 'prince': [], 'mode': 'float', 'encoding': 'utf-8'}
    d = common.write_ruleset(os.path.join(common.scratch_dir('rules'), 'c08deep'), spec)
    pcfg = common.load_grammar(d)
    grid = gen_rulesets.grid_of(pcfg)
    bp, cols, reps = grid[0]
    m = corr_pq.find_prob_py(grid[0], cut)
    want = sorted((bp * x * y for x in cols[0] for y in cols[1] if bp * x * y <= m), reverse=True)
    wit = {'deep_restore': [n1, n2, list(cut), pops]}
    try:
        pq = corr_pq.fresh_queue(pcfg, corr_pq.saved_config_through_real_path(pcfg, m))
    except Exception as e:
        return [{'property': 'C08', 'kind': 'restore-raised', 'error': repr(e)[:200], 'witness': wit}]
    got = []
    for _ in range(min(pops, len(want))):
        it = pq.next()
        if it is None:
            break
        got.append(it['prob'])
    if got != want[:len(got)] or len(got) < min(pops, len(want)):
        return [{'property': 'C08', 'kind': 'resume-lost-preterminals', 'popped': len(got), 'remaining_in_run': len(want),
                 'first_popped': [common.f2h(x) for x in got[:3]], 'first_expected': [common.f2h(x) for x in want[:3]],
                 'saved_probability': repr(m), 'index_sum_at_cut': sum(cut), 'witness': wit}]
    return []


def session_tie_histories(ctx, viol, dist):
    """C08 at the level of the whole session (CrackingSession.run, the .sav file written and read by the real code): rulesets with
    exact ties between pre-terminals of different base structures; the session is quit exactly when pre-terminal k has been popped
    (for k inside and at the borders of tie groups), resumed, possibly quit and resumed again.  Judged on the sequences of popped
    pre-terminals: nothing from k on is lost, nothing above the saved probability, non-increasing, repeats only at the saved
    probability."""
    import configparser
    from collections import Counter
    import sched_session as ss
    from props import C12
    rng = ctx.rng
    root = common.scratch_dir('rules')
    sdir = common.scratch_dir('sess')
    runs = 0
    for i in range(ctx.scale(5, 20)):
        spec = None
        if i == 0:
            # whatever the seed: four base structures of equal probability whose lists tie with each other at every level
            spec = {'terminals': {'D1': [['1', '0.5'], ['2', '0.25'], ['3', '0.25']], 'O1': [['%', '0.5'], ['#', '0.25']],
                                  'A2': [['ab', '0.5'], ['cd', '0.25']], 'C2': [['LL', '0.5'], ['UL', '0.5']]},
                    'grammar': [['D1', '0.25'], ['O1', '0.25'], ['A2', '0.25'], ['D1O1', '0.25']], 'omen_prob': [], 'prince': [], 'mode': 'dyadic',
                    'encoding': 'utf-8'}
        for _ in range(0 if spec else 30):
            cand = gen_rulesets.gen_ruleset(rng, mode='dyadic', markov=False, max_structs=3, max_pos=2, max_groups=3, max_vals=2, allow_dup_struct=False)
            if len(cand['grammar']) >= 2:
                spec = cand
                break
        if spec is None:
            continue
        d = common.write_ruleset(os.path.join(root, f"c08tie{i % 3}"), spec)
        pcfg = common.load_grammar(d)
        units = ss.units_of(pcfg)
        if not (4 <= len(units) <= 80):
            continue
        pq = corr_pq.fresh_queue(pcfg)
        U = []
        while True:
            it = pq.next()
            if it is None:
                break
            U.append((tuple((t, j) for t, j in it['pt']), it['prob']))
        probs = [p for _, p in U]
        tie_ks = [k for k in range(len(U)) if (k > 0 and probs[k - 1] == probs[k]) or (k + 1 < len(U) and probs[k + 1] == probs[k])]
        if not tie_ks:
            continue
        dist['session_tie_rulesets'] = dist.get('session_tie_rulesets', 0) + 1
        ks = sorted(set(rng.sample(tie_ks, min(len(tie_ks), ctx.scale(40, 200))) + [0, len(U) - 1]))
        big = 'm' * (sum(len(u[2]) + 2 for u in units) + 10)
        for k in ks:
            sf = os.path.join(sdir, f"c08tie_{i}_{k}.sav")
            vs, nr = tie_history_case(pcfg, units, U, k, sf, spec, big)
            viol += vs
            runs += nr
    # "any point at which the user quits": also between two guesses of a Markov level - four-letter OMEN models (lists of three and
    # four characters per context), quit before guess j for a dozen j per level, resumed; both sessions together = the whole stream
    from props import C15 as _c15
    for i in range(ctx.scale(4, 10)):
        # wide: long lists per (context, level); rich: lengths at length levels 0..2 and Markov targets up to 4, so the remainder of an
        # interrupted level lies at further lengths / initial-prefix levels than the ones the level started with
        spec = C12.small_ruleset(rng, markov_pos=rng.choice([0, 1, 2]), wide=(i % 2 == 0), rich=(i % 2 == 1))
        if i == 1:
            # whatever the seed: one Markov level (target 2) holding two lengths, both at length level 2 - the session resumed inside the
            # first length has to step on to the second
            spec = C12.small_ruleset(rng, markov_pos=0)
            spec['omen'] = {'ngram': 2, 'alphabet': ['a', 'b'], 'ip': [[0, 'a'], [0, 'b']], 'ep': [[0, 'a'], [0, 'b']],
                            'cp': [[0, 'aa'], [0, 'ab'], [0, 'ba'], [0, 'bb']], 'ln': [10, 0, 2, 2], 'keyspace': [[l, 1] for l in range(0, 19)]}
            spec['omen_prob'] = [['2', '0.5'], ['0', '0.3']]
        d = common.write_ruleset(os.path.join(root, f"c08omen{i % 2}"), spec)
        pcfg = common.load_grammar(d)
        units = ss.units_of(pcfg)
        if not C12.distinct_probs(units):
            continue
        full = [l for u in units for l in u[2]]
        big = 'm' * (len(full) + 2 * len(units) + 8)
        for ui in [k for k, u in enumerate(units) if u[0] == 'm' and len(u[2]) >= 2 and k != len(units) - 1]:
            n = len(units[ui][2])
            for j in sorted({0, n - 1, n // 2} | {rng.randrange(n) for _ in range(ctx.scale(8, 30))}):
                sf = os.path.join(sdir, f"c08omen_{i}_{ui}_{j}.sav")
                for ext in ('.sav', '.omn'):
                    if os.path.exists(sf[:-4] + ext):
                        os.remove(sf[:-4] + ext)
                wit = {'spec': spec, 'unit': ui, 'guess': j, 'history': 'quit-in-markov-level'}
                try:
                    a = ss.run_session(pcfg, sf, C12.new_cfg(), False, _c15.quit_schedule(units, ui, j), [('line', 'q', False)])
                    cfg = configparser.ConfigParser()
                    cfg.read(sf)
                    b = ss.run_session(pcfg, sf, cfg, True, big, []) if a['state'] == 'exited' else {'out': []}
                except Exception as e:
                    viol.append({'property': 'C08', 'kind': 'session-raised', 'error': repr(e)[:200], 'witness': wit})
                    continue
                runs += 2
                if a['state'] == 'exited' and a['out'] + b['out'] != full:
                    viol.append({'property': 'C08', 'kind': 'resume-lost-guesses' if len(a['out']) + len(b['out']) < len(full) else 'illegal-repeat',
                                 'first': len(a['out']), 'resumed': len(b['out']), 'total': len(full), 'witness': wit})
    dist['session_tie_runs'] = dist.get('session_tie_runs', 0) + runs
    return runs


LIST_FOLDERS = ['Alpha', 'Capitalization', 'Digits', 'Other', 'Keyboard', 'Years', 'Context']


def list_files_of(rd):
    """every `value<TAB>probability` list of a ruleset directory that the guesser loads as a column or as the base structures"""
    out = [os.path.join(rd, 'Grammar', 'grammar.txt'), os.path.join(rd, 'Omen', 'pcfg_omen_prob.txt'),
           os.path.join(rd, 'Emails', 'email_providers.txt'), os.path.join(rd, 'Websites', 'website_hosts.txt')]
    for folder in LIST_FOLDERS:
        fd = os.path.join(rd, folder)
        if os.path.isdir(fd):
            out += [os.path.join(fd, fn) for fn in sorted(os.listdir(fd))]
    return [f for f in out if os.path.exists(f)]


def trained_one(ctx, focus, name, pws, ngram, cov, dist):
    """one training list -> violations of the order property on the trained ruleset (file order, then the queue's own run)"""
    violations = []
    root = common.scratch_dir('c01trained')
    tf = os.path.join(root, name + '.txt')
    with open(tf, 'w', encoding='utf-8', newline='\n') as f:
        f.write(''.join(p + '\n' for p in pws))
    rd = os.path.join(root, name)
    ok, log = common.train(tf, rd, ngram=ngram, coverage=cov)
    if not ok:
        return None
    wit = {'trained': True, 'name': name, 'passwords': pws, 'ngram': ngram, 'coverage': cov}
    levels_in_order = None
    for path in list_files_of(rd):
        rel = os.path.relpath(path, rd)
        rows = []
        with open(path, encoding='utf-8', newline='\n') as f:
            for line in f.read().split('\n'):
                if line:
                    rows.append(line.rsplit('\t', 1))
        ps = [float(r[1]) for r in rows]
        if any(b > a for a, b in zip(ps, ps[1:])):
            violations.append({'property': focus, 'kind': 'trained-list-not-in-probability-order', 'file': rel,
                               'head': str(rows[:6]), 'witness': wit})
        if rel.endswith('pcfg_omen_prob.txt'):
            lv = [int(r[0]) for r in rows]
            levels_in_order = lv == sorted(lv)
    dist.setdefault('trained_omen_levels_in_numeric_order', []).append(levels_in_order)
    pcfg = common.load_grammar(rd)
    # the probabilities attached to the pre-terminals are products of the numbers in the files: the base probabilities the guesser
    # holds are the numbers of grammar.txt themselves (no flag given: nothing is rescaled)
    gtxt = [ln.rsplit('\t', 1) for ln in open(os.path.join(rd, 'Grammar', 'grammar.txt'), encoding='utf-8').read().split('\n') if ln]
    want_b = [common.f2h(float(p_)) for _, p_ in gtxt]
    got_b = [common.f2h(b['prob']) for b in pcfg.base]
    if want_b != got_b:
        k_ = next((j for j, (x, y) in enumerate(zip(want_b, got_b)) if x != y), min(len(want_b), len(got_b)))
        violations.append({'property': focus, 'kind': 'loaded-base-probability-differs-from-file', 'index': k_,
                           'file': gtxt[k_][1] if k_ < len(gtxt) else None, 'loaded': repr(pcfg.base[k_]['prob']) if k_ < len(pcfg.base) else None,
                           'witness': wit})
    pq = corr_pq.fresh_queue(pcfg)
    prev, popped = None, 0
    while popped < ctx.scale(1500, 20000):
        it = pq.next()
        if it is None:
            break
        popped += 1
        if prev is not None and it['prob'] > prev:
            violations.append({'property': focus, 'kind': 'order', 'at': popped, 'prev': common.f2h(prev), 'next': common.f2h(it['prob']),
                               'item': str(it['pt']), 'witness': wit})
            break
        prev = it['prob']
    dist['trained_popped'] = dist.get('trained_popped', 0) + popped
    return violations


def trained_order_cases(ctx, focus, violations, dist):
    """the chain the property is about starts at the trainer: rulesets written by the real trainer (Markov structure included), every
    list file read as text must be in non-increasing probability order (the hypothesis `WF` of C01_order), and the queue run on the
    loaded ruleset must pop in non-increasing order"""
    import gen_passwords
    rng = ctx.rng
    corpora = [('omen-density', gen_passwords.omen_density_corpus(), 4, 0.6)]
    # whatever the seed: lists whose digit list ends in a long tail of items seen once, for totals at which the rounded quotients
    # count / total do not add up to exactly 1.0 (49, 98, 103, 107) - the last lines of a file tie, none may stand above its neighbour;
    # and a list whose base-structure probabilities add up to 0.9999999999999999
    for total, a, b in ((49, 6, 5), (98, 30, 20), (103, 40, 13), (107, 40, 17)):
        tail = ['summer%02d' % (12 + k) for k in range(total - a - b)]
        corpora.append((f"tail-of-ones-{total}", ['summer10'] * a + ['summer11'] * b + tail, 4, 0.6))
    corpora.append(('base-sum-below-one', ['hello'] * 12 + ['hello1'], 4, 0.6))
    for i in range(ctx.scale(2, 8)):
        corpora.append((f"random{i}", gen_passwords.gen_list(rng, n=rng.randint(20, 60), tame=True, dup_rate=0.5), rng.choice([2, 3, 4]),
                        rng.choice([0.6, 0.5, 0.9, 0.25])))
    n = 0
    for name, pws, ngram, cov in corpora:
        vs = trained_one(ctx, focus, name, pws, ngram, cov, dist)
        if vs is None:
            continue
        n += 1
        violations += vs
    return n


def run(ctx, focus):
    rng = ctx.rng
    n_random = ctx.scale(150, 1200 if focus != 'C08' else 350) * (3 if ctx.proof_broken and ctx.quick else 1)
    ncuts = {'C08': ctx.scale(4, 10)}.get(focus, ctx.scale(1, 2))
    all_cuts = False
    root = common.scratch_dir('rules')
    specs = []
    corpus = os.path.join(common.VERIF, 'harness', 'corpus', 'pq')
    if os.path.isdir(corpus):
        import json
        for fn in sorted(os.listdir(corpus)):
            specs.append(('corpus', json.load(open(os.path.join(corpus, fn)))))
    if not ctx.quick:
        specs += [('exhaustive', s) for s in exhaustive_specs()]
    for _ in range(n_random):
        specs.append(('random', gen_rulesets.gen_ruleset(rng)))
    ops, exp, meta = [], [], []
    violations, samples = [], []
    dist = {'nodes': {}, 'positions': {}, 'structures': {}, 'mode': {}, 'flags': {}}
    cases = nontrivial = cuts = 0
    seen = set()
    for i, (src, spec) in enumerate(specs):
        # the first rulesets are written into two directories in turn (a rule name re-trained or edited between two loads in one
        # process: nothing remembered from the previous load of that name may be used), the others into fifty
        d = common.write_ruleset(os.path.join(root, f"r{i % 2}" if i < 24 else f"r{i % 50}"), spec)
        flags = spec.get('flags') or {'skip_brute': rng.random() < 0.3, 'skip_case': rng.random() < 0.3}
        try:
            r = corr_pq.run_case(d, flags, rng, ncuts=ncuts, all_cuts=(focus == 'C08' and not ctx.quick and src == 'exhaustive'),
                                 max_nodes=ctx.scale(400, 1000), spec=spec)
        except Exception as e:  # the implementation raised: that is itself a finding for C01/C02
            violations.append({'property': focus, 'kind': 'implementation-raised', 'error': repr(e)[:300],
                               'witness': {'spec': spec, 'flags': flags}})
            continue
        if r is None:
            continue
        cases += 1
        st = r['stats']
        cuts += st['cuts']
        key = (st['nodes'], st['structures'], st['max_positions'], st['parent_tie'], st['equal_neighbours'])
        if st['parent_tie'] and st['max_positions'] >= 2 and key not in seen:
            nontrivial += 1
        seen.add(key)
        for k, v in (('nodes', min(st['nodes'] // 50 * 50, 500)), ('positions', st['max_positions']),
                     ('structures', st['structures']), ('mode', spec.get('mode', '?')),
                     ('flags', f"brute={int(flags['skip_brute'])},case={int(flags['skip_case'])}")):
            dist[k][str(v)] = dist[k].get(str(v), 0) + 1
        start = len(ops)
        ops += r['ops']
        exp += r['expected']
        meta.append((start, len(ops), spec, flags))
        for v in r['violations']:
            v['witness'] = {'spec': spec, 'flags': flags, 'cut': v.get('cut')}
            if focus == 'C02' and v.get('values_differ'):
                # C02 speaks of the language of the *ruleset*: a variable loaded with other values than its file holds (a value twice,
                # a value missing) changes the multiset of guesses whatever the queue does afterwards
                v = dict(v, property='C02', kind='loaded-values-differ-from-file')
            violations.append(v)
        if len(samples) < 4 and st['parent_tie']:
            samples.append({'grammar': spec['grammar'], 'flags': flags, 'stats': st})
    disagreements = []
    if ctx.driver_ok:
        out = common.run_driver(ops)
        if len(out) != len(exp):
            disagreements.append({'stream': 'pq', 'detail': f"driver answered {len(out)} lines for {len(exp)} ops"})
        for i, (a, b) in enumerate(zip(out, exp)):
            if a != b:
                m = next((m for m in meta if m[0] <= i < m[1]), None)
                disagreements.append({'stream': 'pq-trace', 'op': ops[i], 'model': a[:300], 'implementation': b[:300],
                                      'witness': {'spec': m[2], 'flags': m[3]} if m else None})
                if len(disagreements) >= 5:
                    break
        fp_dis, fp_info = corr_fp.run(ctx)
        disagreements += fp_dis
    else:
        disagreements.append({'stream': 'pq', 'detail': 'driver does not build'})
        fp_info = {}
    cli_runs = 0
    if focus == 'C01':
        cases += trained_order_cases(ctx, focus, violations, dist)
        # the order of the whole run when it is spread over sessions, one of them with a guess limit it never reaches
        from props import C15 as _c15l
        # ... and of the other consumer of the queue, the PRINCE-LING word list, for every size
        from props import C17 as _c17s
        violations += _c17s.every_size_case('C01')
        cases += 1
        # ... and of a run picked up from its save file, whatever flags are typed beside --load
        cases += cli_resume_flags(ctx, focus, violations, 1)
        v_lim, r_lim = _c15l.limited_resume_history('C01')
        violations += v_lim
        cases += r_lim
    if focus == 'C02':
        cases += session_full_runs(ctx, violations, dist)
        # ... and the language is that of the session's own flags when the run is picked up from its save file
        n_cli = cli_resume_flags(ctx, focus, violations, 1)
        # ... and the language includes the strings of every listed Markov level, those far above level 10 too
        from props import C14 as _c14h
        violations += _c14h.high_level_case('C02')
        n_cli += 2
        cli_runs += n_cli
        cases += n_cli
    if focus == 'C08':
        # the whole resume path of the program: a session started with option flags writes its save file; `--load` (flags taken
        # from the save file) must continue the same run - from the initial save that is the whole stream again
        cli_runs += cli_resume_flags(ctx, focus, violations, ctx.scale(1, 4))
        cases += cli_runs
        cases += session_tie_histories(ctx, violations, dist)
        violations += deep_restore_case()
        cases += 1
        # the program itself: quit by a typed q while guesses flow, another session whose name differs only after the last dot, resume
        from props import C15 as _c15
        # "any point at which the user quits", on a Markov part whose memo table is asked about negative remainders: quit inside the
        # levels at many places, resume in a fresh process
        v_cc, r_cc = _c15.cold_cache_history('C08')
        violations += v_cc
        cases += r_cc
        vs_cli, info_cli = _c15.cli_interleaved_sessions('C08', 'c08audit', _c15.big_plain_spec())
        violations += vs_cli
        cases += 1
        dist['cli_interleaved'] = info_cli
        # "any point at which the user quits" includes the middle of a Markov level
        vs_cli, info_cli = _c15.cli_interleaved_sessions('C08', 'c08auditm', _c15.big_markov_spec())
        violations += vs_cli
        cases += 1
        dist['cli_interleaved_markov'] = info_cli
    return {
        'evaluations': cases, 'distinct_nontrivial': nontrivial, 'traces': cases + cuts,
        'rule': 'rulesets from gen_rulesets (dyadic / float / tiny-magnitude probabilities, repeated variable types, '
                'single-entry variables, duplicate structures, random skip_brute/all_lower), written to disk, loaded by the '
                'real loader, PcfgQueue run to exhaustion and from saved cut points; every pop is validated against the Lean '
                'model (member, maximal, probability bit-equal) and the heap is compared as a multiset after every pop. '
                'non-trivial = a node has two parents of exactly equal probability and >=2 positions; distinct = different '
                '(nodes, structures, positions, tie, equal-neighbour) signature',
        'samples': samples, 'disagreements': disagreements, 'violations': violations, 'distribution': dist,
        'exhaustive': False,
        'extra': dict({'protocol_ops': len(ops), 'resume_cuts': cuts}, **fp_info),
    }


def replay(ctx, payload, focus):
    if ((payload.get('violation') or {}).get('witness') or {}).get('limited_resume_history'):
        from props import C15 as _c15l
        common.use_impl()
        return _c15l.limited_resume_history(focus)[0]
    w = payload.get('violation', {}).get('witness') or payload.get('witness')
    if w and w.get('cold_cache_history'):
        from props import C15 as _c15c
        common.use_impl()
        return _c15c.cold_cache_history(focus)[0]
    if w and w.get('high_level_case'):
        from props import C14 as _c14h
        return _c14h.high_level_case(focus)
    if w and w.get('every_size_case'):
        from props import C17 as _c17s
        return _c17s.every_size_case(focus)
    if w and w.get('deep_restore'):
        n1_, n2_, cut_, pops_ = w['deep_restore']
        return deep_restore_case(n1_, n2_, tuple(cut_), pops_)
    if w and w.get('trained'):
        return trained_one(ctx, focus, 'replay', w['passwords'], w['ngram'], w['coverage'], {}) or []
    if w and 'cli_history' in w:
        from props import C15 as _c15
        common.use_impl()
        mk = w.get('spec_kind') == 'c08auditm'
        return _c15.cli_interleaved_sessions('C08', 'c08auditm' if mk else 'c08audit', _c15.big_markov_spec() if mk else _c15.big_plain_spec())[0]
    if w and w.get('history') == 'session-full-run':
        from collections import Counter
        import sched_session as ss
        from props import C12
        common.use_impl()
        d = common.write_ruleset(os.path.join(common.scratch_dir('rules'), 'replay02sess'), w['spec'])
        pcfg = common.load_grammar(d)
        units = ss.units_of(pcfg)
        sf = os.path.join(common.scratch_dir('sess'), 'replay02sess.sav')
        r = ss.run_session(pcfg, sf, C12.new_cfg(), False, 'm' * (sum(len(u[2]) + 2 for u in units) + 10), [])
        return [] if Counter(r['out']) == Counter(l for u in units for l in u[2]) else [{'kind': 'session-output-multiset'}]
    if w and w.get('history') == 'quit-in-markov-level':
        import configparser
        import sched_session as ss
        from props import C12, C15 as _c15
        common.use_impl()
        d = common.write_ruleset(os.path.join(common.scratch_dir('rules'), 'replay08omen'), w['spec'])
        pcfg = common.load_grammar(d)
        units = ss.units_of(pcfg)
        full = [l for u in units for l in u[2]]
        sf = os.path.join(common.scratch_dir('sess'), 'replay08omen.sav')
        for ext in ('.sav', '.omn'):
            if os.path.exists(sf[:-4] + ext):
                os.remove(sf[:-4] + ext)
        a = ss.run_session(pcfg, sf, C12.new_cfg(), False, _c15.quit_schedule(units, w['unit'], w['guess']), [('line', 'q', False)])
        cfg = configparser.ConfigParser()
        cfg.read(sf)
        b = ss.run_session(pcfg, sf, cfg, True, 'm' * (len(full) + 2 * len(units) + 8), []) if a['state'] == 'exited' else {'out': []}
        return [] if a['state'] != 'exited' or a['out'] + b['out'] == full else [{'kind': 'resume-lost-guesses', 'first': len(a['out']), 'resumed': len(b['out'])}]
    if w and w.get('history') == 'session-tie':
        import sched_session as ss
        common.use_impl()
        d = common.write_ruleset(os.path.join(common.scratch_dir('rules'), 'replay08tie'), w['spec'])
        pcfg = common.load_grammar(d)
        units = ss.units_of(pcfg)
        pq = corr_pq.fresh_queue(pcfg)
        U = []
        while True:
            it = pq.next()
            if it is None:
                break
            U.append((tuple((t, j) for t, j in it['pt']), it['prob']))
        big = 'm' * (sum(len(u[2]) + 2 for u in units) + 10)
        return tie_history_case(pcfg, units, U, w['quit_at_preterminal'], os.path.join(common.scratch_dir('sess'), 'replay08tie.sav'), w['spec'], big)[0]
    if w and 'cli' in w:
        common.install_ruleset(w['spec'], 'replay08')
        o1, _, _ = common.run_cli('pcfg_guesser.py', ['-r', 'replay08', '-s', 'replay08'] + w['cli'], stdin='pipe-open')
        o2, _, _ = common.run_cli('pcfg_guesser.py', ['-s', 'replay08', '--load'] + w.get('typed', []), stdin='pipe-open')
        return [] if o1 == o2 else [{'kind': 'resume-cli-differs'}]
    if not w:
        return []
    d = common.write_ruleset(os.path.join(common.scratch_dir('rules'), 'replay'), w['spec'])
    r = corr_pq.run_case(d, w['flags'], ctx.rng, all_cuts=True, max_nodes=100000, spec=w['spec'])
    return [v for v in r['violations'] if v['property'] == focus]
