"""C10 - the OMEN generator enumerates each level exactly."""
import contextlib
import io
import os

import common
import corr_omen
import gen_omen

SITES = ['gs_next_guess', 'gs_fill', 'gs_find_cp', 'gs_format', 'mc_init', 'mc_first', 'mc_next', 'mc_inc_len', 'mc_inc_ip',
         'opt_lookup', 'opt_update', 'opt_copy']
TRUSTED = ['the memo table: fillC models the three read/write sites of _fill_out_parse_tree (their position and key are regenerated from the source: C10_cache_sites); that fillC is the real function is shown by comparing results and final table contents on random call sequences',
           'Python dict / list semantics of the loaded OMEN tables (insertion order, `in`, indexing)',
           'modelled, not verified: pickle save/load of the enumerator state (see C15)']
ASSUMPTIONS = ['OMEN rule files list every initial n-gram, every (prefix, letter) transition and every length once (true of trainer output)',
               'some initial n-gram and some length have a level below 10 (otherwise _find_first_object raises; modelled as `raise`)']


def exhaustive_models():
    """all models over 2 letters, ngram 2, levels {0,1,2}, up to 3 lengths, all transitions present"""
    import itertools
    out = []
    letters = ['a', 'b']
    for iplv in itertools.product([0, 1], repeat=2):
        for cplv in itertools.product([0, 1, 2], repeat=4):
            for ln in ([0, 0], [0, 1, 0], [10, 0, 2]):
                cp = [[l, x + y] for l, (x, y) in zip(cplv, itertools.product(letters, repeat=2))]
                out.append({'ngram': 2, 'alphabet': letters, 'ip': [[iplv[0], 'a'], [iplv[1], 'b']],
                            'ep': [[0, 'a'], [0, 'b']], 'cp': cp, 'ln': ln, 'keyspace': []})
    return out


def run(ctx):
    rng = ctx.rng
    models = []
    n = ctx.scale(60, 900) * (2 if ctx.proof_broken else 1)
    if not ctx.quick:
        models += [('exhaustive', m) for m in exhaustive_models()]
    for j in range(n):
        if j % 6 == 5:
            # runs of transitions at the top levels 9 / 10: strings whose level is 10 per step, targets far above 13
            models.append(('high-levels', gen_omen.gen_omen(rng, ngram=rng.choice([2, 3]), nletters=rng.choice([2, 3]), maxlen_extra=rng.choice([1, 2, 3]),
                                                            levels=rng.choice([[9, 10], [10], [0, 10], [8, 9, 10], [0, 9, 10]]))))
        else:
            models.append(('random', gen_omen.gen_omen(rng, allow_unstartable=True)))
    # every seventh model lives in a one-byte encoding and uses characters of its C1 range (U+0080..U+009F) and above: the bytes of the
    # level files mean what the encoding named in Omen/config.txt says, not what a "modern superset" of it would say
    enc_of = {}
    for j in range(3, len(models), 7):
        src, om = models[j]
        new_letters = ['\x9a', '\xe9', '\x85', 'a'][:len(om['alphabet'])] if len(om['alphabet']) <= 4 else None
        if new_letters is None or '\x85' in new_letters and False:
            continue
        new_letters = [c for c in new_letters if c != '\x85'] + ['b', 'c'][:new_letters.count('\x85')]
        mp = dict(zip(om['alphabet'], new_letters))
        tr = lambda s_: ''.join(mp[c] for c in s_)
        om2 = dict(om, alphabet=[mp[c] for c in om['alphabet']], ip=[[l, tr(x)] for l, x in om['ip']], ep=[[l, tr(x)] for l, x in om['ep']],
                   cp=[[l, tr(x)] for l, x in om['cp']])
        models[j] = (src, om2)
        enc_of[j] = ['ISO-8859-1', 'iso-8859-9', 'latin-1'][(j // 7) % 3]
    # a model that the trainer wrote - twice, into the same rule directory, the second time with another n-gram size: the generator must
    # enumerate the levels of the model that the files now describe (n-gram size read off the n-grams themselves, not off any setting)
    try:
        rt = retrained_model(rng)
        if rt is not None:
            models.append(('retrained', rt))
    except Exception as e:
        retr_err = repr(e)[:200]
    else:
        retr_err = None
    ops, exp, meta, viol, samples = [], [], [], [], []
    try:
        tv, tn, tl = trained_reference_case()
        viol += tv
    except Exception as e:
        viol.append({'property': 'C10', 'kind': 'implementation-raised', 'error': repr(e)[:300], 'witness': {'trained_reference': True}})
        tn = tl = 0
    if retr_err:
        viol.append({'property': 'C10', 'kind': 'implementation-raised', 'error': retr_err, 'witness': {'retrained': True}})
    dist = {'ngram': {}, 'letters': {}, 'warm_cache': {}, 'raise': 0, 'one_byte_encodings': len(enc_of), 'trained_reference_strings': tn, 'trained_reference_levels': tl}
    cases = nontrivial = guesses = 0
    seen = set()
    root = common.scratch_dir('rules')
    for i, (src, om) in enumerate(models):
        via = i % 4 == 1
        spec = {'terminals': {}, 'grammar': [], 'omen': om}
        if via:
            spec = {'terminals': {'D1': [['1', '1.0']]}, 'grammar': [['M', '0.5'], ['D1', '0.5']], 'omen_prob': [['1', '0.5']], 'omen': om}
        if i in enc_of:
            spec['encoding'] = enc_of[i]
        if src == 'retrained':
            d, via, retr_pws = om['_dir'], False, om['_pws']
            om = {k: v for k, v in om.items() if k not in ('_dir', '_pws')}
            dist['retrained_in_place'] = 1
        else:
            d = common.write_ruleset(os.path.join(root, f"o{i % 20}"), spec)
        warm = rng.random() < 0.5 or via
        dist['via_grammar_object'] = dist.get('via_grammar_object', 0) + int(via)
        space = sum(len(om['alphabet']) ** ln for ln in range(om['ngram'], len(om['ln']) + 1))
        targets = range(0, 14) if space <= ctx.scale(1500, 20000) else range(0, ctx.scale(7, 9))
        if src == 'high-levels' and space <= 1500:
            import itertools
            lv = set()
            for ln_ in range(om['ngram'], len(om['ln']) + 1):
                for t_ in itertools.product(om['alphabet'], repeat=ln_):
                    lv.update(gen_omen.level_of(om, ''.join(t_)))
            lv = sorted(lv)
            if len(lv) > 24:
                lv = sorted(rng.sample(lv, 24))
            targets = sorted(set(lv) | {0, 13, (max(lv) + 1) if lv else 1})
        dist['high_level_models'] = dist.get('high_level_models', 0) + int(src == 'high-levels')
        try:
            r = corr_omen.run_case(d, om, rng, targets, warm, via_grammar=via)
        except Exception as e:
            viol.append({'property': 'C10', 'kind': 'implementation-raised', 'error': repr(e)[:300], 'witness': {'omen': om}})
            continue
        cases += 1
        st = r['stats']
        guesses += st['guesses']
        key = (om['ngram'], len(om['alphabet']), st['guesses'], st['nonempty_levels'])
        if st['nonempty_levels'] >= 2 and st['guesses'] >= 5 and key not in seen:
            nontrivial += 1
        seen.add(key)
        dist['ngram'][str(om['ngram'])] = dist['ngram'].get(str(om['ngram']), 0) + 1
        dist['letters'][str(len(om['alphabet']))] = dist['letters'].get(str(len(om['alphabet'])), 0) + 1
        dist['warm_cache'][str(warm)] = dist['warm_cache'].get(str(warm), 0) + 1
        dist['raise'] += 1 if st['raise'] else 0
        start = len(ops)
        ops += r['ops']
        exp += r['expected']
        meta.append((start, len(ops), om))
        for v in r['violations']:
            v['witness'] = {'omen': om}
            if src == 'retrained':
                v['witness']['retrained_passwords'] = retr_pws
            viol.append(v)
        if len(samples) < 3 and st['guesses'] > 10:
            samples.append({'omen': om, 'stats': st})
    # the memo table across processes: a session quit inside a level and resumed by a fresh process (cold table) on a ruleset whose
    # levels are not listed in numeric order - every level comes out in full, whatever the table held
    from props import C15 as _c15
    v_un, r_un = _c15.unaligned_levels_history('C10')
    viol += v_un
    cases += r_un
    disagreements = []
    if ctx.driver_ok:
        out = common.run_driver(ops)
        for i, (a, b) in enumerate(zip(out, exp)):
            if a != b:
                m = next((m for m in meta if m[0] <= i < m[1]), None)
                disagreements.append({'stream': 'omen-enum', 'op': ops[i], 'model': a[:300], 'implementation': b[:300],
                                      'witness': {'omen': m[2]} if m else None})
                if len(disagreements) >= 5:
                    break
        if len(out) != len(exp):
            disagreements.append({'stream': 'omen', 'detail': 'line count differs'})
    else:
        disagreements.append({'stream': 'omen', 'detail': 'driver does not build'})
    return {'evaluations': cases, 'distinct_nontrivial': nontrivial, 'traces': cases,
            'rule': 'random OMEN models (ngram 2-5, 2-4 letters incl. non-ASCII, sparse/dense level tables, dead-end prefixes, '
                    'lengths at level 10) written as rule files, loaded by the real load_rules; MarkovCracker run to exhaustion for '
                    'levels 0..13 (0..6 for large string spaces) with a fresh or a shared warmed Optimizer in shuffled level order; the full guess sequence is '
                    'compared with the Lean enumerator and, independently, with a brute-force level computation over all strings. '
                    'non-trivial = at least two non-empty levels and >=5 guesses; distinct by (ngram, letters, #guesses, #levels)',
            'samples': samples, 'disagreements': disagreements, 'violations': viol, 'distribution': dist,
            'extra': {'guesses_compared': guesses, 'protocol_ops': len(ops)}}


def trained_reference_case():
    """the model is the trainer's own (real AlphabetLookup after smoothing, saved by the real writer, loaded by the real loader): for
    every string over the alphabet the level the trainer assigns is the level at which the generator emits it - judged against the
    trainer's tables in memory, not against a re-reading of the files the writer produced"""
    import itertools
    import corr_omentrain as ct
    common.use_impl()
    from lib_trainer.omen.evaluate_password import find_omen_level, calc_omen_keyspace
    from lib_guesser.omen.optimizer import Optimizer
    from collections import Counter
    pws = ['abcab', 'abcba', 'abab', 'abca', 'abc', 'abcabc', 'abbc', 'abcab', 'abab', 'acab', 'abcc', 'abcabc']      # all start with `a`
    ngram, maxlen = 3, 6
    al, alphabet = ct.build(pws, ngram, 100, maxlen)
    with contextlib.redirect_stdout(io.StringIO()):
        ks = calc_omen_keyspace(al)
    rd = os.path.join(common.scratch_dir('rules'), 'c10trainedref')
    os.makedirs(rd, exist_ok=True)
    ct.save_rules(al, alphabet, ks, Counter(find_omen_level(al, p) for p in pws), len(pws), rd, ngram)
    g = corr_omen.load_real(os.path.join(rd, 'Omen'))
    want = {}
    for ln in range(ngram, maxlen + 1):
        for t in itertools.product(alphabet, repeat=ln):
            sx = ''.join(t)
            lv = find_omen_level(al, sx)
            if lv >= 0:
                want.setdefault(lv, set()).add(sx)
    out = []
    shared = Optimizer(4)
    wit = {'trained_reference': True, 'passwords': pws, 'ngram': ngram, 'max_length': maxlen}
    for L in range(0, 19):
        gs = corr_omen.real_enum(g, L, shared, limit=5000) or []
        if sorted(gs) != sorted(want.get(L, set())):
            out.append({'property': 'C10', 'kind': 'level-differs-from-trainer-model', 'level': L, 'emitted': len(gs), 'trainer_says': len(want.get(L, set())),
                        'missing': sorted(want.get(L, set()) - set(gs))[:4], 'extra_or_repeated': sorted(set(gs) - want.get(L, set()))[:4], 'witness': wit})
            break
    return out, sum(len(v) for v in want.values()), len(want)


def retrained_model(rng, pws=None):
    """train a list with n-gram size 3, then again into the same directory with n-gram size 4; the model = what the files say now"""
    pws = pws or [''.join(rng.choice('abb') for _ in range(rng.randint(3, 6))) for _ in range(40)]
    tf = os.path.join(common.scratch_dir('c10t'), 'list.txt')
    with open(tf, 'w', encoding='utf-8') as f:
        f.write(''.join(p + '\n' for p in pws))
    rd = os.path.join(common.scratch_dir('rules'), 'c10retrained')
    ok1, _ = common.train(tf, rd, ngram=3, coverage=0.6, max_len=6)
    ok2, _ = common.train(tf, rd, ngram=4, coverage=0.6, max_len=6, keep=True)
    if not (ok1 and ok2):
        return None
    od = os.path.join(rd, 'Omen')

    def recs(name):
        return [ln.rstrip('\n').split('\t') for ln in open(os.path.join(od, name), encoding='utf-8') if ln.rstrip('\n')]
    ip = [[int(a), b] for a, b in recs('IP.level')]
    return {'_dir': rd, '_pws': pws, 'ngram': len(ip[0][1]) + 1, 'alphabet': [x[0] for x in recs('alphabet.txt')], 'ip': ip,
            'ep': [[int(a), b] for a, b in recs('EP.level')], 'cp': [[int(a), b] for a, b in recs('CP.level')],
            'ln': [int(x[0]) for x in recs('LN.level')], 'keyspace': []}


def replay(ctx, payload):
    w = payload.get('violation', {}).get('witness')
    if not w:
        return []
    if w.get('unaligned_levels_history'):
        from props import C15 as _c15
        common.use_impl()
        return _c15.unaligned_levels_history('C10')[0]
    if w.get('trained_reference'):
        return trained_reference_case()[0]
    if w.get('retrained_passwords'):
        common.use_impl()
        rt = retrained_model(ctx.rng, pws=w['retrained_passwords'])
        if rt is None:
            return []
        om = {k: v for k, v in rt.items() if k not in ('_dir', '_pws')}
        return corr_omen.run_case(rt['_dir'], om, ctx.rng, range(0, 9), False)['violations']
    om = w['omen']
    d = common.write_ruleset(os.path.join(common.scratch_dir('rules'), 'replay'), {'terminals': {}, 'grammar': [], 'omen': om})
    r = corr_omen.run_case(d, om, ctx.rng, range(0, 9), False)
    return r['violations']
