"""C11 - trainer, scorer and guesser agree on every string's OMEN level."""
import contextlib
import io
import os
from collections import Counter

import common
import corr_omen
import corr_omentrain as ct
from corr_omen import enc

SITES = ['find_omen_level', 'al_parse', 'al_init', 'smooth_grammar', 'smooth_length', 'calc_level', 'omen_save', 'scorer_parse',
         'scorer_load', 'omen_load_ngrams', 'omen_load_length', 'mc_next']
TRUSTED = ['modelled, not verified: the smoothing function (math.log / floor): levels enter the model as the integers the trainer computed',
           'dict insertion order of the trainer tables = order of the lines written']
ASSUMPTIONS = ['candidate strings are within the lengths the level tables cover or outside (both handled); guesser levels are compared '
               'for the levels small enough to enumerate (others through C10)']


def whole_trainer(focus, i, pws, ngram, asize, maxlen, root, ops, exp, dist, viol, per_level, glevel, ks_def):
    """the real run_trainer on a file of the list; what it saves about levels and probabilities against the model and the guesser"""
    # the whole trainer (`run_trainer` of the snapshot, all three passes over a file of the list): what it saves as
    # omen_pws_per_level.txt / pcfg_omen_prob.txt is compared, order and every bit of the doubles, with the model of the
    # third pass and of the probability loop (the `levelsCount` / `omenProbFile` of the C18 theorems) over the tables above
    if all(p_ and p_.strip('\r\n') == p_ and '\t' not in p_ for p_ in pws):
        tf = os.path.join(common.scratch_dir('c18'), 'list.txt')
        with open(tf, 'w', encoding='utf-8', newline='') as f:
            f.write(''.join(p_ + '\n' for p_ in pws))
            if i % 2 == 0:
                # lines a correct reader skips (the $HEX[] payload decodes to text with a carriage return, a TAB, a line feed -
                # pot-file artefacts of Windows-formatted lists): they change nothing
                for tail_ in ('0d', '09', '0a', '0d0a'):
                    f.write('$HEX[' + pws[0].encode('utf-8').hex() + tail_ + ']\n')
                f.write('$HEX[0d' + pws[-1].encode('utf-8').hex() + ']\n')
        rt = os.path.join(root, 'c18_full')
        ok_, log_ = common.train(tf, rt, encoding='utf-8', ngram=ngram, coverage=0.6, alphabet_size=asize, max_len=maxlen)
        dist['whole_trainings'] = dist.get('whole_trainings', 0) + 1
        if not ok_:
            viol.append({'property': focus, 'kind': 'training-failed', 'log_tail': log_[-300:],
                         'witness': {'passwords': pws, 'ngram': ngram, 'alphabet_size': asize, 'max_length': maxlen}})
        else:
            def rd_pairs(name):
                out_ = []
                for ln in open(os.path.join(rt, 'Omen', name), encoding='utf-8'):
                    a, b = ln.rstrip('\n').split('\t')
                    out_.append((a, b))
                return out_
            if focus == 'C11':
                # the scorer as a program sees it: `PCFGPasswordScorer.parse` reports the OMEN level of every string it is given - also of
                # strings it classifies as an e-mail address or a web site - and that level is the trainer's
                try:
                    from props import C13 as _c13
                    import corr_omentrain as _ct
                    from lib_trainer.omen.evaluate_password import find_omen_level as _fol
                    with contextlib.redirect_stdout(io.StringIO()), contextlib.redirect_stderr(io.StringIO()):
                        sc_full = _c13.load_scorer(rt)
                        al_full, _ = _ct.build(pws, ngram, asize, maxlen)
                    for s_ in list(dict.fromkeys(pws))[:40] + ['bob@aol.com', 'www.love.com', 'love.com', pws[0] + '@mail.ru', 'www.' + pws[-1] + '.com']:
                        got_ = sc_full.parse(s_)[3]
                        want_ = _fol(al_full, s_)
                        if got_ != want_:
                            viol.append({'property': 'C11', 'kind': 'scorer-program-level-differs', 'string': s_, 'scorer': got_, 'trainer': want_,
                                         'witness': {'passwords': pws, 'ngram': ngram, 'alphabet_size': asize, 'max_length': maxlen, 'string': s_}})
                            break
                    dist['scorer_program_strings'] = dist.get('scorer_program_strings', 0) + 1
                except ImportError:
                    pass
            ops.append('ot.third ' + ' '.join(enc(p_) for p_ in pws))
            exp.append(' '.join(['c'] + [f"{a}:{b}" for a, b in rd_pairs('omen_pws_per_level.txt')]))
            # the saved per-level counts describe what the guesser produces: for every level enumerated with the real generator, the
            # count is the number of training passwords it emits there
            for a, b in rd_pairs('omen_pws_per_level.txt'):
                L = int(a)
                if L >= 0 and L in per_level:
                    emitted_here = sum(1 for p_ in pws if glevel.get(p_) == [L])
                    if int(b) != emitted_here:
                        viol.append({'property': focus, 'kind': 'saved-level-count-differs-from-guesser', 'level': L, 'saved': int(b), 'guesser': emitted_here,
                                     'witness': {'passwords': pws, 'ngram': ngram, 'alphabet_size': asize, 'max_length': maxlen}})
            ops.append(f"ot.probs {10 ** 10} 18")
            saved_p = rd_pairs('pcfg_omen_prob.txt')
            exp.append(' '.join(['p'] + [f"{a}:{common.f2h(float(b))}" for a, b in saved_p]))
            # and judged directly: the saved probability of a listed level = (training passwords the guesser emits there / N) / emitted
            for a, b in saved_p:
                L = int(a)
                if L in per_level and per_level[L] > 0:
                    want = (sum(1 for p_ in pws if glevel.get(p_) == [L]) / len(pws)) / per_level[L]
                    if float(b) != want:
                        viol.append({'property': focus, 'kind': 'saved-probability', 'level': L, 'saved': float(b), 'want': want, 'via': 'run_trainer',
                                     'witness': {'passwords': pws, 'ngram': ngram, 'alphabet_size': asize, 'max_length': maxlen}})
            mass = sum(float(b) * dict(ks_def).get(int(a), 0) for a, b in saved_p) if ks_def is not None else 0.0
            if mass > 1.0 + 1e-9:
                viol.append({'property': focus, 'kind': 'markov-mass-above-one', 'mass': mass,
                             'witness': {'passwords': pws, 'ngram': ngram, 'alphabet_size': asize, 'max_length': maxlen}})


def run(ctx, focus='C11'):
    rng = ctx.rng
    viol, samples, disagreements = [], [], []
    ops, exp = [], []
    dist = {'ngram': {}, 'mode': {}, 'out_of_alphabet': 0, 'below_ngram': 0, 'above_max': 0, 'guesser_levels_enumerated': 0}
    cases = nontrivial = 0
    common.use_impl()
    from lib_trainer.omen.evaluate_password import find_omen_level, calc_omen_keyspace
    from lib_scorer.omen_scorer import OmenScorer
    from lib_guesser.omen.optimizer import Optimizer
    root = common.scratch_dir('rules')
    saved_in = {}
    for i in range(ctx.scale(50, 300)):
        n_before = len(viol)
        # the third list always contains double quotes (characters a delimited-text writer would quote or escape)
        pws, ngram, mode, maxlen = ct.gen_training(rng, letters='a"b' if i == 2 else None)
        asize = rng.choice([100, 100, 2, 3])
        if i == 0:
            # whatever the seed: a word-like list whose transition table has dead ends below the highest level (the search
            # falls back to a cheaper first transition), enumerated with one shared memo table
            pws = ['anna', 'annan', 'nana', 'banana', 'bandana', 'anna', 'nan', 'ana', 'banana', 'bananas', 'ban', 'band', 'bands',
                   'sand', 'sands', 'and',
                   # strings the scorer classifies as an e-mail address / a web site have a level like any other string
                   'ana@nan.com', 'www.banana.com', 'nan.com', 'anna@band.com']
            ngram, mode, maxlen, asize = 3, 'wordlike', 21, 100
        if i == 3:
            # a transition smoothed to the highest level (10): seen once against tens of thousands of `a -> a`
            pws = ['a' * 21] * 2750 + ['aab']
            ngram, mode, maxlen, asize = 2, 'level-10-transition', 21, 100
        if i == 4:
            # strings whose level is above 10 as a *sum* of transition costs none of which is 10 (a -> b at 6, b -> c at 5)
            pws = ['aaa'] * 450 + ['bbb'] * 200 + ['abc']
            ngram, mode, maxlen, asize = 2, 'sum-above-ten', 4, 100
        if i == 5:
            # every password starts with a character outside the two-letter alphabet: no initial n-gram is ever counted (the trainer
            # itself stops on such a list; if it ever writes a ruleset for it, the three level functions must agree on that one too)
            pws = ['xab', 'yab', 'zab', 'xba', 'yba', 'zbab', 'xabab', 'ybb']
            ngram, mode, maxlen, asize = 2, 'no-initial-ngram', 6, 2
        if i == 1 and ngram == 3:
            ngram = 4 if all(len(p_) >= 1 for p_ in pws) and any(len(p_) >= 4 for p_ in pws) else 2
        try:
            al, alphabet = ct.build(pws, ngram, asize, maxlen)
        except ZeroDivisionError:
            continue        # no password long enough for an n-gram: the trainer itself stops here, no ruleset is written
        if not al.grammar:
            continue
        with contextlib.redirect_stdout(io.StringIO()):
            ks = calc_omen_keyspace(al) if focus == 'C11' else calc_omen_keyspace(al, max_keyspace=rng.choice([10 ** 10, 10 ** 10, 30, 200]))
        lc = Counter(find_omen_level(al, p) for p in pws)
        # every third ruleset (and always the second one) is saved over the directory of an earlier one - re-training under the same
        # rule name, usually with another n-gram size: nothing of the earlier OMEN files, Omen/config.txt included, may survive
        over = (i == 1) or (i % 3 == 2 and i >= 10)
        rd = os.path.join(root, f"c11_{0 if i == 1 else i % 10}")
        if os.path.exists(rd) and not over:
            import shutil
            shutil.rmtree(rd)
        os.makedirs(rd, exist_ok=True)
        dist['saved_over_existing'] = dist.get('saved_over_existing', 0) + int(over and os.path.exists(os.path.join(rd, 'Omen')))
        rule_enc = 'cp1251' if (any('а' <= ch <= 'я' for p_ in pws for ch in p_) and i % 2 == 0) else 'utf-8'
        prev_here = saved_in.get(rd) if over else None
        saved_in[rd] = {'passwords': pws, 'ngram': ngram, 'alphabet_size': asize, 'max_length': maxlen}
        ct.save_rules(al, alphabet, ks, lc, len(pws), rd, ngram, rule_enc)
        # the OMEN half of the trainer in the model (Model/OmenCount.lean): alphabet of the first pass, n-gram counts of the second,
        # levels after smoothing - computed by the driver from the password list alone and compared with the real objects
        ops.append(f"oc.train {asize} {ngram} {maxlen} " + ' '.join(enc(p_) for p_ in pws))
        exp.append(ct.count_line(al, alphabet))
        pre = ct.trainer_ops(al)
        ops += pre
        exp += ['ok'] * len(pre)
        cases += 1
        dist['ngram'][str(ngram)] = dist['ngram'].get(str(ngram), 0) + 1
        dist['mode'][mode] = dist['mode'].get(mode, 0) + 1
        try:
            with contextlib.redirect_stderr(io.StringIO()), contextlib.redirect_stdout(io.StringIO()):
                sc = OmenScorer(rd, rule_enc, 18)
            g = corr_omen.load_real(os.path.join(rd, 'Omen'))
        except Exception as e:
            viol.append({'property': focus, 'kind': 'scorer-omen-encoding' if rule_enc != 'utf-8' else 'loader-raised', 'error': repr(e)[:200], 'witness': {'passwords': pws, 'ngram': ngram, 'alphabet_size': asize, 'max_length': maxlen}})
            continue
        # the loader itself: the records of the three files the trainer just wrote (read here as text in the ruleset's encoding, a line
        # being `level<TAB>n-gram`) go through the Lean model of `_load_ngrams` / `_load_length` (`of.load`: the `loadIp` / `loadCp` /
        # `loadLn` of C07_omen_files_load); the answer is compared with the dicts the real `load_rules` built from the same files
        loader_compared = False
        try:
            def recs(name, enc_):
                out_ = []
                for ln_ in open(os.path.join(rd, 'Omen', name), encoding=enc_, newline='').read().split('\n'):
                    if ln_ != '':
                        out_.append(ln_.rstrip('\r').split('\t'))
                return out_
            ipr, cpr = recs('IP.level', rule_enc), recs('CP.level', rule_enc)
            lnr = [x[0] for x in recs('LN.level', 'ascii')]
            if all(len(x) == 2 and x[1] for x in ipr + cpr) and not any('\r' in x[1] or '\n' in x[1] for x in ipr + cpr):
                ops.append(' '.join(['of.load', str(g['max_level']), str(g['ngram'])] + [f"{a}:{enc(b)}" for a, b in ipr] + ['|'] +
                                    [f"{a}:{enc(b)}" for a, b in cpr] + ['|'] + lnr))
                want_ip = '/'.join(','.join(enc(k) for k in g['ip'][L]) for L in range(g['max_level'] + 1))
                want_ln = '/'.join(','.join(str(k) for k in g['ln'][L]) for L in range(g['max_level'] + 1))
                want_cp = ';'.join(f"{enc(pre)}@{L}={enc(''.join(cs))}" for pre, d_ in g['cp'].items() for L, cs in d_.items())
                exp.append(f"ip={want_ip} ln={want_ln} cp={want_cp}")
                dist['loader_runs_compared'] = dist.get('loader_runs_compared', 0) + 1
                loader_compared = True
                # ... and from the decoded text of the files themselves (`of.text`: the text layer of C07_omen_text_roundtrip in front of
                # the same loader model) - whatever line iteration, stripping and splitting do to an n-gram shows here
                def text_of(name, enc_):
                    return open(os.path.join(rd, 'Omen', name), encoding=enc_, newline='').read()
                ops.append(' '.join(['of.text', str(g['max_level']), str(g['ngram']), enc(text_of('IP.level', rule_enc)),
                                     enc(text_of('CP.level', rule_enc)), enc(text_of('LN.level', 'ascii'))]))
                exp.append(f"ip={want_ip} ln={want_ln} cp={want_cp}")
                ops.append('of.alpha ' + enc(text_of('alphabet.txt', rule_enc)))
                exp.append('a=' + ','.join(enc(x) for x in g['alphabet']))
        except (OSError, UnicodeError, KeyError):
            pass
        # the guesser's view: enumerate levels while they stay small
        glevel, total, lmax = {}, 0, -1
        per_level = {}
        shared_opt = Optimizer(4)          # one memo table for all levels, as PcfgGrammar uses it
        for L in range(0, 19):
            gs = corr_omen.real_enum(g, L, shared_opt if i % 2 == 0 else Optimizer(4), limit=20001)
            if gs is None or len(gs) > 20000 or total + len(gs) > 60000:
                break
            per_level[L] = len(gs)
            total += len(gs)
            for s in gs:
                glevel.setdefault(s, []).append(L)
            lmax = L
        dist['guesser_levels_enumerated'] += lmax + 1
        if i == 4:
            dist['strings_above_level_10'] = sum(n_ for L_, n_ in per_level.items() if L_ > 10)
        if focus == 'C18':
            listed = dict(ks)
            ops.append(f"ot.keyspace {10 ** 10} 18")
            # the model keyspace with the default cut-off is compared with the real function's default run
            with contextlib.redirect_stdout(io.StringIO()):
                al2, _ = ct.build(pws, ngram, asize, maxlen)
                ks_def = calc_omen_keyspace(al2)
            exp.append(' '.join(['k'] + [f"{l}:{k}" for l, k in sorted(ks_def.items())]))
            for L, k in sorted(listed.items()):
                if L in per_level:
                    if per_level[L] != k:
                        viol.append({'property': 'C18', 'kind': 'keyspace-partial-at-cutoff' if L == max(listed) and max(listed) < 18 else 'keyspace-mismatch',
                                     'level': L, 'saved': k, 'emitted': per_level[L],
                                     'witness': {'passwords': pws, 'ngram': ngram, 'alphabet_size': asize, 'max_length': maxlen}})
                    ops.append(f"ot.enumcount {L} 30000")
                    exp.append(f"n={per_level[L]}")
            # saved probability = fraction of training passwords at the level / keyspace
            probs = {}
            pth = os.path.join(rd, 'Omen', 'pcfg_omen_prob.txt')
            for ln in open(pth, encoding='utf-8'):
                a, b = ln.rstrip('\n').split('\t')
                probs[int(a)] = float(b)
            for L, k in listed.items():
                if k == 0:
                    if L in probs:
                        viol.append({'property': 'C18', 'kind': 'prob-for-empty-level', 'level': L, 'witness': {'passwords': pws, 'ngram': ngram}})
                    continue
                # the count is taken from what the guesser really emits at the level where that was enumerated
                cnt = sum(1 for p_ in pws if glevel.get(p_) == [L]) if L <= lmax else lc[L]
                want = (cnt / len(pws)) / k
                if probs.get(L) != want:
                    viol.append({'property': 'C18', 'kind': 'saved-probability', 'level': L, 'saved': probs.get(L), 'want': want,
                                 'witness': {'passwords': pws, 'ngram': ngram, 'alphabet_size': asize, 'max_length': maxlen}})
            whole_trainer('C18', i, pws, ngram, asize, maxlen, root, ops, exp, dist, viol, per_level, glevel, ks_def)
            if len(listed) >= 2 and any(per_level.get(L, 0) > 0 for L in listed):
                nontrivial += 1
            if len(samples) < 3:
                samples.append({'passwords': pws[:6], 'ngram': ngram, 'keyspace': sorted(listed.items())[:6], 'emitted': sorted(per_level.items())[:6]})
            continue
        # C11: the per-level counts the whole trainer saves describe what the guesser produces (third pass over the file of the list)
        whole_trainer('C11', i, pws, ngram, asize, maxlen, root, ops, exp, dist, viol, per_level, glevel, None)
        # C11: compare the three implementations (and the model) on candidate strings
        cands = ct.candidates(rng, pws, alphabet or 'a', ngram, maxlen)
        agree_nontrivial = 0
        for s in cands:
            t = find_omen_level(al, s)
            sl = sc.parse(s)
            if len(s) < ngram:
                dist['below_ngram'] += 1
            if len(s) > maxlen:
                dist['above_max'] += 1
            if any(ch not in alphabet for ch in s):
                dist['out_of_alphabet'] += 1
            gl = glevel.get(s)
            ops.append(f"ot.level {enc(s)}")
            # `f`: OmenScorer.parse of the model on the dictionaries the model of _load_omen built from the same file records
            exp.append(f"t={t} s={sl} g={t} f={sl if loader_compared else 'na'}")
            if t != sl:
                viol.append({'property': 'C11', 'kind': 'trainer-scorer-differ', 'string': s, 'trainer': t, 'scorer': sl,
                             'witness': {'passwords': pws, 'ngram': ngram, 'alphabet_size': asize, 'max_length': maxlen, 'string': s}})
            if t != -1 and t <= lmax and gl != [t]:
                viol.append({'property': 'C11', 'kind': 'guesser-level-differs', 'string': s, 'trainer': t, 'guesser': gl,
                             'witness': {'passwords': pws, 'ngram': ngram, 'alphabet_size': asize, 'max_length': maxlen, 'string': s}})
            if t == -1 and gl:
                viol.append({'property': 'C11', 'kind': 'guesser-generates-ungeneratable', 'string': s, 'guesser': gl,
                             'witness': {'passwords': pws, 'ngram': ngram, 'alphabet_size': asize, 'max_length': maxlen, 'string': s}})
            if t != -1 and gl:
                agree_nontrivial += 1
        # everything the guesser enumerated has that level for trainer and scorer
        for s, ls in list(glevel.items())[:300]:
            t = find_omen_level(al, s)
            if ls != [t] or sc.parse(s) != t:
                viol.append({'property': 'C11', 'kind': 'enumerated-string-level', 'string': s, 'guesser': ls, 'trainer': t, 'scorer': sc.parse(s),
                             'witness': {'passwords': pws, 'ngram': ngram, 'alphabet_size': asize, 'max_length': maxlen, 'string': s}})
                break
        # the saved per-level counts describe what the guesser produces: every counted training password is emitted at its level
        if agree_nontrivial >= 3:
            nontrivial += 1
        if len(samples) < 3:
            samples.append({'passwords': pws[:6], 'ngram': ngram, 'levels': [(s, find_omen_level(al, s)) for s in cands[:6]], 'enumerated_up_to': lmax})
        if prev_here is not None:
            for v_ in viol[n_before:]:
                if isinstance(v_.get('witness'), dict):
                    v_['witness']['previous'] = prev_here      # the ruleset directory already held this earlier ruleset
    if ctx.driver_ok:
        out = common.run_driver(ops)
        for i, (a, b) in enumerate(zip(out, exp)):
            if a != b:
                disagreements.append({'stream': 'omen-levels' if focus == 'C11' else 'omen-keyspace', 'op': ops[i][:200], 'model': a[:300], 'implementation': b[:300]})
                if len(disagreements) >= 5:
                    break
    else:
        disagreements.append({'stream': 'omen-trainer', 'detail': 'driver does not build'})
    rule = ('training lists over small alphabets (incl. non-ASCII), n-gram 2-5, alphabet size 2..100 (letters outside the alphabet), lists '
            'dominated by length = n-gram or a single length; the real AlphabetLookup + smoothing + save_omen_rules_to_disk, then ')
    if focus == 'C11':
        rule += ('find_omen_level, OmenScorer.parse and the real MarkovCracker (levels enumerated while small) are compared with each other and '
                 'with the Lean model on training passwords, perturbations, boundary lengths (n-1, n, n+1, 21, 22). non-trivial = >=3 '
                 'strings with a level that the guesser also emitted')
    else:
        rule += ('calc_omen_keyspace (default and small cut-offs) is compared with the number of guesses the real MarkovCracker emits per '
                 'level, with the Lean keyspace model and enumerator, and pcfg_omen_prob.txt with (count/N)/keyspace. non-trivial = >=2 listed '
                 'levels, one of them non-empty')
    return {'evaluations': cases, 'distinct_nontrivial': nontrivial, 'traces': cases, 'rule': rule,
            'samples': samples, 'disagreements': disagreements, 'violations': viol, 'distribution': dist,
            'extra': {'protocol_ops': len(ops)}}


def replay(ctx, payload, focus='C11'):
    w = payload.get('violation', {}).get('witness') or {}
    if 'passwords' not in w:
        return []
    common.use_impl()
    from lib_trainer.omen.evaluate_password import find_omen_level, calc_omen_keyspace
    from lib_guesser.omen.optimizer import Optimizer
    rd = os.path.join(common.scratch_dir('rules'), 'replay11')
    import shutil
    shutil.rmtree(rd, ignore_errors=True)
    os.makedirs(rd)
    if w.get('previous'):
        pv = w['previous']
        alp, alphp = ct.build(pv['passwords'], pv['ngram'], pv.get('alphabet_size', 100), pv.get('max_length', 21))
        with contextlib.redirect_stdout(io.StringIO()):
            ksp = calc_omen_keyspace(alp)
        ct.save_rules(alp, alphp, ksp, Counter(), len(pv['passwords']), rd, pv['ngram'])
    al, alphabet = ct.build(w['passwords'], w['ngram'], w.get('alphabet_size', 100), w.get('max_length', 21))
    with contextlib.redirect_stdout(io.StringIO()):
        ks = calc_omen_keyspace(al)
    ct.save_rules(al, alphabet, ks, Counter(), len(w['passwords']), rd, w['ngram'])
    out = []
    if focus == 'C11' and 'string' in w:
        # the guesser's view of the saved files: the string is emitted at exactly the trainer's level (small levels only)
        t_ = find_omen_level(al, w['string'])
        if 0 <= t_ <= 8:
            g_ = corr_omen.load_real(os.path.join(rd, 'Omen'))
            gs_ = corr_omen.real_enum(g_, t_, Optimizer(4), limit=50000)
            if gs_ is not None and len(gs_) < 50000 and w['string'] not in gs_:
                out.append({'kind': 'guesser-level-differs', 'trainer': t_})
    if focus == 'C11' and 'string' in w:
        from lib_scorer.omen_scorer import OmenScorer
        with contextlib.redirect_stderr(io.StringIO()):
            sc = OmenScorer(rd, 'utf-8', 18)
        if find_omen_level(al, w['string']) != sc.parse(w['string']):
            out.append({'kind': 'trainer-scorer-differ'})
    if focus == 'C18':
        g = corr_omen.load_real(os.path.join(rd, 'Omen'))
        for L, k in sorted(ks.items())[:8]:
            gs = corr_omen.real_enum(g, L, Optimizer(4), limit=50000)
            if gs is not None and len(gs) < 50000 and len(gs) != k:
                out.append({'kind': 'keyspace-mismatch', 'level': L, 'saved': k, 'emitted': len(gs)})
    return out
