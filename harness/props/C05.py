"""C05 - training segments every password into a lossless, soundly typed tiling."""
import contextlib
import io
import itertools
from collections import Counter

import os
import time
import common
import corr_detect as cd
import gen_passwords
import train_util

SITES = ['kw_detect', 'kw_find', 'kw_next', 'kw_interesting', 'email_detect', 'email_list', 'web_detect', 'web_list', 'year_detect', 'year_list',
         'ctx_detect', 'ctx_list', 'alpha_detect', 'alpha_list', 'digit_detect', 'digit_list', 'other_list', 'mw_train', 'mw_count',
         'mw_identify', 'mw_parse', 'base_structure', 'parser_parse', 'parser_update']
TRUSTED = ['CPython Unicode database: str.isalpha / isdigit / isupper per character and str.lower() per string are parameters of the model '
           '(shipped per input: every character and every substring of every test password)',
           'theorems assume lower() preserves the length of every substring (LenPres); strings violating it are searched concretely']
ASSUMPTIONS = ['passwords are accepted by check_valid (non-empty, no TAB / control / line-boundary characters)']

NONTAME = ['İ', 'ǅ', 'ß', 'ﬁ', 'ŉ']


def adjacency_ok(walk):
    """independent check: consecutive keys adjacent on one common layout (uses the real keyboard tables)"""
    from lib_trainer.detection_rules import keyboard_walk as kw
    boards = [kw._get_us_keyboard(), kw._get_jcuken_keyboard()]
    ok_any = False
    for b in boards:
        pos = []
        for ch in walk:
            p = None
            for r in (1, 2, 3, 4):
                for key in (f"row{r}", f"s_row{r}"):
                    if ch in b[key] and p is None:
                        p = (r, b[key].index(ch))
            pos.append(p)
        if any(p is None for p in pos):
            continue
        good = True
        for (r1, c1), (r2, c2) in zip(pos, pos[1:]):
            if (r1, c1) == (r2, c2):
                good = False
            elif r1 == r2:
                good = good and abs(c1 - c2) == 1
            elif r2 == r1 + 1:
                good = good and c2 in (c1, c1 - 1)
            elif r2 == r1 - 1:
                good = good and c2 in (c1, c1 + 1)
            else:
                good = False
        ok_any = ok_any or good
    return ok_any


def check_sections(pw, secs, mw, info):
    """the C05 predicates on the real parser's final section list; returns list of (kind, detail)"""
    from lib_trainer.detection_rules.context_sensitive_detection import detect_context_sensitive
    bad = []
    off = 0
    for k, (text, label) in enumerate(secs):
        if text == '':
            bad.append(('empty-segment', f"{k}:{label}"))
        if label is None:
            bad.append(('untyped-segment', text))
            continue
        orig = pw[off:off + len(text)]
        if label == 'W':
            if text != orig.lower() and text.lower() != orig.lower():
                bad.append(('tiling', f"W {text!r} vs {orig!r}"))
        elif text != orig:
            bad.append(('tiling', f"{label} {text!r} vs {orig!r} at {off}"))
        off += len(text)
        c = label[0]
        if c in 'ADOK' and label != c + str(len(text)):
            bad.append(('label-length', f"{label} {text!r}"))
        if c == 'D':
            if not all(ch.isdigit() for ch in text):
                bad.append(('digit-unsound', text))
            for nb in ([secs[k - 1]] if k > 0 else []) + ([secs[k + 1]] if k + 1 < len(secs) else []):
                edge = nb[0][-1:] if nb is secs[k - 1] and k > 0 else nb[0][:1]
                if nb[1] and nb[1][0] in 'DAO' and edge and edge.isdigit():
                    bad.append(('digit-not-maximal', f"{text!r} next to {nb}"))
        elif c == 'A':
            if not all(ch.isalpha() for ch in text):
                bad.append(('alpha-unsound', text))
        elif c == 'O':
            if any(ch.isalpha() or ch.isdigit() for ch in text):
                bad.append(('other-unsound', text))
        elif c == 'Y':
            if not (len(text) == 4 and text[:2] in ('19', '20') and text.isdigit()):
                bad.append(('year-unsound', text))
        elif c == 'K':
            classes = (any(ch.isalpha() for ch in text)) + (any(ch.isdigit() and not ch.isalpha() for ch in text)) + \
                      (any(not ch.isalpha() and not ch.isdigit() for ch in text))
            if len(text) < 4 or classes < 2 or not adjacency_ok(text):
                bad.append(('keyboard-unsound', text))
        elif c == 'X':
            if text not in CONTEXT_LIST:
                bad.append(('context-unsound', text))
    if off != len(pw):
        bad.append(('tiling', f"total length {off} != {len(pw)}"))
    # multi-word soundness: adjacent A sections that came from one alpha run
    runs = []
    cur = []
    for text, label in secs:
        if label and label[0] == 'A':
            cur.append(text)
        else:
            if cur:
                runs.append(cur)
            cur = []
    if cur:
        runs.append(cur)
    for parts in runs:
        if len(parts) > 1:
            whole = ''.join(parts).lower()
            # (adjacent A sections can only come from one run: an alpha run is maximal)
            if mw._get_count(whole) >= mw.threshold or any(mw._get_count(p.lower()) < mw.threshold or len(p) < mw.min_len for p in parts):
                bad.append(('multiword-unsound', str(parts)))
    return bad


CONTEXT_LIST = None


def load_context_list():
    global CONTEXT_LIST
    import ast
    import os
    src = open(os.path.join(common.snapshot(), 'lib_trainer/detection_rules/context_sensitive_detection.py'), encoding='utf-8').read()
    for n in ast.walk(ast.parse(src)):
        if isinstance(n, ast.Assign) and getattr(n.targets[0], 'id', '') == 'context_sensitive_replacements':
            CONTEXT_LIST = ast.literal_eval(n.value)


def tallies(all_secs, infos):
    """what the counters should hold, computed from the final section lists"""
    t = {k: Counter() for k in ('keyboard', 'years', 'context', 'alpha', 'masks', 'digits', 'other', 'base', 'raw', 'prince')}
    for secs, info in zip(all_secs, infos):
        for text, label in secs:
            c = label[0]
            t['prince'][label] += 1
            if c == 'K':
                t['keyboard'][(len(text), text)] += 1
            elif c == 'Y':
                t['years'][text] += 1
            elif c == 'X':
                t['context'][text] += 1
            elif c == 'D':
                t['digits'][(len(text), text)] += 1
            elif c == 'O':
                t['other'][(len(text), text)] += 1
        # alpha values are the lower-cased words, masks the U/L pattern (both come from the detector's lists)
        for w in info['alpha']:
            t['alpha'][(len(w), w)] += 1
        for m in info['masks']:
            t['masks'][(len(m), m)] += 1
        st = ''.join(l for _, l in secs)
        t['raw'][st] += 1
        if info['supported']:
            t['base'][st] += 1
    return t


def flatten_indexed(d):
    c = Counter()
    for ln, cnt in d.items():
        for k, v in cnt.items():
            c[(ln, k)] += v
    return c


def run(ctx):
    rng = ctx.rng
    common.use_impl()
    load_context_list()
    viol, samples, disagreements = [], [], []
    ops, exp, meta = [], [], []
    dist = {'labels': Counter(), 'nontame_lists': 0, 'passwords': 0, 'multiword_splits': 0}
    cases = nontrivial = 0
    seen = set()
    for i in range(ctx.scale(25, 300)):
        tame = rng.random() < 0.75 and i != 0
        pws = gen_passwords.gen_list(rng, n=rng.randint(8, 30), tame=tame, family=(True if i == 1 else None))
        if i == 1:
            # a fixed corpus of boundary shapes, whatever the seed: every keyboard run of the pool alone and embedded
            pws += gen_passwords.WALKS + ['monkey' + w for w in gen_passwords.WALKS] + [w + 'Summer1' for w in gen_passwords.WALKS]
            pws += gen_passwords.CASED_SYMBOL_CORPUS      # symbols that str.lower() changes, in front of / behind letter runs
            pws += gen_passwords.CONTEXT_CASE_CORPUS      # context strings in a capitalisation the trainer's list does not contain
            pws += gen_passwords.REPEATED_CONTEXT_CORPUS  # the same context string several times in one section
            pws += gen_passwords.DETECTOR_ORDER_CORPUS    # several detectors in one password, labelled sections before and behind
            # a capital dotted I (lower-casing: two code points) next to an i that carries its combining dot already, in one section
            pws += ['\u0130zmi\u0307r2024', '\u0130i\u0307www.google.com', 'I\u0307stanbul\u0130#1', 'i\u0307\u0130pass']
            # digits that are not ASCII digits (full-width, Arabic-Indic) behind a year prefix, in number runs and after symbols
            pws += ['pass19\uff19\uff19!', '20\uff12\uff14love1984', '\u0661\u0662\u0663abc', 'abc\uff11\uff12', '#1\uff15x']
        if i == 2:
            pws = gen_passwords.FRESH_LENGTHS_CORPUS + pws
        if not tame:
            # put the length-changing / title-case letters around trigger patterns
            for base in ['www.a.com', 'bob@x.com', 'pass1']:
                for k in range(len(base) + 1):
                    pws.append(base[:k] + 'İ' + base[k:])
            for _ in range(4):
                base = rng.choice(['www.a.com', 'bob@x.com', 'pass', '1qaz', '1999', '#1', '123', '!'])
                k = rng.randint(0, len(base))
                pws.append(base[:k] + rng.choice(NONTAME) + base[k:])
            dist['nontame_lists'] += 1
        mw, _ = train_util.first_pass(pws)
        uo = cd.uenv_ops(pws)
        # the multi-word table itself: the model is trained on the same history and must end with the real trie's counts ...
        tr = ['dt.new'] + uo + [f"dt.cfg {mw.threshold} {mw.min_len} {mw.max_len}", 'dt.mwclear'] + [f"dt.train {cd.cps(p)} 0" for p in pws if p]
        ops += tr
        exp += ['ok'] * len(tr)
        real_tbl = {}
        for o in cd.mw_ops(mw)[1:]:
            _, w_, n_ = o.split(' ')
            real_tbl[w_] = int(n_)
        ops.append('dt.mwdump')
        exp.append(' '.join(['mw'] + sorted(f"{w_}={n_}" for w_, n_ in real_tbl.items())))
        # ... and, independently of both: a word's count is the number of times it occurred as a maximal letter run
        indep = Counter()
        for p in pws:
            if mw.min_len <= len(p) <= mw.max_len:
                run = ''
                for ch in p.lower() + '\0':
                    if ch.isalpha():
                        run += ch
                    else:
                        if len(run) >= mw.min_len:
                            indep[cd.cps(run)] += 1
                        run = ''
        if dict(indep) != real_tbl:
            diff = [(k, indep.get(k, 0), real_tbl.get(k, 0)) for k in set(indep) | set(real_tbl) if indep.get(k, 0) != real_tbl.get(k, 0)][:4]
            viol.append({'property': 'C05', 'kind': 'multiword-count', 'detail': str([(''.join(chr(int(x)) for x in k.split('.')), a, b) for k, a, b in diff]),
                         'witness': {'list': pws}})
        pre = ['dt.new'] + uo + cd.mw_ops(mw)
        ops += pre
        exp += ['ok'] * len(pre)
        all_secs, infos, parsed_pws = [], [], []
        for p in dict.fromkeys(pws):
            cases += 1
            dist['passwords'] += 1
            try:
                line, secs, info = cd.real_parse_line(p, mw)
            except Exception as e:
                viol.append({'property': 'C05', 'kind': 'parse-raised', 'error': repr(e)[:200], 'password': p,
                             'nontame': not p.lower().upper().lower() == p.lower() or len(p.lower()) != len(p), 'witness': {'password': p, 'list': pws}})
                ops.append('dt.parse ' + cd.cps(p))
                exp.append(None)
                continue
            ops.append('dt.parse ' + cd.cps(p))
            exp.append(line)
            meta.append(p)
            for _, l in secs:
                dist['labels'][l[0] if l else 'None'] += 1
            bad = check_sections(p, secs, mw, info)
            lenchg = any(len(p[a:b].lower()) != b - a for a in range(len(p)) for b in range(a + 1, len(p) + 1))
            for kind, detail in bad:
                viol.append({'property': 'C05', 'kind': kind, 'detail': detail[:200], 'password': p, 'length_changing_lower': lenchg,
                             'witness': {'password': p, 'list': pws}})
            key = tuple(l for _, l in secs)
            if len(secs) >= 3 and key not in seen:
                nontrivial += 1
            seen.add(key)
            if sum(1 for _, l in secs if l and l[0] == 'A') >= 2:
                dist['multiword_splits'] += 1
            if not bad:
                all_secs.append(secs)
                infos.append(info)
                parsed_pws.append(p)
            if len(samples) < 4 and len(secs) >= 4:
                samples.append({'password': p, 'sections': [(t, l) for t, l in secs]})
        # counters = tallies (whole list incl. duplicates, through the real PCFGPasswordParser)
        if all(p in parsed_pws for p in dict.fromkeys(pws)):
            parser = train_util.second_pass(pws, mw)
            # ... and the whole PCFG half of the trainer as one function of the list (Model/Trainer.lean: pass 1 + pass 2): every
            # counter of the real parser after the real two passes against the model, insertion order included
            if i % 3 == 0 and all(p for p in pws):
                def _t(c_):
                    return '[' + ','.join(f"{cd.cps(k_)}={v_}" for k_, v_ in c_.items()) + ']'

                def _l(d_):
                    return ' '.join(f"{n_}:{_t(c_)}" for n_, c_ in d_.items())

                def _s(c_):
                    return '[' + ','.join(f"{k_}={v_}" for k_, v_ in c_.items()) + ']'
                ops.append('tr.train ' + ' '.join(cd.cps(p) for p in pws))
                exp.append(' | '.join([f"kb {_l(parser.count_keyboard)}", f"emails {_t(parser.count_emails)}", f"providers {_t(parser.count_email_providers)}",
                                       f"urls {_t(parser.count_website_urls)}", f"hosts {_t(parser.count_website_hosts)}",
                                       'prefixes [' + ','.join(f"{cd.cps(k_) if k_ is not None else 'None'}={v_}" for k_, v_ in parser.count_website_prefixes.items()) + ']', f"years {_t(parser.count_years)}",
                                       f"ctx {_t(parser.count_context_sensitive)}", f"alpha {_l(parser.count_alpha)}", f"masks {_l(parser.count_alpha_masks)}",
                                       f"digits {_l(parser.count_digits)}", f"other {_l(parser.count_other)}", f"prince {_s(parser.count_prince)}",
                                       f"base {_s(parser.count_base_structures)}", f"raw {_s(parser.count_raw_base_structures)}"]))
                meta.append('whole list')
                dist['whole_trainer_lists'] = dist.get('whole_trainer_lists', 0) + 1
            seq_secs, seq_infos = [], []
            lookup = {p: (s, inf) for p, s, inf in zip(parsed_pws, all_secs, infos)}
            for p in pws:
                seq_secs.append(lookup[p][0])
                seq_infos.append(lookup[p][1])
            want = tallies(seq_secs, seq_infos)
            got = {'keyboard': flatten_indexed(parser.count_keyboard), 'years': Counter(parser.count_years), 'context': Counter(parser.count_context_sensitive),
                   'alpha': flatten_indexed(parser.count_alpha), 'masks': flatten_indexed(parser.count_alpha_masks),
                   'digits': flatten_indexed(parser.count_digits), 'other': flatten_indexed(parser.count_other),
                   'base': Counter(parser.count_base_structures), 'raw': Counter(parser.count_raw_base_structures), 'prince': Counter(parser.count_prince)}
            for k in want:
                if +got[k] != +want[k]:
                    viol.append({'property': 'C05', 'kind': 'counters-not-tallies', 'counter': k,
                                 'diff': str(list(((+got[k]) - (+want[k])).items())[:3]) + str(list(((+want[k]) - (+got[k])).items())[:3]),
                                 'witness': {'list': pws}})
    # the length-indexed counters (model: Model/Counters.lean, theorem C05_len_indexed_counters): sequences of calls of the real
    # `_update_counter_len_indexed` on one fresh dict - several new lengths within one call, repeated items, repeated calls - against
    # the Lean model, dict and Counter insertion order included
    from lib_trainer.pcfg_password_parser import PCFGPasswordParser as _PP
    pool_items = ['sun', 'tiger', '12', '345', 'ab', 'x', 'hello', '99', 'sun', '12', 'zz', '7', 'Tiger', 'LLL', 'ULL', 'LLLLL', '!!', '#']
    for k_ in range(ctx.scale(40, 400)):
        calls_ = [[rng.choice(pool_items) for _ in range(rng.randint(0, 5))] for _ in range(rng.randint(1, 6))]
        if k_ == 0:
            calls_ = [['sun', 'tiger'], ['12', '345'], ['sun'], ['hello', 'ab', 'tiger']]
        try:
            pp_ = object.__new__(_PP)
            dct_ = {}
            for c_ in calls_:
                pp_._update_counter_len_indexed(dct_, c_)
            real_ = ' '.join(['lenctr'] + [f"{n_}:[" + ','.join(f"{cd.cps(it_)}={cnt_}" for it_, cnt_ in ctr_.items()) + ']' for n_, ctr_ in dct_.items()])
        except Exception as e:
            viol.append({'property': 'C05', 'kind': 'counter-update-raised', 'error': repr(e)[:200], 'witness': {'calls': calls_}})
            continue
        ops.append('dt.lenctr ' + ' | '.join(' '.join(cd.cps(it_) for it_ in c_) for c_ in calls_))
        exp.append(real_)
        cases += 1
        dist['counter_update_sequences'] = dist.get('counter_update_sequences', 0) + 1
        # independent of both: bucket n holds exactly the items of length n with their number of occurrences
        flat_ = [it_ for c_ in calls_ for it_ in c_]
        for n_, ctr_ in dct_.items():
            want_ = Counter(it_ for it_ in flat_ if len(it_) == n_)
            if Counter(dict(ctr_)) != want_:
                viol.append({'property': 'C05', 'kind': 'counters-not-tallies', 'counter': f'length {n_}', 'diff': str(dict(ctr_))[:120] + ' vs ' + str(dict(want_))[:120],
                             'witness': {'calls': calls_}})
                break
    # "every password the trainer accepts": what reaches the parser is what the input reader yields.  A training file with plain and
    # $HEX[] lines, some of whose payloads the filter has to reject (empty, TAB, line boundaries, control characters): whatever
    # the reader yields is parsed by the real parser and judged by the same predicates
    import io as _io
    import contextlib as _ctx
    from lib_trainer.trainer_file_input import TrainerFileInput
    tf = os.path.join(common.scratch_dir('c05'), 'accepted.txt')
    payloads = ['', '\t', 'a\tb', '\n', 'ab\x0bcd', '\x1f', 'pass\u2028word', 'ok1', 'Pass word', ' ', '\x00']
    with open(tf, 'wb') as f:
        f.write(b'password1\n$HEX[]\n\n')
        for pl in payloads:
            f.write(b'$HEX[' + pl.encode('utf-8').hex().encode() + b']\n')
        f.write('Ⓐbc12\n'.encode('utf-8'))
    try:
        with _ctx.redirect_stdout(_io.StringIO()):
            accepted = list(TrainerFileInput(tf, 'utf-8').read_password())
    except Exception as e:
        accepted = []
        viol.append({'property': 'C05', 'kind': 'reader-raised', 'error': repr(e)[:200], 'witness': {'file': 'accepted.txt (fixed $HEX[] lines)'}})
    mw_acc, _ = train_util.first_pass([a for a in accepted if a])
    for pw_acc in accepted:
        cases += 1
        dist['accepted_via_reader'] = dist.get('accepted_via_reader', 0) + 1
        try:
            _line, secs_acc, info_acc = cd.real_parse_line(pw_acc, mw_acc)
            bad_acc = check_sections(pw_acc, secs_acc, mw_acc, info_acc)
            if not pw_acc:
                bad_acc = bad_acc + [('empty-password-reached-the-parser', repr(secs_acc))]
        except Exception as e:
            bad_acc = [('parse-raised', repr(e))]
        for kind, detail in bad_acc:
            viol.append({'property': 'C05', 'kind': kind, 'detail': detail[:200], 'password': pw_acc, 'length_changing_lower': False,
                         'witness': {'password': pw_acc, 'via': 'TrainerFileInput on $HEX[] lines', 'payloads': payloads}})
    if ctx.driver_ok:
        out = common.run_driver(ops)
        for i, (a, b) in enumerate(zip(out, exp)):
            if b is None:
                continue
            if a != b:
                disagreements.append({'stream': 'parse', 'op': ops[i][:200], 'model': a[:400], 'implementation': b[:400]})
                if len(disagreements) >= 5:
                    break
    else:
        disagreements.append({'stream': 'parse', 'detail': 'driver does not build'})
    dist['labels'] = dict(dist['labels'])
    # the Unicode hypothesis of C05_other_sound (lower-casing changes the alpha-ness of no position), over all code points
    import unicode_check
    t_u = time.time()
    dist['alpha_law_exceptions'] = [hex(c) for c in unicode_check.alpha_law_exceptions()][:20]
    dist['alpha_law_seconds'] = round(time.time() - t_u, 2)
    return {'evaluations': cases, 'distinct_nontrivial': nontrivial, 'traces': cases,
            'rule': 'training lists interleaving and overlapping the detectors\' trigger patterns (keyboard walks on two layouts, e-mails, '
                    'URLs with prefixes / paths / nested TLDs, years with digit neighbours, context strings, words and multi-words, digit '
                    'and symbol runs, Cyrillic / Greek (final sigma) / Latin-1 letters, non-BMP symbols), a quarter of the lists with '
                    'length-changing or title-case letters next to triggers; every password goes through the real detectors and the Lean '
                    'model (all sections and found lists compared); the tiling, non-emptiness, label-length and per-label soundness '
                    'predicates are evaluated on the real section list with independent code; the real parser\'s counters after the whole '
                    'list are compared with tallies of the sections. non-trivial = >=3 sections; distinct by label sequence',
            'samples': samples, 'disagreements': disagreements, 'violations': viol, 'distribution': dist,
            'extra': {'protocol_ops': len(ops)}}


def replay(ctx, payload):
    w = payload.get('violation', {}).get('witness') or {}
    if 'password' not in w:
        return []
    common.use_impl()
    load_context_list()
    if w.get('via'):
        # the password came out of the input reader: does the reader (still) yield it for the recorded $HEX[] payloads?
        import io as _io
        import contextlib as _ctx
        from lib_trainer.trainer_file_input import TrainerFileInput
        tf = os.path.join(common.scratch_dir('c05'), 'replay_accepted.txt')
        with open(tf, 'wb') as f:
            f.write(b'password1\n$HEX[]\n\n')
            for pl in w.get('payloads', []):
                f.write(b'$HEX[' + pl.encode('utf-8').hex().encode() + b']\n')
        with _ctx.redirect_stdout(_io.StringIO()):
            accepted = list(TrainerFileInput(tf, 'utf-8').read_password())
        if w['password'] not in accepted:
            return []
    mw, _ = train_util.first_pass(w.get('list') or [w['password']])
    try:
        line, secs, info = cd.real_parse_line(w['password'], mw)
    except Exception as e:
        return [{'kind': 'parse-raised', 'error': repr(e)}]
    out = [{'kind': k, 'detail': d} for k, d in check_sections(w['password'], secs, mw, info)]
    if not w['password']:
        out.append({'kind': 'empty-password-reached-the-parser'})
    return out
