"""C18 - the saved OMEN keyspace is the number of guesses a level really produces."""
from props import C11

SITES = ['calc_keyspace', 'rec_keyspace', 'omen_save', 'mc_next', 'gs_next_guess', 'gs_fill']
TRUSTED = C11.TRUSTED + ['the memo table of _rec_calc_keyspace stores the function\'s own results (omitted in the model)']
ASSUMPTIONS = ['levels are compared where the level is small enough to enumerate with the real generator; larger ones through the model']


def run(ctx):
    return C11.run(ctx, 'C18')


def replay(ctx, payload):
    return C11.replay(ctx, payload, 'C18')
