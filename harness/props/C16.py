"""C16 - honeywords are drawn from the grammar with the grammar's probabilities."""
import contextlib
import io
import math
import os
import random as pyrandom

import common
import corr_expand
import gen_omen
import gen_rulesets
from common import f2h

SITES = ['honey_run', 'random_walk', 'honey_guess', 'create_guesses']
TRUSTED = ['Mersenne Twister determinism under random.seed(int); random.choice(seq) returns seq[k] for a uniformly drawn k',
           'float addition of the running sums (the model runs the same additions on doubles)',
           'on paper: the measure of an interval equals its length (Lean states the interval end points and their difference)']
ASSUMPTIONS = ['draws are scripted in the correspondence (random.random / random.choice replaced); real generator only in the reproducibility runs']


class Script:
    """scripted replacements for random.random / random.choice / random.seed"""
    def __init__(self, us, ks):
        self.us, self.ks = list(us), list(ks)
        self.used_u, self.used_k = [], []

    def random(self):
        u = self.us.pop(0)
        self.used_u.append(u)
        return u

    def choice(self, seq):
        k = self.ks.pop(0) % len(seq)
        self.used_k.append(k)
        return seq[k]


@contextlib.contextmanager
def scripted(script):
    import lib_guesser.pcfg_grammar as pg
    old = (pg.random.random, pg.random.choice)
    pg.random.random, pg.random.choice = script.random, script.choice
    try:
        yield
    finally:
        pg.random.random, pg.random.choice = old


def breakpoints(ws):
    """running sums of a weight list and their float neighbours"""
    out, cur = [0.0, 1 - 2 ** -53, 5e-324], 0
    for w in ws:
        cur += w
        for x in (cur, math.nextafter(cur, 0.0), math.nextafter(cur, 2.0)):
            if 0.0 <= x < 1.0:
                out.append(x)
    return out


def sampler_ops(pcfg):
    ops = ['hw.new']
    for b in pcfg.base:
        ops.append(' '.join(['hw.base', f2h(b['prob'])] + list(b['replacements'])))
    for name, groups in pcfg.grammar.items():
        if groups:
            ops.append(' '.join([f"hw.type {name}"] + [f"{f2h(g['prob'])} {len(g['values'])}" for g in groups]))
    return ops


ENC_SPECS = [
    # ISO-8859-1 letters whose upper-case form (U+0178, U+039C) is not a character of ISO-8859-1: the mask ULLL applies to them
    {'encoding': 'iso-8859-1', 'terminals': {'A4': [['\u00ffves', '0.5'], ['\u00b5abc', '0.25'], ['abcd', '0.25']], 'C4': [['ULLL', '0.5'], ['LLLL', '0.5']],
                                            'D2': [['12', '0.5'], ['77', '0.5']]},
     'grammar': [['A4D2', '0.75'], ['D2', '0.25']], 'omen_prob': [], 'prince': [], 'mode': 'dyadic'},
    # control: Cyrillic in cp1251, upper-case forms inside the encoding
    {'encoding': 'cp1251', 'terminals': {'A3': [['\u043c\u0438\u0440', '0.5'], ['\u0434\u043e\u043c', '0.5']], 'C3': [['ULL', '0.5'], ['LLL', '0.5']],
                                        'D1': [['1', '0.5'], ['2', '0.5']]},
     'grammar': [['A3D1', '0.5'], ['A3', '0.5']], 'omen_prob': [], 'prince': [], 'mode': 'dyadic'},
]


def cli_encoding_case(k, N, mode):
    """the program itself (stdout of the consumer declared UTF-8) on a ruleset stored in a one-byte encoding: exactly N lines, every
    line a word of the ruleset's language, random_walk identical on a second run and identical to the in-process generator"""
    import corr_pq
    from lib_guesser.honeyword_session import HoneywordSession
    spec = ENC_SPECS[k]
    # the ruleset is asked for by its exact name; next to it stands another ruleset whose name differs in capitalisation only
    # and whose language is disjoint (Rules/ is a directory of a case-sensitive file system)
    name = f"C16Enc{k}"
    common.install_ruleset({'terminals': {'D3': [['777', '0.5'], ['778', '0.5']]}, 'grammar': [['D3', '1.0']], 'omen_prob': [], 'prince': [],
                            'mode': 'dyadic', 'encoding': 'utf-8', 'uuid': '00000000-0000-0000-0000-0000000000c6'}, name.lower())
    d = common.install_ruleset(spec, name)
    common.use_impl()
    pcfg = common.load_grammar(d)
    lang = set()
    pq = corr_pq.fresh_queue(pcfg)
    while True:
        it = pq.next()
        if it is None:
            break
        lang.update(corr_expand.product_oracle(pcfg, it['pt']) or [])
    wit = {'enc_spec': k, 'limit': N, 'mode': mode}
    outs = []
    for rep in range(2 if mode == 'random_walk' else 1):
        o, e, rc = common.run_cli('pcfg_guesser.py', ['-r', name, '-m', mode, '-n', str(N)], stdin='pipe-open')
        outs.append(o)
    viol = []
    try:
        lines = outs[0].decode('utf-8').split('\n')
    except UnicodeDecodeError:
        return [{'property': 'C16', 'kind': 'stdout-not-in-declared-encoding', 'head': repr(outs[0][:60]), 'witness': wit}]
    if lines and lines[-1] == '':
        lines.pop()
    bad = [l for l in lines if l not in lang]
    if len(lines) != N or bad:
        viol.append({'property': 'C16', 'kind': 'count' if not bad else 'not-in-language', 'lines': len(lines), 'limit': N, 'not_words': bad[:3], 'witness': wit})
    if mode == 'random_walk':
        if outs[0] != outs[1]:
            viol.append({'property': 'C16', 'kind': 'random-walk-not-reproducible', 'witness': wit})
        buf = io.StringIO()
        with contextlib.redirect_stdout(buf), contextlib.redirect_stderr(io.StringIO()):
            HoneywordSession(pcfg, 'random_walk').run(limit=N)
        if buf.getvalue().split('\n')[:-1] != lines:
            viol.append({'property': 'C16', 'kind': 'program-differs-from-generator', 'program_lines': len(lines), 'witness': wit})
    return viol


def hash_seed_case():
    """a ruleset whose config lists two files for one variable (a left-over of an earlier training ahead of the current one), run as a
    program under eight interpreter hash seeds: the same words every time, all from the language in which the file listed last counts"""
    spec = {'terminals': {'D2': [['12', '0.5'], ['34', '0.5']], 'A3': [['fox', '0.5'], ['dog', '0.5']], 'C3': [['LLL', '0.5'], ['ULL', '0.5']]},
            'decoy_files': {'D2': [['77', '0.5'], ['99', '0.5']], 'A3': [['zzz', '1.0']]},
            'grammar': [['A3D2', '0.5'], ['D2', '0.5']], 'omen_prob': [], 'prince': [], 'mode': 'dyadic', 'encoding': 'utf-8'}
    name = 'c16multi'
    common.install_ruleset(spec, name)
    lang = {w + d for w in ('fox', 'dog', 'Fox', 'Dog') for d in ('12', '34')} | {'12', '34'}
    outs = {}
    for hs in range(8):
        o, e, rc = common.run_cli('pcfg_guesser.py', ['-r', name, '-m', 'random_walk', '-n', '24'], stdin='pipe-open', env_extra={'PYTHONHASHSEED': str(hs)})
        outs[hs] = o
    wit = {'hash_seed_case': True}
    viol = []
    if len(set(outs.values())) != 1:
        viol.append({'property': 'C16', 'kind': 'random-walk-not-reproducible', 'detail': 'output depends on PYTHONHASHSEED', 'witness': wit})
    # exactly N words for the round numbers a user asks for (powers of two, thousands)
    for mode_ in ('random_walk', 'honeywords'):
        for n_ in (1024, 4096, 5000):
            o, e, rc = common.run_cli('pcfg_guesser.py', ['-r', name, '-m', mode_, '-n', str(n_)], stdin='pipe-open')
            ls_ = o.decode('utf-8', 'replace').split('\n')
            if ls_[-1:] != [''] or len(ls_) - 1 != n_ or any(l not in lang for l in ls_[:-1]):
                viol.append({'property': 'C16', 'kind': 'not-in-language', 'limit': n_, 'mode': mode_, 'lines': len(ls_) - 1,
                             'not_words': sorted({l for l in ls_[:-1] if l not in lang})[:4], 'witness': wit})
                break
    bad = sorted({l for o in outs.values() for l in o.decode('utf-8', 'replace').split('\n') if l and l not in lang})
    if bad or any(o.count(b'\n') != 24 for o in outs.values()):
        viol.append({'property': 'C16', 'kind': 'not-in-language', 'not_words': bad[:4], 'lines': [o.count(b'\n') for o in outs.values()], 'witness': wit})
    return viol


def run(ctx):
    rng = ctx.rng
    common.use_impl()
    viol, samples, disagreements = [], [], []
    ops, exp = [], []
    viol += hash_seed_case()
    dist = {'breakpoint_draws': 0, 'random_draws': 0, 'markov_walks': 0, 'fallback_last_base': 0}
    cases = nontrivial = 0
    root = common.scratch_dir('rules')
    for i in range(ctx.scale(25, 300)):
        om = gen_omen.gen_omen(rng, ngram=2, nletters=2, maxlen_extra=1)
        mode = rng.choice(['norm', 'norm', 'dyadic'])
        spec = gen_rulesets.gen_ruleset(rng, omen=om, mode='dyadic' if mode == 'dyadic' else 'float', max_structs=4, max_pos=3, max_vals=3)
        if mode == 'norm':          # normalise like the trainer: every list sums to (about) 1
            for name, items in spec['terminals'].items():
                tot = sum(float(p) for _, p in items)
                srt = sorted(items, key=lambda it: -float(it[1]))
                spec['terminals'][name] = [[v, repr(float(p) / tot)] for v, p in srt]
            tot = sum(float(p) for _, p in spec['grammar'])
            spec['grammar'] = [[s, repr(float(p) / tot)] for s, p in spec['grammar']]
        if i == 1:
            # whatever the seed: neighbouring groups whose probabilities are different numbers within one part in a million / a thousand
            # million of each other: each is a group of its own, with its own interval of draws
            spec = {'terminals': {'D1': [['1', '0.3999999'], ['2', '0.2000001'], ['3', '0.2'], ['4', '0.1'], ['5', '0.1']],
                                  'A2': [['ab', '0.5000000001'], ['cd', '0.4999999999']], 'C2': [['LL', '0.6'], ['UL', '0.4']]},
                    'grammar': [['D1', '0.6'], ['A2D1', '0.4']], 'omen_prob': [], 'prince': [], 'mode': 'near', 'encoding': 'utf-8', 'omen': om}
        if i == 2:
            # base structures listed in another order than that of their probabilities (a grammar.txt merged or edited by hand)
            spec = {'terminals': {'D1': [['1', '0.5'], ['2', '0.3'], ['3', '0.2']], 'A2': [['ab', '0.6'], ['cd', '0.4']],
                                  # (loaded with --all_lower below: the all-lower mask shares its probability group with another mask)
                                  'C2': [['UL', '0.4'], ['LL', '0.4'], ['UU', '0.2']],
                                  'O1': [['!', '0.75'], ['#', '0.25']]},
                    'grammar': [['D1', '0.125'], ['A2D1', '0.5'], ['O1D1', '0.0625'], ['A2', '0.3125']], 'omen_prob': [], 'prince': [], 'mode': 'dyadic',
                    'encoding': 'utf-8', 'omen': om}
        d = common.write_ruleset(os.path.join(root, f"h{i % 10}"), spec)
        # every third ruleset is loaded the way `--all_lower` loads it: the honeyword distribution is then that of the ruleset with
        # every capitalisation list replaced by the single all-lower mask
        flags = {'skip_case': i % 3 == 2}
        dist['all_lower'] = dist.get('all_lower', 0) + int(flags['skip_case'])
        try:
            pcfg = common.load_grammar(d, **flags)
        except Exception as e:
            continue
        # the probabilities are those of the ruleset: what was loaded must be what the files say
        import corr_pq
        for v_ in corr_pq.oracle_base_vs_files(pcfg, spec, 'C16') + corr_pq.oracle_loaded_vs_files(pcfg, spec, flags):
            v_['property'] = 'C16'
            v_['witness'] = {'spec': spec, 'flags': flags}
            viol.append(v_)
        pre = corr_expand.grammar_ops(pcfg, om) + sampler_ops(pcfg)
        ops += pre
        exp += ['ok'] * len(pre)
        if i % 3 == 2 or i == 1:
            # the grammar object has served a guessing session in this process before honeywords are asked of it (a queue was built on
            # it and ran for a while): the walk is that of the ruleset all the same
            before = [(b['prob'], tuple(b['replacements'])) for b in pcfg.base]
            try:
                q_ = corr_pq.fresh_queue(pcfg)
                for _ in range(3):
                    if q_.next() is None:
                        break
            except Exception as e_:
                pass
            dist['walk_after_session'] = dist.get('walk_after_session', 0) + 1
            if [(b['prob'], tuple(b['replacements'])) for b in pcfg.base] != before:
                viol.append({'property': 'C16', 'kind': 'grammar-object-changed-by-session', 'before': str(before)[:200],
                             'after': str([(b['prob'], tuple(b['replacements'])) for b in pcfg.base])[:200], 'witness': {'spec': spec, 'flags': flags, 'queue_first': True}})
        base_ws = [b['prob'] for b in pcfg.base]
        draws0 = breakpoints(base_ws) + [rng.random() for _ in range(4)]
        for u0 in draws0:
            npos = 12
            us = [u0]
            for _ in range(npos):
                t = rng.choice(list(pcfg.grammar))
                ws = [g['prob'] * len(g['values']) for g in pcfg.grammar[t]]
                us.append(rng.choice(breakpoints(ws) + [rng.random()]))
            ks = [rng.randrange(0, 1000) for _ in range(npos)]
            sc = Script(us, ks)
            raised = None
            buf = io.StringIO()
            try:
                with scripted(sc), contextlib.redirect_stdout(buf), contextlib.redirect_stderr(io.StringIO()):
                    item = pcfg.random_walk()
                    n = pcfg.create_guesses(item['pt'], is_honeyword=True, limit=1)
            except Exception as e:
                raised = repr(e)
            cases += 1
            if u0 in draws0[:len(draws0) - 4]:
                dist['breakpoint_draws'] += 1
            else:
                dist['random_draws'] += 1
            if raised:
                viol.append({'property': 'C16', 'kind': 'walk-raised', 'error': raised[:200], 'u0': f2h(u0),
                             'witness': {'spec': spec, 'us': [f2h(u) for u in us], 'ks': ks}})
                continue
            pt = item['pt']
            used_u = sc.used_u
            ops.append(' '.join(['hw.walk'] + [f2h(u) for u in used_u]))
            exp.append(' '.join(['pt'] + [f"{t}:{j}" for t, j in pt]))
            word = buf.getvalue().split('\n')[0] if buf.getvalue() else None
            ops.append(' '.join(['hw.word', ','.join(str(k) for k in sc.used_k) or '-'] + [f"{t}:{j}" for t, j in pt]))
            exp.append('noword' if word is None else 'word ' + corr_expand.enc(word))
            is_m = bool(pt) and pt[0][0] == 'M'
            dist['markov_walks'] += int(is_m)
            if sum(base_ws[:]) < u0:
                dist['fallback_last_base'] += 1
            # oracle: member of the non-Markov language, exactly one word unless Markov
            if is_m:
                if n != 0 or word is not None:
                    viol.append({'property': 'C16', 'kind': 'markov-produced-word', 'witness': {'spec': spec}})
            else:
                lang = corr_expand.product_oracle(pcfg, pt)
                if n != 1 or word is None or word not in lang:
                    viol.append({'property': 'C16', 'kind': 'not-in-language', 'word': word, 'pt': str(pt),
                                 'witness': {'spec': spec, 'us': [f2h(u) for u in used_u], 'ks': sc.used_k}})
                # inside the selected group every value is equally likely: one uniform draw per position, the k-th value taken
                want_word, ok_draws = '', len(sc.used_k) == len(pt)
                if ok_draws:
                    for (t, j), k in zip(pt, sc.used_k):
                        val = pcfg.grammar[t][j]['values'][k]
                        if t[0] == 'C':
                            tail = want_word[len(want_word) - len(val):]
                            want_word = want_word[:len(want_word) - len(val)] + ''.join(c if m == 'L' else c.upper() for c, m in zip(tail, val))
                        else:
                            want_word += val
                if not ok_draws or want_word != word:
                    viol.append({'property': 'C16', 'kind': 'not-uniform-within-group', 'word': word, 'want': want_word if ok_draws else None,
                                 'uniform_draws': len(sc.used_k), 'positions': len(pt), 'pt': str(pt),
                                 'witness': {'spec': spec, 'us': [f2h(u) for u in used_u], 'ks': sc.used_k}})
                # the selected group is the first whose running sum reaches the draw
                for pos, ((t, j), u) in enumerate(zip(pt, used_u[1:])):
                    cur, want = 0, 0
                    for jj, g in enumerate(pcfg.grammar[t]):
                        cur += g['prob'] * len(g['values'])
                        if cur >= u:
                            want = jj
                            break
                    if want != j:
                        viol.append({'property': 'C16', 'kind': 'wrong-interval', 'pos': pos, 'witness': {'spec': spec}})
            if len(pt) >= 2 and not is_m:
                nontrivial += 1
            if len(samples) < 3 and not is_m and len(pt) >= 2:
                samples.append({'u': used_u[:4], 'pt': pt, 'word': word})
        # count and reproducibility with the real generator
        from lib_guesser.honeyword_session import HoneywordSession
        if any(b['replacements'][0][0] != 'M' for b in pcfg.base):
            for N in (1, rng.randint(2, 9)):
                outs = []
                try:
                    for rep in range(2):
                        buf = io.StringIO()
                        with contextlib.redirect_stdout(buf), contextlib.redirect_stderr(io.StringIO()):
                            HoneywordSession(pcfg, 'random_walk').run(limit=N)
                        outs.append(buf.getvalue())
                except Exception as e:
                    viol.append({'property': 'C16', 'kind': 'walk-raised', 'error': repr(e)[:200], 'mode': 'random_walk',
                                 'witness': {'spec': spec, 'limit': N}})
                    continue
                lines = outs[0].split('\n')[:-1]
                cases += 1
                if len(lines) != N:
                    viol.append({'property': 'C16', 'kind': 'count', 'limit': N, 'lines': len(lines), 'witness': {'spec': spec, 'limit': N}})
                if outs[0] != outs[1]:
                    viol.append({'property': 'C16', 'kind': 'random-walk-not-reproducible', 'witness': {'spec': spec, 'limit': N}})
                buf = io.StringIO()
                try:
                    with contextlib.redirect_stdout(buf), contextlib.redirect_stderr(io.StringIO()):
                        HoneywordSession(pcfg, 'honeywords').run(limit=N)
                except Exception as e:
                    viol.append({'property': 'C16', 'kind': 'walk-raised', 'error': repr(e)[:200], 'mode': 'honeywords',
                                 'witness': {'spec': spec, 'limit': N}})
                    continue
                if len(buf.getvalue().split('\n')) - 1 != N:
                    viol.append({'property': 'C16', 'kind': 'count', 'mode': 'honeywords', 'limit': N, 'witness': {'spec': spec, 'limit': N}})
    # a ruleset in which almost every walk lands on the Markov structure (a training with a tiny coverage): hundreds of walks in a row
    # produce no word, and --limit N must still give exactly N words, reproducibly
    from lib_guesser.honeyword_session import HoneywordSession as _HS
    heavy = {'terminals': {'D1': [['1', '0.5'], ['2', '0.5']], 'A2': [['ab', '1.0']], 'C2': [['LL', '0.5'], ['UL', '0.5']]},
             'grammar': [['M', '0.97'], ['D1', '0.02'], ['A2D1', '0.01']], 'omen_prob': [['1', '0.5'], ['2', '0.25']], 'prince': [],
             'omen': gen_omen.gen_omen(rng, ngram=2, nletters=2, maxlen_extra=1), 'encoding': 'utf-8', 'mode': 'markov-heavy'}
    dh = common.write_ruleset(os.path.join(root, 'heavy'), heavy)
    try:
        pcfg_h = common.load_grammar(dh)
        for mode_h, N in (('random_walk', ctx.scale(120, 600)), ('honeywords', ctx.scale(60, 300))):
            outs_h = []
            for rep in range(2 if mode_h == 'random_walk' else 1):
                buf = io.StringIO()
                with contextlib.redirect_stdout(buf), contextlib.redirect_stderr(io.StringIO()):
                    _HS(pcfg_h, mode_h).run(limit=N)
                outs_h.append(buf.getvalue())
            cases += 1
            dist['markov_heavy_runs'] = dist.get('markov_heavy_runs', 0) + 1
            if len(outs_h[0].split('\n')) - 1 != N:
                viol.append({'property': 'C16', 'kind': 'count', 'mode': mode_h, 'limit': N, 'lines': len(outs_h[0].split('\n')) - 1,
                             'witness': {'spec': heavy, 'limit': N, 'mode': mode_h}})
            if len(outs_h) == 2 and outs_h[0] != outs_h[1]:
                viol.append({'property': 'C16', 'kind': 'random-walk-not-reproducible', 'witness': {'spec': heavy, 'limit': N, 'mode': mode_h}})
    except Exception as e:
        viol.append({'property': 'C16', 'kind': 'walk-raised', 'error': repr(e)[:200], 'mode': 'markov-heavy', 'witness': {'spec': heavy, 'limit': 100}})
    # the program, on rulesets stored in one-byte encodings
    for k in range(len(ENC_SPECS)):
        for mode_c in (('random_walk',) if ctx.quick else ('random_walk', 'honeywords')):
            viol += cli_encoding_case(k, ctx.scale(24, 80), mode_c)
            cases += 1
            dist['cli_encoding_runs'] = dist.get('cli_encoding_runs', 0) + 1
    if ctx.driver_ok:
        out = common.run_driver(ops)
        for i, (a, b) in enumerate(zip(out, exp)):
            if a != b:
                disagreements.append({'stream': 'random_walk', 'op': ops[i][:200], 'model': a[:300], 'implementation': b[:300]})
                if len(disagreements) >= 5:
                    break
    else:
        disagreements.append({'stream': 'random_walk', 'detail': 'driver does not build'})
    return {'evaluations': cases, 'distinct_nontrivial': nontrivial, 'traces': cases,
            'rule': 'rulesets normalised like trainer output (lists sum to ~1 in floating point) or dyadic; random.random / random.choice '
                    'replaced by scripted draws: every running-sum breakpoint of the base list and of the group lists, its two float '
                    'neighbours, 0.0, 5e-324, 1-2^-53 and random values; the walk and the word are compared with the Lean sampler, the '
                    'word must be in the product of the selected groups; HoneywordSession runs with the real generator for count (N lines '
                    'for --limit N, both modes) and reproducibility (two random_walk runs identical). non-trivial = non-Markov walk with '
                    '>=2 positions',
            'samples': samples, 'disagreements': disagreements, 'violations': viol, 'distribution': dist,
            'extra': {'protocol_ops': len(ops)}}


def replay(ctx, payload):
    w = payload.get('violation', {}).get('witness') or {}
    if w.get('hash_seed_case'):
        return hash_seed_case()
    if 'enc_spec' in w:
        return cli_encoding_case(w['enc_spec'], w['limit'], w['mode'])
    if 'spec' not in w:
        return []
    common.use_impl()
    d = common.write_ruleset(os.path.join(common.scratch_dir('rules'), 'replay16'), w['spec'])
    pcfg = common.load_grammar(d, **(w.get('flags') or {}))
    out = []
    import corr_pq
    out += [dict(v_, property='C16') for v_ in corr_pq.oracle_base_vs_files(pcfg, w['spec'], 'C16') + corr_pq.oracle_loaded_vs_files(pcfg, w['spec'], w.get('flags') or {})]
    if w.get('queue_first'):
        before = [(b['prob'], tuple(b['replacements'])) for b in pcfg.base]
        q_ = corr_pq.fresh_queue(pcfg)
        q_.next()
        if [(b['prob'], tuple(b['replacements'])) for b in pcfg.base] != before:
            out.append({'kind': 'grammar-object-changed-by-session'})
    if 'us' in w:
        sc = Script([common.h2f(u) for u in w['us']] + [0.5] * 20, list(w['ks']) + [0] * 20)
        try:
            with scripted(sc), contextlib.redirect_stdout(io.StringIO()):
                item = pcfg.random_walk()
                pcfg.create_guesses(item['pt'], is_honeyword=True, limit=1)
        except Exception as e:
            out.append({'kind': 'walk-raised', 'error': repr(e)})
    elif 'limit' in w:
        from lib_guesser.honeyword_session import HoneywordSession
        buf = io.StringIO()
        try:
            with contextlib.redirect_stdout(buf), contextlib.redirect_stderr(io.StringIO()):
                HoneywordSession(pcfg, w.get('mode', 'random_walk')).run(limit=w['limit'])
            if len(buf.getvalue().split('\n')) - 1 != w['limit']:
                out.append({'kind': 'count'})
        except Exception as e:
            out.append({'kind': 'walk-raised', 'error': repr(e)})
    return out
