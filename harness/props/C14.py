"""C14 - skip_brute and all_lower are pure restrictions of the default run."""
import os

import common
import corr_loader as cl
import corr_pq
import corr_expand
import gen_omen
import gen_rulesets
from common import f2h

SITES = ['load_base', 'load_file', 'load_terminals', 'load_multi', 'load_grammar']
TRUSTED = ['Python float(): float(repr(x)) == x; IEEE division is correctly rounded (hence monotone)',
           'configparser round-trip of the session file (rule_info/skip_brute, skip_case as "True"/"False")',
           'the stream statement is exact over the rationals; over doubles pre-terminals whose probabilities differ only by '
           'rounding of the rescaling may swap (checked exactly on rulesets where 1-P(M) is a power of two)']
ASSUMPTIONS = ['grammar.txt lines are `structure<TAB>probability`; P(M) < 1 under --skip_brute (otherwise the loader refuses: division by zero)']


def stream_groups(pcfg, drop_markov):
    """[(prob, sorted pts)] of the true_prob_order run, consecutive equal probabilities merged"""
    pq = corr_pq.fresh_queue(pcfg)
    out = []
    while True:
        it = pq.next()
        if it is None:
            break
        if drop_markov and it['pt'] and it['pt'][0][0] == 'M':
            continue
        key = tuple(it['pt'])
        if out and out[-1][0] == it['prob']:
            out[-1][1].append(key)
        else:
            out.append((it['prob'], [key]))
        if len(out) > 5000:
            break
    return [(p, sorted(k)) for p, k in out]


def high_level_case(prop='C14'):
    """the program itself on a ruleset whose Markov levels include levels above 10 (a level is a sum of costs; the trainer lists 1..18):
    the default run goes through all of them and emits, beside the Markov strings, exactly what `--skip_brute` emits"""
    from collections import Counter
    # (the second letter of the alphabet is the space character: n-grams that begin and end with a blank)
    om = {'ngram': 2, 'alphabet': ['a', ' '], 'ip': [[0, 'a'], [1, ' ']], 'ep': [[0, 'a'], [0, ' ']],
          'cp': [[0, 'aa'], [10, 'a '], [10, ' a'], [10, '  ']], 'ln': [10, 0, 1, 1], 'keyspace': []}
    spec = {'terminals': {'D1': [['1', '0.5'], ['2', '0.25'], ['3', '0.125']], 'A2': [['ab', '0.5'], ['cd', '0.25']], 'C2': [['LL', '0.75'], ['UL', '0.25']]},
            'grammar': [['D1', '0.25'], ['M', '0.5'], ['A2D1', '0.25']],
            # (levels of strings whose transitions are all at the highest level: `bab` = 1 + 1 + 10 + 10, `abbb` = 1 + 0 + 10 + 10 + 10)
            'omen_prob': [['1', '0.5'], ['11', '0.25'], ['2', '0.125'], ['12', '0.0625'], ['10', '0.03125'], ['21', '0.015625'], ['22', '0.0078125'],
                          ['0', '0.00390625'], ['31', '0.001953125'], ['32', '0.0009765625']],
            'prince': [], 'mode': 'dyadic', 'encoding': 'utf-8', 'omen': om}
    name = 'c14high'
    common.install_ruleset(spec, name)
    o0, e0, rc0 = common.run_cli('pcfg_guesser.py', ['-r', name, '-s', 'c14high0'], stdin='pipe-open')
    o1, e1, rc1 = common.run_cli('pcfg_guesser.py', ['-r', name, '-s', 'c14high1', '--skip_brute'], stdin='pipe-open')
    d0, d1 = Counter(o0.decode().split('\n')[:-1]), Counter(o1.decode().split('\n')[:-1])
    markov = Counter()
    for lv, _ in spec['omen_prob']:
        markov.update(gen_omen.brute_level(om, int(lv)) or [])
    wit = {'high_level_case': True}
    # (exit codes and stderr say nothing here: the keyboard thread of a run without a terminal ends in its own way)
    if d0 - markov != d1 or not d1 or (d0 & markov) != markov:
        return [{'property': prop, 'kind': 'skip-brute-not-default-minus-markov', 'default_lines': sum(d0.values()), 'skip_brute_lines': sum(d1.values()),
                 'markov_strings': sum(markov.values()), 'only_in_default': list((d0 - markov - d1).items())[:4], 'only_in_skip_brute': list((d1 - d0).items())[:4],
                 'markov_missing': list((markov - d0).items())[:4],
                 'stderr_tail': e0.decode(errors='replace')[-200:], 'witness': wit}]
    return []


def run(ctx):
    rng = ctx.rng
    ops, exp, viol, samples, disagreements = ['ld.new'], ['ok'], [], [], []
    dist = {'markov_position': {}, 'malformed': 0, 'flags': {}}
    cases = nontrivial = 0
    root = common.scratch_dir('ld14')
    os.makedirs(os.path.join(root, 'Grammar'), exist_ok=True)
    # 1. loader correspondence on grammar.txt texts (valid and malformed)
    for i in range(ctx.scale(150, 2500)):
        mal = rng.random() < 0.35
        gt = cl.gen_grammar_text(rng, mal)
        with open(os.path.join(root, 'Grammar', 'grammar.txt'), 'w', newline='') as f:
            f.write(gt)
        pre = cl.float_ops(gt, universal=True) + cl.alpha_ops(gt)
        ops += pre
        exp += ['ok'] * len(pre)
        res = {}
        for sk in (0, 1):
            ops.append(f"ld.base {sk} " + cl.cps(gt))
            line, out = cl.real_load_base(root, bool(sk))
            exp.append(line)
            res[sk] = out
        cases += 1
        dist['malformed'] += int(mal)
        rows = [ln.split('\t') for ln in gt.split('\n') if ln]
        mpos = next((k for k, r in enumerate(rows) if r[0] == 'M'), None)
        key = 'none' if mpos is None else ('first' if mpos == 0 else ('last' if mpos == len(rows) - 1 else 'middle'))
        if len(rows) == 1 and mpos == 0:
            key = 'alone'
        dist['markov_position'][key] = dist['markov_position'].get(key, 0) + 1
        if not mal and len(rows) >= 2:
            nontrivial += 1
        # oracle on the implementation: skip = non-M of default, same order, prob = float(text)/(1-pM)
        if not mal and res[0] is not None:
            pm = float(rows[mpos][1]) if mpos is not None else 0.0
            total = 1.0 - pm if mpos is not None else 1.0
            if total == 0.0:
                if res[1] is not None:
                    viol.append({'property': 'C14', 'kind': 'skip-brute-zero-total-loaded', 'witness': {'grammar_text': gt}})
                continue
            # case insertion, computed independently: C<n> directly after every A<n>, nothing else added
            import re as _re
            def _reps(st):
                out = []
                for tok in _re.findall('[A-Z][0-9]*', st):
                    out.append(tok)
                    if tok[0] == 'A':
                        out.append('C' + tok[1:])
                return out
            for sk in (0, 1):
                if res[sk] is None:
                    continue
                wr = [_reps(r[0]) for r in rows if not (sk and r[0] == 'M')]
                gr = [list(b['replacements']) for b in res[sk]]
                if gr != wr:
                    viol.append({'property': 'C14', 'kind': 'case-insertion', 'skip_brute': bool(sk), 'got': str(gr)[:200], 'want': str(wr)[:200],
                                 'witness': {'grammar_text': gt}})
                    break
            want = [(f2h(float(r[1]) / total), r[0]) for r in rows if r[0] != 'M']
            got = None if res[1] is None else [(f2h(b['prob']), ''.join(x for x in b['replacements'] if not x.startswith('C'))) for b in res[1]]
            if got != want:
                kind = 'skip-brute-no-markov' if mpos is None else 'skip-brute-not-restriction'
                viol.append({'property': 'C14', 'kind': kind, 'got': str(got)[:200], 'want': str(want)[:200],
                             'witness': {'grammar_text': gt}})
    # 2. streams: skip_brute run = default run without Markov pre-terminals (exact when 1-P(M) is a power of two)
    rr = common.scratch_dir('rules')
    for i in range(ctx.scale(25, 300)):
        om = gen_omen.gen_omen(rng, ngram=2, nletters=2, maxlen_extra=1)
        spec = gen_rulesets.gen_ruleset(rng, omen=om, mode='dyadic', markov=False, max_structs=3, max_pos=3, allow_dup_struct=False)
        variant = rng.choice(['none', 'first', 'middle', 'last', 'alone'])
        if variant != 'none':
            pm = rng.choice(['0.5', '0.75', '0.875'])
            pos = {'first': 0, 'last': len(spec['grammar']), 'middle': len(spec['grammar']) // 2, 'alone': 0}[variant]
            if variant == 'alone':
                spec['grammar'] = []
            spec['grammar'].insert(pos, ['M', pm])
            spec['omen_prob'] = [['1', '0.25'], ['2', '0.125']]
        if i % 4 == 0:
            # the last record of the mask files (and of the last word file) is followed by an empty line: harmless to a file read on its
            # own, and the files read after it hold what they hold whether or not the mask files were opened at all (--all_lower)
            spec['blank_last_line'] = [t for t in spec['terminals'] if t[0] == 'C'] + sorted(t for t in spec['terminals'] if t[0] == 'A')[-1:]
        d = common.write_ruleset(os.path.join(rr, f"c14_{i % 10}"), spec)
        try:
            g0 = common.load_grammar(d)
            g1 = common.load_grammar(d, skip_brute=True)
            g2 = common.load_grammar(d, skip_case=True)
            diff_ = sorted(t for t in g0.grammar if t[0] != 'C' and g0.grammar[t] != g2.grammar.get(t))
            if diff_:
                viol.append({'property': 'C14', 'kind': 'all-lower-changes-other-lists', 'variables': diff_[:4],
                             'default': str(g0.grammar[diff_[0]])[:160], 'all_lower': str(g2.grammar.get(diff_[0]))[:160], 'witness': {'spec': spec}})
        except Exception as e:
            viol.append({'property': 'C14', 'kind': 'load-raised', 'error': repr(e)[:200], 'witness': {'spec': spec}})
            continue
        cases += 1
        dist['flags'][variant] = dist['flags'].get(variant, 0) + 1
        s0 = stream_groups(g0, drop_markov=True)
        s1 = stream_groups(g1, drop_markov=False)
        total = 1.0 - float(pm) if variant != 'none' else 1.0
        want = [(p / total, k) for p, k in s0]
        if [(f2h(p), k) for p, k in s1] != [(f2h(p), k) for p, k in want]:
            kind = 'skip-brute-no-markov' if variant == 'none' else 'skip-brute-stream'
            viol.append({'property': 'C14', 'kind': kind, 'variant': variant, 'lens': [len(s1), len(want)], 'witness': {'spec': spec}})
        # all_lower: every C list is the single all-lower mask with probability 1, everything else unchanged
        for name in g0.grammar:
            if name[0] == 'C':
                n = int(name[1:])
                if g2.grammar.get(name) != [{'values': ['L' * n], 'prob': 1.0}]:
                    viol.append({'property': 'C14', 'kind': 'all-lower-masks', 'name': name, 'witness': {'spec': spec}})
            elif g2.grammar.get(name) != g0.grammar[name]:
                viol.append({'property': 'C14', 'kind': 'all-lower-changed-other', 'name': name, 'witness': {'spec': spec}})
        if [(b['prob'], b['replacements']) for b in g2.base] != [(b['prob'], b['replacements']) for b in g0.base]:
            viol.append({'property': 'C14', 'kind': 'all-lower-changed-base', 'witness': {'spec': spec}})
        if len(samples) < 3 and variant != 'none':
            samples.append({'grammar': spec['grammar'], 'variant': variant, 'skip_stream_head': [(p, [str(x) for x in k][:2]) for p, k in s1[:3]]})
    # 2b. whatever the seed: the rescaled probability of the only non-Markov structure rounds to just above 1 (0.2 / (1.0 - 0.8) =
    # 1.0000000000000002, what a ruleset trained with coverage 0.2 holds) and its best terminals have probability 1: nothing may be
    # lost under any flag combination, whatever the queue thinks of a probability above 1
    fspec = {'terminals': {'A8': [['password', '1.0']], 'C8': [['LLLLLLLL', '0.75'], ['ULLLLLLL', '0.25']]},
             'grammar': [['M', '0.8'], ['A8', '0.2']], 'omen_prob': [['1', '0.25'], ['2', '0.125']], 'prince': [], 'mode': 'float', 'encoding': 'utf-8',
             'omen': gen_omen.gen_omen(rng, ngram=2, nletters=2, maxlen_extra=1)}
    fd = common.write_ruleset(os.path.join(rr, 'c14_above_one'), fspec)
    try:
        fk = {}
        for sb in (False, True):
            for sc in (False, True):
                fk[(sb, sc)] = [k for _, k in stream_groups(common.load_grammar(fd, skip_brute=sb, skip_case=sc), drop_markov=True)]
        cases += 1
        dist['rescaled_above_one'] = 1
        if fk[(True, False)] != fk[(False, False)] or fk[(True, True)] != fk[(False, True)] or not fk[(False, True)]:
            viol.append({'property': 'C14', 'kind': 'skip-brute-stream', 'variant': 'rescaled probability above 1',
                         'lens': {f"skip_brute={a},all_lower={b}": len(v) for (a, b), v in fk.items()}, 'witness': {'spec': fspec}})
    except Exception as e:
        viol.append({'property': 'C14', 'kind': 'load-raised', 'error': repr(e)[:200], 'witness': {'spec': fspec}})
    # 2c. whatever the seed: pre-terminals whose probabilities are different numbers within one part in a thousand million of each other
    # (0.1 and 0.10000000005); P(M) = 0.5, so the rescaling is exact: the skip_brute stream is the default stream without M, same order
    nspec = {'terminals': {'D1': [['7', '0.4'], ['3', '0.35'], ['1', '0.25']], 'D2': [['42', '0.4000000002'], ['12', '0.3499999999'], ['99', '0.2499999999']]},
             'grammar': [['M', '0.5'], ['D1', '0.25'], ['D2', '0.25']], 'omen_prob': [['1', '0.25'], ['2', '0.125']], 'prince': [], 'mode': 'near',
             'encoding': 'utf-8', 'omen': gen_omen.gen_omen(rng, ngram=2, nletters=2, maxlen_extra=1)}
    nd = common.write_ruleset(os.path.join(rr, 'c14_near'), nspec)
    try:
        s0n = stream_groups(common.load_grammar(nd), drop_markov=True)
        s1n = stream_groups(common.load_grammar(nd, skip_brute=True), drop_markov=False)
        cases += 1
        dist['near_tie_stream'] = 1
        if [(f2h(p * 2), k) for p, k in s0n] != [(f2h(p), k) for p, k in s1n] or len(s0n) != 6:
            viol.append({'property': 'C14', 'kind': 'skip-brute-stream', 'variant': 'near ties', 'default': [(repr(p), str(k)) for p, k in s0n][:6],
                         'skip_brute': [(repr(p), str(k)) for p, k in s1n][:6], 'witness': {'spec': nspec}})
    except Exception as e:
        viol.append({'property': 'C14', 'kind': 'load-raised', 'error': repr(e)[:200], 'witness': {'spec': nspec}})
    # 2d. the same with a Markov share that is not a power of two and near ties across four structures: the *order* of the non-Markov
    # pre-terminals is the same with and without the Markov items in the queue (dividing by 1 - P(M) is monotone)
    mspec = {'terminals': {'D1': [['1', '0.4'], ['2', '0.35'], ['3', '0.25']], 'D2': [['11', '0.50000000005'], ['22', '0.3'], ['33', '0.19999999995']],
                           'D3': [['111', '0.9999999998'], ['222', '0.0000000002']], 'O1': [['!', '0.6'], ['#', '0.4']]},
             'grammar': [['M', '0.4'], ['D1', '0.25'], ['D2', '0.2'], ['D3', '0.1'], ['O1', '0.05']], 'omen_prob': [['1', '0.25'], ['2', '0.125'], ['3', '0.0625']],
             'prince': [], 'mode': 'near', 'encoding': 'utf-8', 'omen': gen_omen.gen_omen(rng, ngram=2, nletters=2, maxlen_extra=1)}
    md = common.write_ruleset(os.path.join(rr, 'c14_near2'), mspec)
    try:
        k0 = [x for _, k in stream_groups(common.load_grammar(md), drop_markov=True) for x in k]
        k1 = [x for _, k in stream_groups(common.load_grammar(md, skip_brute=True), drop_markov=False) for x in k]
        cases += 1
        if k0 != k1 or len(k0) != 10:
            viol.append({'property': 'C14', 'kind': 'skip-brute-stream', 'variant': 'near ties, order only', 'default': [str(x) for x in k0][:10],
                         'skip_brute': [str(x) for x in k1][:10], 'witness': {'spec': mspec}})
    except Exception as e:
        viol.append({'property': 'C14', 'kind': 'load-raised', 'error': repr(e)[:200], 'witness': {'spec': mspec}})
    # 3. flags through save/restore (subprocess): run with the flag, then --load without it
    cli_runs = 0
    for i in range(ctx.scale(2, 8)):
        om = gen_omen.gen_omen(rng, ngram=2, nletters=2, maxlen_extra=1)
        spec = gen_rulesets.gen_ruleset(rng, omen=om, mode='dyadic', markov=True, max_structs=2, max_pos=2, max_groups=3, max_vals=2)
        # both flags must matter for this ruleset: a word variable with two masks of different probability, and a Markov structure
        spec['terminals'].setdefault('A2', [['ab', '0.5'], ['cd', '0.25']])
        spec['terminals']['C2'] = [['LL', '0.5'], ['UL', '0.25']]
        if not any(st == 'A2' for st, _ in spec['grammar']):
            spec['grammar'].append(['A2', '0.0625'])
        name = f"c14cli{i}"
        d = common.install_ruleset(spec, name)
        for fl in ([], ['--skip_brute'], ['--all_lower'], ['--skip_brute', '--all_lower']):
            # one session name for the three flag settings, one after the other: the save file of the previous setting is still there
            # when the next new session starts - what it holds must not decide anything
            sess = f"c14s{i}"
            o1, e1, rc1 = common.run_cli('pcfg_guesser.py', ['-r', name, '-s', sess] + fl, stdin='pipe-open')
            o2, e2, rc2 = common.run_cli('pcfg_guesser.py', ['-s', sess, '--load'], stdin='pipe-open')
            cli_runs += 2
            if o1 != o2:
                viol.append({'property': 'C14', 'kind': 'load-ignores-saved-flags', 'flags': fl,
                             'first_run_lines': o1.count(b'\n'), 'resumed_lines': o2.count(b'\n'),
                             'witness': {'spec': spec, 'cli': fl}})
            # a restored session runs with the flags of its save file, whatever is typed next to --load
            if ctx.quick and len(fl) == 2:
                continue
            cands = [x for x in (['--skip_brute'], ['--all_lower'], ['--skip_brute', '--all_lower']) if not set(x) <= set(fl)]
            if not cands:
                continue
            typed = rng.choice(cands)
            o3, e3, rc3 = common.run_cli('pcfg_guesser.py', ['-s', sess, '--load'] + typed, stdin='pipe-open')
            cli_runs += 1
            if o3 != o1:
                viol.append({'property': 'C14', 'kind': 'load-applies-typed-flags', 'saved_flags': fl, 'typed_with_load': typed,
                             'first_run_lines': o1.count(b'\n'), 'resumed_lines': o3.count(b'\n'),
                             'witness': {'spec': spec, 'cli': fl, 'typed': typed}})
        # two sessions on one ruleset whose names differ after the last dot only, started with different flags one after the other:
        # `--load` of the first one runs with the first one's flags
        if i == 0:
            oa, _, _ = common.run_cli('pcfg_guesser.py', ['-r', name, '-s', 'c14night.1', '--skip_brute', '--all_lower'], stdin='pipe-open')
            ob, _, _ = common.run_cli('pcfg_guesser.py', ['-r', name, '-s', 'c14night.2'], stdin='pipe-open')
            oc, _, _ = common.run_cli('pcfg_guesser.py', ['-s', 'c14night.1', '--load'], stdin='pipe-open')
            cli_runs += 3
            if oc != oa:
                viol.append({'property': 'C14', 'kind': 'load-ignores-saved-flags', 'flags': ['--skip_brute', '--all_lower'],
                             'history': 'another session (name differing after the last dot) was started in between',
                             'first_run_lines': oa.count(b'\n'), 'resumed_lines': oc.count(b'\n'), 'witness': {'spec': spec, 'cli': ['--skip_brute', '--all_lower'], 'dotted_names': True}})
    viol += high_level_case()
    cli_runs += 2
    cases += cli_runs
    if ctx.driver_ok:
        out = common.run_driver(ops)
        for i, (a, b) in enumerate(zip(out, exp)):
            if a != b:
                disagreements.append({'stream': 'load_base', 'op': ops[i][:200], 'model': a[:300], 'implementation': b[:300]})
                if len(disagreements) >= 5:
                    break
    else:
        disagreements.append({'stream': 'load_base', 'detail': 'driver does not build'})
    return {'evaluations': cases, 'distinct_nontrivial': nontrivial, 'traces': cases,
            'rule': 'grammar.txt texts (valid and a malformed stream: bad floats, missing fields, CR/CRLF ends, non-letter starts, '
                    'second M line, M first/middle/last/alone/absent, P(M)=1) loaded by the real _load_base_structures with and without '
                    'skip_brute and compared with the Lean loader; whole rulesets whose 1-P(M) is a power of two run to exhaustion in '
                    'default / skip_brute / all_lower mode and the pre-terminal streams compared group by group; subprocess runs: start '
                    'with flags, then --load without them. non-trivial = well-formed text with >=2 structures',
            'samples': samples, 'disagreements': disagreements, 'violations': viol, 'distribution': dist,
            'extra': {'cli_runs': cli_runs, 'protocol_ops': len(ops)}}


def replay(ctx, payload):
    if (payload.get('violation', {}).get('witness') or {}).get('high_level_case'):
        return high_level_case()
    w = payload.get('violation', {}).get('witness') or {}
    out = []
    if 'grammar_text' in w:
        root = common.scratch_dir('ld14r')
        os.makedirs(os.path.join(root, 'Grammar'), exist_ok=True)
        with open(os.path.join(root, 'Grammar', 'grammar.txt'), 'w', newline='') as f:
            f.write(w['grammar_text'])
        a = cl.real_load_base(root, False)[1]
        b = cl.real_load_base(root, True)[1]
        rows = [ln.split('\t') for ln in w['grammar_text'].split('\n') if ln]
        m = next((r for r in rows if r[0] == 'M'), None)
        total = 1.0 - float(m[1]) if m else 1.0
        want = [f2h(float(r[1]) / total) for r in rows if r[0] != 'M'] if total else None
        got = None if b is None else [f2h(x['prob']) for x in b]
        if got != want:
            out.append({'kind': 'skip-brute', 'got': got, 'want': want})
    elif 'cli' in w:
        d = common.install_ruleset(w['spec'], 'replay14')
        for fl0 in (['--skip_brute'], ['--all_lower'], ['--skip_brute', '--all_lower'], []):
            if fl0 != w['cli']:     # a save file of the same session name left by a run with another setting
                common.run_cli('pcfg_guesser.py', ['-r', 'replay14', '-s', 'replay14'] + fl0, stdin='pipe-open')
                break
        o1, _, _ = common.run_cli('pcfg_guesser.py', ['-r', 'replay14', '-s', 'replay14'] + w['cli'], stdin='pipe-open')
        o2, _, _ = common.run_cli('pcfg_guesser.py', ['-s', 'replay14', '--load'] + w.get('typed', []), stdin='pipe-open')
        if o1 != o2:
            out.append({'kind': 'load-applies-typed-flags' if w.get('typed') else 'load-ignores-saved-flags'})
    elif 'spec' in w:
        d = common.write_ruleset(os.path.join(common.scratch_dir('rules'), 'replay14'), w['spec'])
        g0 = common.load_grammar(d)
        g1 = common.load_grammar(d, skip_brute=True)
        if len(stream_groups(g1, False)) != len(stream_groups(g0, True)):
            out.append({'kind': 'skip-brute-stream'})
        g2 = common.load_grammar(d, skip_case=True)
        if any(t[0] != 'C' and g0.grammar[t] != g2.grammar.get(t) for t in g0.grammar):
            out.append({'kind': 'all-lower-changes-other-lists'})
    return out
