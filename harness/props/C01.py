from props import pq_shared
SITES = pq_shared.PQ_SITES + ['omen_save', 'calc_probs', 'save_counter', 'save_indexed']
TRUSTED = pq_shared.PQ_TRUSTED
ASSUMPTIONS = ['ruleset is well-formed: group probabilities non-increasing in file order, finite, non-negative']
def run(ctx): return pq_shared.run(ctx, 'C01')
def replay(ctx, payload): return pq_shared.replay(ctx, payload, 'C01')
