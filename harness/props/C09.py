"""C09 - stdout is exactly the guess stream, and --limit is exact."""
import os

import common
import corr_expand
import corr_pq
import gen_omen
import gen_rulesets
from props import C04

SITES = ['rec_guesses', 'omen_gen', 'create_guesses', 'print_guess', 'session_run', 'honey_run', 'restore_omen']
TRUSTED = ['what the OS does with the stdout pipe; print() appends exactly one newline',
           'static half: harness/tables.py finds every print / sys.stdout.write / traceback.print_exc call site by AST walk '
           '(a write through another API, e.g. os.write(1, ...) spelled differently, would be missed)']
ASSUMPTIONS = ['--limit is None or >= 1 (parse_command_line rejects other values)']


def in_process_stream(pcfg):
    """the unlimited true_prob_order stream, from the real queue and the real create_guesses"""
    pq = corr_pq.fresh_queue(pcfg)
    lines = []
    while True:
        item = pq.next()
        if item is None:
            break
        n, ls, raised = corr_expand.real_create(pcfg, item['pt'], None)
        lines += ls
        if len(lines) > 20000:
            break
    return lines


def cli_cases(ctx):
    rng = ctx.rng
    viol, samples = [], []
    runs = 0
    nrules = ctx.scale(2, 12)
    for i in range(nrules):
        om = gen_omen.gen_omen(rng, ngram=2, nletters=2, maxlen_extra=1)
        spec = gen_rulesets.gen_ruleset(rng, omen=om, max_structs=3, max_pos=3, max_groups=3, max_vals=3)
        name = f"v{i}"
        d = common.install_ruleset(spec, name)
        flagsets = [[], ['--skip_brute'], ['--all_lower']] if not ctx.quick else [rng.choice([[], ['--skip_brute'], ['--all_lower']])]
        for fl in flagsets:
            pcfg = common.load_grammar(d, skip_brute='--skip_brute' in fl, skip_case='--all_lower' in fl)
            full = in_process_stream(pcfg)
            if len(full) > 3000:
                continue
            out, err, rc = common.run_cli('pcfg_guesser.py', ['-r', name, '-s', f"s{i}"] + fl, stdin='pipe-open')
            runs += 1
            got = out.decode('utf-8', errors='replace').split('\n')
            if got and got[-1] == '':
                got.pop()
            if got != full:
                k = next((j for j, (a, b) in enumerate(zip(got, full)) if a != b), min(len(got), len(full)))
                viol.append({'property': 'C09', 'kind': 'stdout-not-guess-stream', 'first_difference': k,
                             'stdout_line': got[k:k + 2], 'expected': full[k:k + 2], 'lines': [len(got), len(full)],
                             'witness': {'spec': spec, 'cli': fl}})
                continue
            total = len(full)
            ns = {1, 2, total, total + 1, max(1, total - 1), rng.randint(1, max(1, total))}
            if not ctx.quick:
                ns.update(rng.randint(1, max(1, total)) for _ in range(6))
            for nlim in sorted(ns):
                out, err, rc = common.run_cli('pcfg_guesser.py', ['-r', name, '-s', f"s{i}", '-n', str(nlim)] + fl, stdin='pipe-open')
                runs += 1
                got = out.decode('utf-8', errors='replace').split('\n')
                if got and got[-1] == '':
                    got.pop()
                if got != full[:nlim]:
                    viol.append({'property': 'C09', 'kind': 'limit-not-prefix-cli', 'limit': nlim, 'lines': len(got), 'total': total,
                                 'witness': {'spec': spec, 'cli': fl + ['-n', str(nlim)]}})
            if len(samples) < 2:
                samples.append({'cli': fl, 'total_lines': total, 'limits': sorted(ns), 'first_lines': full[:5]})
    return viol, samples, runs


MODE_SPEC = {'terminals': {'D2': [['12', '0.5'], ['99', '0.25'], ['00', '0.25']], 'A3': [['abc', '0.5'], ['xyz', '0.5']],
                           'C3': [['LLL', '0.75'], ['ULL', '0.25']], 'O1': [['!', '0.5'], ['#', '0.5']]},
             'grammar': [['A3D2', '0.5'], ['D2O1', '0.25'], ['A3', '0.25']], 'omen_prob': [], 'prince': [], 'mode': 'dyadic', 'encoding': 'utf-8'}


def heavy_spec():
    """a ruleset whose probability mass is almost entirely the Markov structure: a honeyword walk that lands on it produces nothing and is
    repeated; the N words asked for still have to come (about N / 0.0005 walks)"""
    om = {'ngram': 2, 'alphabet': ['a', 'b'], 'ip': [[0, 'a']], 'ep': [[0, 'a'], [0, 'b']], 'cp': [[0, 'aa'], [1, 'ab'], [0, 'ba'], [1, 'bb']],
          'ln': [0, 0, 0], 'keyspace': []}
    return dict(MODE_SPEC, grammar=[['M', '0.9995'], ['A3D2', '0.00025'], ['D2O1', '0.00025']], omen_prob=[['1', '0.5'], ['2', '0.25']], omen=om)


def mode_option_case(args, name='modeopt', spec=None):
    """the other generation modes with every option that can stand next to them: stdout must be exactly N lines, each a word of the
    ruleset (nothing but guesses reaches stdout whatever the option combination)"""
    d = common.install_ruleset(spec or MODE_SPEC, name)
    pcfg = common.load_grammar(d)
    lang = set(in_process_stream(pcfg))
    n = int(args[args.index('-n') + 1])
    out, err, rc = common.run_cli('pcfg_guesser.py', ['-r', name] + args, stdin='pipe-open')
    got = out.decode('utf-8', errors='replace').split('\n')
    if got and got[-1] == '':
        got.pop()
    bad = [l for l in got if l not in lang]
    if '-d' in args:
        # --debug is documented as "prints out debugging info vs guesses": print_guess is switched off, nothing at all may reach stdout
        n = 0
    if len(got) != n or bad:
        return [{'property': 'C09', 'kind': 'stdout-not-guess-stream', 'lines': len(got), 'limit': n, 'not_guesses': bad[:3],
                 'witness': {'mode_args': args}}]
    return []


def refused_load_case(answer):
    """--load of a session whose ruleset was retrained in the meantime (another uuid): the program refuses; whatever is typed on its
    standard input, nothing but guesses may reach standard output - here: nothing at all"""
    name = 'refused'
    common.install_ruleset(MODE_SPEC, name)
    o1, e1, rc1 = common.run_cli('pcfg_guesser.py', ['-r', name, '-s', 'refused', '-n', '5'], stdin='pipe-open')
    common.install_ruleset(dict(MODE_SPEC, uuid='00000000-0000-0000-0000-0000000000aa'), name)
    o2, e2, rc2 = common.run_cli('pcfg_guesser.py', ['-s', 'refused', '--load', '-n', '5'], stdin='pipe-input-eof', input_bytes=answer)
    if o2 != b'':
        return [{'property': 'C09', 'kind': 'stdout-not-guess-stream', 'stdout_head': repr(o2[:80]), 'lines': o2.count(b'\n'),
                 'witness': {'refused_load_answer': answer.decode()}}]
    return []


def damaged_omen_case(which='CP.level'):
    """a ruleset whose PCFG part is sound while one OMEN level file went through a wrong transcoding (Latin-1 bytes, the config says
    utf-8): whatever the program makes of it - refuse the ruleset, or run - stdout under `-n N` is exactly min(N, unlimited) lines"""
    om = {'ngram': 2, 'alphabet': ['a', 'é'], 'ip': [[0, 'a'], [0, 'é']], 'ep': [[0, 'a'], [0, 'é']],
          'cp': [[0, 'aa'], [0, 'aé'], [0, 'éa'], [1, 'éé']], 'ln': [10, 1, 1], 'keyspace': []}
    spec = {'terminals': {'D2': [['12', '0.5'], ['34', '0.25'], ['56', '0.25']], 'A3': [['fox', '0.5'], ['dog', '0.5']], 'C3': [['LLL', '0.5'], ['ULL', '0.5']]},
            'grammar': [['M', '0.5'], ['A3D2', '0.25'], ['D2', '0.25']], 'omen_prob': [['1', '0.5'], ['2', '0.25']], 'prince': [], 'mode': 'dyadic',
            'encoding': 'utf-8', 'omen': om}
    name = 'c09damaged'
    d = common.install_ruleset(spec, name)
    path = os.path.join(d, 'Omen', which)
    raw = open(path, 'rb').read()
    open(path, 'wb').write(raw.decode('utf-8').encode('latin-1'))
    full, _, _ = common.run_cli('pcfg_guesser.py', ['-r', name], stdin='devnull')
    total = full.count(b'\n')
    viol, runs = [], 1
    for n in sorted({1, 2, 3, 5, 8, 13, max(total - 1, 1), total, total + 1, total + 7} | set(range(1, min(total, 40) + 1))):
        o, e, rc = common.run_cli('pcfg_guesser.py', ['-r', name, '-n', str(n)], stdin='devnull')
        runs += 1
        if o.count(b'\n') != min(n, total) or o != full[:len(o)]:
            viol.append({'property': 'C09', 'kind': 'limit-not-honoured', 'limit': n, 'lines': o.count(b'\n'), 'unlimited_lines': total,
                         'witness': {'damaged_omen_file': which}})
            break
    return viol, runs


def hash_seed_prefix_case():
    """`-n N` in one process against the unlimited run of another process (another interpreter hash seed): the first N lines - on a
    ruleset whose Markov part has several initial n-grams on one level, one of them without any continuation"""
    om = {'ngram': 3, 'alphabet': list('abcdefghijklxz'), 'ip': [[0, 'ab'], [0, 'cd'], [0, 'zz'], [0, 'ef'], [0, 'gh'], [0, 'ij'], [0, 'kl']],
          'ep': [[0, 'ab']], 'cp': [[0, g + 'x'] for g in ('ab', 'cd', 'ef', 'gh', 'ij', 'kl')], 'ln': [10, 10, 0], 'keyspace': []}
    spec = {'terminals': {'D2': [['12', '0.75'], ['34', '0.25']]}, 'grammar': [['D2', '0.5'], ['M', '0.5']], 'omen_prob': [['0', '0.5']], 'prince': [],
            'mode': 'dyadic', 'encoding': 'utf-8', 'omen': om}
    name = 'c09hash'
    common.install_ruleset(spec, name)
    full, _, _ = common.run_cli('pcfg_guesser.py', ['-r', name, '-s', 'c09hash'], stdin='devnull', env_extra={'PYTHONHASHSEED': '0'})
    total = full.count(b'\n')
    viol, runs = [], 1
    for hs in ('1', '2', '3', '7'):
        for n in (2, 4, 6):
            o, e, rc = common.run_cli('pcfg_guesser.py', ['-r', name, '-s', 'c09hash', '-n', str(n)], stdin='devnull', env_extra={'PYTHONHASHSEED': hs})
            runs += 1
            if o != b''.join(l + b'\n' for l in full.split(b'\n')[:min(n, total)]):
                viol.append({'property': 'C09', 'kind': 'limit-not-prefix', 'limit': n, 'hash_seed': hs, 'got': o.decode(errors='replace').split('\n')[:6],
                             'unlimited': full.decode(errors='replace').split('\n')[:6], 'witness': {'hash_seed_prefix_case': True}})
                return viol, runs
    return viol, runs


def mode_option_cases(ctx):
    viol, runs = [], 0
    for answer in ([b'y\n'] if ctx.quick else [b'y\n', b'n\n', b'']):
        viol += refused_load_case(answer)
        runs += 2
    combos = [['-m', 'random_walk', '-n', '6', '--load'], ['-m', 'honeywords', '-n', '5', '--load', '-s', 'other'],
              ['-m', 'random_walk', '-n', '4', '--all_lower', '--skip_brute']]
    if not ctx.quick:
        combos += [['-m', 'honeywords', '-n', '7', '-d'], ['-m', 'random_walk', '-n', '3', '-d', '--load', '--skip_brute'],
                   ['-m', 'honeywords', '-n', '1', '--load', '--all_lower']]
    for args in combos:
        viol += mode_option_case(args)
        runs += 1
    viol += mode_option_case(['-m', 'honeywords', '-n', '4'], name='modeheavy', spec=heavy_spec())
    runs += 1
    v_, r_ = hash_seed_prefix_case()
    viol += v_
    runs += r_
    for which in (['CP.level'] if ctx.quick else ['CP.level', 'IP.level', 'EP.level']):
        v_, r_ = damaged_omen_case(which)
        viol += v_
        runs += r_
    return viol, runs


def resumed_limit_cases(ctx):
    """--limit on a resumed session: a real session is quit after some guesses (its .sav then carries the counters of the
    first session), then resumed with limit N: exactly the first N lines of the unlimited resumed run"""
    import shutil
    import sched_session as ss
    from props import C12, C15
    rng = ctx.rng
    viol, runs = [], 0
    root = common.scratch_dir('rules')
    sdir = common.scratch_dir('sess')
    for i in range(ctx.scale(4, 30)):
        spec = C12.small_ruleset(rng, rich=i % 2 == 1)
        d = common.write_ruleset(os.path.join(root, f"c09s_{i % 5}"), spec)
        pcfg = common.load_grammar(d)
        units = ss.units_of(pcfg)
        if not C12.distinct_probs(units) or len(units) < 3:
            continue
        ui = rng.randrange(1, len(units) - 1)
        while not units[ui][2] and ui < len(units) - 2:
            ui += 1
        if not units[ui][2]:
            continue
        j = rng.randrange(len(units[ui][2]))
        sf = os.path.join(sdir, f"c09s_{i}.sav")
        for ext in ('.sav', '.omn'):
            if os.path.exists(sf[:-4] + ext):
                os.remove(sf[:-4] + ext)
        r1 = ss.run_session(pcfg, sf, C12.new_cfg(), False, C15.quit_schedule(units, ui, j), [('line', 'q', False)])
        if r1['state'] != 'exited' or not r1['out']:
            continue
        keep = {}
        for ext in ('.sav', '.omn'):
            if os.path.exists(sf[:-4] + ext):
                keep[ext] = open(sf[:-4] + ext, 'rb').read()

        def restore_files():
            for ext in ('.sav', '.omn'):
                pth = sf[:-4] + ext
                if ext in keep:
                    open(pth, 'wb').write(keep[ext])
                elif os.path.exists(pth):
                    os.remove(pth)
        big = 'm' * (sum(len(u[2]) + 2 for u in units) + 10)
        restore_files()
        ref = ss.run_session(pcfg, sf, C15.load_cfg(sf), True, big, [])['out']
        runs += 1
        g = len(r1['out'])
        for nlim in sorted({1, 2, max(1, g - 1), g, g + 1, len(ref), len(ref) + 3, rng.randint(1, max(1, len(ref)))}):
            restore_files()
            got = ss.run_session(pcfg, sf, C15.load_cfg(sf), True, big, [], limit=nlim)['out']
            runs += 1
            if got != ref[:nlim]:
                viol.append({'property': 'C09', 'kind': 'limit-not-prefix-after-load', 'limit': nlim, 'lines': len(got), 'want': min(nlim, len(ref)),
                             'first_session_guesses': g, 'witness': {'spec': spec, 'unit': ui, 'guess': j, 'limit': nlim}})
                break
    return viol, runs


def run(ctx):
    r = C04.run(ctx, 'C09')
    v2, runs2 = resumed_limit_cases(ctx)
    r['violations'] += v2
    r['evaluations'] += runs2
    r['extra']['resumed_limit_runs'] = runs2
    from props import C15 as _c15
    v4, runs4 = _c15.limited_resume_history('C09', (10 ** 6, 200))
    r['violations'] += v4
    r['evaluations'] += runs4
    viol, samples, runs = cli_cases(ctx)
    r['violations'] += viol
    r['samples'] = (r['samples'][:3] + samples)[:6]
    r['evaluations'] += runs
    r['extra']['cli_runs'] = runs
    v3, runs3 = mode_option_cases(ctx)
    r['violations'] += v3
    r['evaluations'] += runs3
    r['extra']['mode_option_runs'] = runs3
    r['rule'] += '; plus subprocess runs of pcfg_guesser.py in the snapshot (stdin = open pipe) whose stdout must equal, byte for byte, ' \
                 'the guess stream computed in-process, unlimited and with -n N for N around group boundaries and at random; plus real ' \
                 'sessions quit after some guesses and resumed (--load) with limit N around the first session\'s guess count'
    return r


def replay(ctx, payload):
    w = payload.get('violation', {}).get('witness') or {}
    if 'mode_args' in w:
        return mode_option_case(w['mode_args'], 'replaymode')
    if 'refused_load_answer' in w:
        return refused_load_case(w['refused_load_answer'].encode())
    if w.get('limited_resume_history'):
        from props import C15 as _c15
        common.use_impl()
        return _c15.limited_resume_history('C09', (w.get('limit', 10 ** 6),))[0]
    if w.get('hash_seed_prefix_case'):
        return hash_seed_prefix_case()[0]
    if 'damaged_omen_file' in w:
        return damaged_omen_case(w['damaged_omen_file'])[0]
    if 'cli' in w:
        name = 'replay'
        d = common.install_ruleset(w['spec'], name)
        fl = [x for x in w['cli'] if x in ('--skip_brute', '--all_lower')]
        pcfg = common.load_grammar(d, skip_brute='--skip_brute' in fl, skip_case='--all_lower' in fl)
        full = in_process_stream(pcfg)
        out, err, rc = common.run_cli('pcfg_guesser.py', ['-r', name, '-s', 'replay'] + w['cli'], stdin='pipe-open')
        got = out.decode('utf-8', errors='replace').split('\n')
        if got and got[-1] == '':
            got.pop()
        lim = None
        if '-n' in w['cli']:
            lim = int(w['cli'][w['cli'].index('-n') + 1])
        want = full if lim is None else full[:lim]
        return [] if got == want else [{'kind': 'stdout-differs', 'got': got[:5], 'want': want[:5]}]
    if 'unit' in w and 'limit' in w:
        import sched_session as ss
        from props import C12, C15
        d = common.write_ruleset(os.path.join(common.scratch_dir('rules'), 'replay09'), w['spec'])
        pcfg = common.load_grammar(d)
        units = ss.units_of(pcfg)
        sf = os.path.join(common.scratch_dir('sess'), 'replay09.sav')
        for ext in ('.sav', '.omn'):
            if os.path.exists(sf[:-4] + ext):
                os.remove(sf[:-4] + ext)
        ss.run_session(pcfg, sf, C12.new_cfg(), False, C15.quit_schedule(units, w['unit'], w['guess']), [('line', 'q', False)])
        keep = {ext: open(sf[:-4] + ext, 'rb').read() for ext in ('.sav', '.omn') if os.path.exists(sf[:-4] + ext)}
        big = 'm' * (sum(len(u[2]) + 2 for u in units) + 10)
        outs = []
        for lim in (None, w['limit']):
            for ext, data in keep.items():
                open(sf[:-4] + ext, 'wb').write(data)
            if '.omn' not in keep and os.path.exists(sf[:-4] + '.omn'):
                os.remove(sf[:-4] + '.omn')
            outs.append(ss.run_session(pcfg, sf, C15.load_cfg(sf), True, big, [], limit=lim)['out'])
        return [] if outs[1] == outs[0][:w['limit']] else [{'kind': 'limit-not-prefix-after-load', 'lines': len(outs[1]), 'want': min(w['limit'], len(outs[0]))}]
    return C04.replay(ctx, payload)
