"""Shared runner for C11 (levels agree) and C18 (keyspace = number of guesses)."""
import contextlib
import io
import os
from collections import Counter

import common
import corr_omen
from corr_omen import enc

LETTER_SETS = ['ab', 'abc', 'abcd1', 'aбя', 'xy1!', 'бя', 'a b', 'ab\u3000', ' ab', 'a"b', "a'b,", 'a\\b"']


def gen_training(rng, letters=None):
    letters = letters or rng.choice(LETTER_SETS)
    ngram = rng.choice([2, 2, 3, 3, 4, 5])
    mode = rng.choice(['mixed', 'mixed', 'len=ngram', 'single-length', 'at-max-length', 'wordlike', 'wordlike'])
    max_length = rng.choice([21, 21, ngram + 1, ngram + 3]) if mode != 'at-max-length' else rng.choice([ngram + 1, ngram + 2, ngram + 4])
    pws = []
    n = rng.randint(3, 25)
    for _ in range(n):
        if mode == 'len=ngram':
            ln = ngram if rng.random() < 0.8 else rng.randint(1, ngram + 2)
        elif mode == 'single-length':
            ln = ngram + 1
        elif mode == 'at-max-length':
            ln = rng.choice([max_length, max_length, max_length - 1, max_length + 1, ngram])
        else:
            ln = rng.randint(1, ngram + 3)
        pws.append(''.join(rng.choice(letters) for _ in range(ln)))
    if mode == 'wordlike':
        # skewed, word-like lists (shared stems, repeated syllables): sparse transition tables with dead ends
        syl = rng.sample(['ba', 'na', 'an', 'nd', 'ab', 'bb', 'a', 'n', 'b', 'da'], 5)
        pws = [''.join(rng.choice(syl) for _ in range(rng.randint(2, 4))) for _ in range(rng.randint(8, 20))]
        pws += [pws[0]] * rng.randint(0, 4)
    pws += pws[:rng.randint(0, len(pws))]
    if rng.random() < 0.3:
        pws.append('z' * (ngram + 1))          # a letter that may fall outside a small alphabet
    return pws, ngram, mode, max_length


def build(pws, ngram, alphabet_size=100, max_length=21):
    """real trainer objects after the three passes' OMEN part"""
    common.use_impl()
    from lib_trainer.omen.alphabet_generator import AlphabetGenerator
    from lib_trainer.omen.alphabet_lookup import AlphabetLookup
    ag = AlphabetGenerator(alphabet_size, ngram)
    for p in pws:
        ag.process_password(p)
    alphabet = ag.get_alphabet()
    al = AlphabetLookup(alphabet=alphabet, ngram=ngram, max_length=max_length)
    for p in pws:
        al.parse(p)
    with contextlib.redirect_stdout(io.StringIO()):
        al.apply_smoothing()
    return al, alphabet


def trainer_ops(al):
    ops = [f"ot.new {al.ngram}"]
    for key, data in al.grammar.items():
        toks = [f"ot.entry {enc(key)} {data['ip_level']}"]
        for ch, lv in data['next_letter'].items():
            toks.append(f"{ord(ch)} {lv[0]}")
        ops.append(' '.join(toks))
    for lv in al.ln_lookup:
        ops.append(f"ot.ln {lv[0]}")
    return ops


def count_line(al, alphabet):
    """the real AlphabetLookup after smoothing, in the driver's `oc.train` format"""
    es, lv = [], []
    for key, d in al.grammar.items():
        es.append(f"{enc(key)}:{d['ip_count']}:{d['ep_count']}:{d['cp_count']}:" + ','.join(f"{ord(c)}={v[1]}" for c, v in d['next_letter'].items()))
        lv.append(f"{enc(key)}:{d['ip_level']}:" + ','.join(f"{ord(c)}={v[0]}" for c, v in d['next_letter'].items()))
    return (f"a={enc(alphabet)} e={';'.join(es)} ln={','.join(str(x[1]) for x in al.ln_lookup)} tot={al.ip_counter},{al.ep_counter},{al.ln_counter} "
            f"lv={';'.join(lv)} lns={','.join(str(x[0]) for x in al.ln_lookup)}")


def save_rules(al, alphabet, keyspace, levels_count, n_valid, rd, ngram, encoding='utf-8'):
    from lib_trainer.omen.omen_file_output import save_omen_rules_to_disk
    info = {'encoding': encoding, 'ngram': ngram, 'alphabet': alphabet}
    with contextlib.redirect_stdout(io.StringIO()):
        return save_omen_rules_to_disk(al, keyspace, levels_count, n_valid, rd, info)


def candidates(rng, pws, alphabet, ngram, max_length=21):
    out = list(dict.fromkeys(pws))
    for p in pws[:10]:
        if p:
            k = rng.randrange(len(p))
            out.append(p[:k] + rng.choice(alphabet + 'Q') + p[k + 1:])
            out.append(p + rng.choice(alphabet))
            out.append(p[:-1])
    # suffixes of training passwords: they start with an n-gram that (mostly) never starts a password - initial level 10 -
    # while all their transitions were seen often
    for p in pws[:12]:
        for k in (1, 2, 3):
            if len(p) - k >= ngram:
                out.append(p[k:])
    for ln in (ngram - 1, ngram, ngram + 1, 21, 22, max_length - 1, max_length, max_length + 1):
        if ln > 0:
            out.append(''.join(rng.choice(alphabet) for _ in range(ln)))
    return list(dict.fromkeys(out))
