"""Type-directed generator of synthetic rulesets (spec dicts for common.write_ruleset).

Every random choice comes from the `random.Random` passed in.  Probabilities are kept as *text*
exactly as they would stand in a ruleset file."""
import itertools

# `denİzİ`: U+0130 stays as it is in a stored word (its lower-casing is two code points; the trainer keeps the length, fix 1bd5a0b) -
# a value the guesser must neither lower-case on loading nor touch under an `L` of a mask
ALPHA_POOL = ['abcdefghij', 'klmnopqrst', 'uvwxyzåäö', 'абвгдежзик', 'αβγδεζηθικ', 'aßeŉoﬁuǰsς', 'straße', 'denİzİab']
DIGITS = '0123456789'
OTHERS = ['!', '@', '#', '$', '%', ' ', '_', '-', '.', '€', '😀', '*', '+']
CONTEXT = ['#1', ';p', ':p', '*0*', '<3', 'n1', 'c#', '#2pac', 'h8', '2pac', '1+1']
KEYBOARD = ['1qaz', 'qwe1', '2wsx', 'zaq1', '1q2w', 'asd3', '3edc4']
YEARS = ['1999', '2000', '2012', '1987', '2024', '1950']

DYADIC = ['0.5', '0.25', '0.125', '0.0625', '0.03125']
TINY = ['1e-200', '5e-324', '1e-300', '2.2250738585072014e-308', '1e-160', '0.0']
# distinct doubles closer together than any sensible tolerance (1 ulp apart, or both far below 2**-52)
# distinct probabilities inside the tolerances a "tidy" comparison or a rounding might use (relative 1e-6, 1e-9, 1e-12): they are
# different numbers, to be ordered, grouped and saved as such
NEAR = ['0.4000000002', '0.4', '0.3999999', '0.3499999999', '0.2999999999999', '0.3', '0.2000001', '0.2', '0.10000000001', '0.1', '0.09999999998']
CLOSE = ['0.30000000000000004', '0.3', '0.10000000000000002', '0.1', '0.09999999999999999', '3e-17', '2e-17', '1e-17']


def _strictly_decreasing_probs(rng, n, mode):
    """n distinct probability texts, in non-increasing numeric order (groups are maximal runs of
    equal probability, so the group probabilities of one list are strictly decreasing)"""
    if mode == 'dyadic':
        pool = DYADIC
    elif mode == 'tiny':
        pool = DYADIC[:2] + TINY
    elif mode == 'close':
        pool = DYADIC[:1] + CLOSE
    elif mode == 'near':
        pool = DYADIC[:1] + NEAR
    elif mode == 'float':
        pool = None
    else:
        raise ValueError(mode)
    if pool is not None:
        vals = sorted({float(p): p for p in pool}.items(), reverse=True)
        k = min(n, len(vals))
        chosen = sorted(rng.sample(range(len(vals)), k))
        return [vals[i][1] for i in chosen]
    xs = sorted({rng.choice([rng.random(), rng.random() * 1e-3, rng.random() ** 8]) for _ in range(n)}, reverse=True)
    return [repr(x) for x in xs]


def _values(rng, cat, length, count, used):
    out = []
    tries = 0
    while len(out) < count and tries < 200:
        tries += 1
        if cat == 'A':
            pool = rng.choice(ALPHA_POOL)
            v = ''.join(rng.choice(pool) for _ in range(length))
        elif cat == 'D':
            v = ''.join(rng.choice(DIGITS) for _ in range(length))
        elif cat == 'O':
            v = ''.join(rng.choice(OTHERS) for _ in range(length))
        elif cat == 'C':
            v = ''.join(rng.choice('UL') for _ in range(length))
        elif cat == 'K':
            v = rng.choice(KEYBOARD)[:length].ljust(length, '1')
            # keyboard walks keep their own capitalisation (no mask applies to them): `1QAZ` and `1qaz` are two terminals
            if rng.random() < 0.4:
                v = v.upper() if rng.random() < 0.5 else v[:1] + v[1:].upper()
        elif cat == 'Y':
            v = rng.choice(YEARS)
        elif cat == 'X':
            v = rng.choice(CONTEXT)
        else:
            raise ValueError(cat)
        if v not in used:
            used.add(v)
            out.append(v)
    return out


def gen_terminal_list(rng, cat, length, max_groups, max_vals, mode):
    ngroups = rng.randint(1, max_groups)
    probs = _strictly_decreasing_probs(rng, ngroups, mode)
    used = set()
    items = []
    for p in probs:
        nv = rng.randint(1, max_vals)
        vals = _values(rng, cat, length, nv, used)
        for v in vals:
            items.append([v, p])
    if items and cat == 'O' and rng.random() < 0.2:
        # U+FEFF is an ordinary character of a value: as the first character of the first line of a file it must not be taken
        # for a byte order mark
        v = '\ufeff' + items[0][0][1:]
        if v not in used:
            used.add(v)
            items[0][0] = v
    if not items:
        items.append([_values(rng, cat, length, 1, set())[0] if cat not in 'C' else 'L' * length, probs[0]])
    return items


TYPE_POOL = [('A', 1), ('A', 2), ('A', 3), ('A', 4), ('D', 1), ('D', 2), ('D', 3), ('O', 1), ('O', 2),
             ('K', 4), ('Y', 1), ('X', 1), ('A', 10), ('A', 12), ('D', 11)]


def gen_ruleset(rng, max_structs=4, max_pos=4, max_groups=4, max_vals=3, mode=None, markov=None,
                encoding='utf-8', omen=None, allow_dup_struct=True, markov_levels=None):
    """returns a spec for common.write_ruleset"""
    if mode is None:
        mode = rng.choice(['dyadic', 'dyadic', 'float', 'tiny', 'close', 'near'])
    if markov is None:
        markov = rng.random() < 0.3
    nstruct = rng.randint(1, max_structs)
    types = {}
    structs = []
    for _ in range(nstruct):
        npos = rng.randint(1, max_pos)
        parts = []
        for _ in range(npos):
            if parts and rng.random() < 0.35:
                t = rng.choice(parts)          # repeat a variable type inside one structure
            else:
                t = rng.choice(TYPE_POOL)
            parts.append(t)
        for t in parts:
            types.setdefault(t, None)
        structs.append(''.join(f"{c}{n}" for c, n in parts))
    if allow_dup_struct and nstruct > 1 and rng.random() < 0.1:
        structs.append(rng.choice(structs))
    terminals = {}
    for (c, n) in types:
        single = rng.random() < 0.25            # single-entry variable
        terminals[f"{c}{n}"] = gen_terminal_list(rng, c, n, 1 if single else max_groups, 1 if single else max_vals, mode)
        if c == 'A':
            terminals[f"C{n}"] = gen_terminal_list(rng, 'C', n, max_groups, 2, mode)
    if mode == 'float':
        bps = [repr(rng.random()) for _ in structs]
    else:
        pool = DYADIC if mode == 'dyadic' else (DYADIC[:2] + CLOSE[:5] if mode == 'close' else (DYADIC[:2] if mode == 'near' else DYADIC[:2] + TINY[:3]))
        bps = [rng.choice(pool) for _ in structs]
    grammar = [[s, p] for s, p in zip(structs, bps)]
    omen_prob = []
    if markov:
        pos = rng.randint(0, len(grammar))
        grammar.insert(pos, ['M', rng.choice(DYADIC)])
        # deep OMEN levels have probabilities (level share / keyspace) far below 2**-52: distinct values closer than any tolerance
        lv = _strictly_decreasing_probs(rng, rng.randint(1, 3), 'near' if mode == 'near' else ('close' if (mode == 'close' or rng.random() < 0.15) else 'dyadic'))
        levels = rng.sample(range(1, 6), len(lv)) if not markov_levels else rng.sample(markov_levels, min(len(lv), len(markov_levels)))
        lv = lv[:len(levels)]
        omen_prob = [[str(l), p] for l, p in zip(levels, lv)]
    spec = {'encoding': encoding, 'terminals': terminals, 'grammar': grammar, 'omen_prob': omen_prob,
            'prince': [], 'mode': mode}
    if omen is not None:
        spec['omen'] = omen
    # a ruleset whose config lists a left-over file of an earlier training for a variable ahead of the current one
    if rng.random() < 0.15:
        names = [t for t in sorted(terminals) if t[0] not in 'XY']
        if names:
            t = rng.choice(names)
            spec['decoy_files'] = {t: gen_terminal_list(rng, t[0], int(t[1:]), max_groups, max_vals if t[0] != 'C' else 2, mode)}
    # ... or names one file twice in a section's list
    if rng.random() < 0.15:
        names = [t for t in sorted(terminals) if t[0] not in 'XY']
        if names:
            spec['listed_twice'] = [rng.choice(names)]
    # a ruleset touched by hand or by another tool: the last record of some files is not followed by a newline
    if rng.random() < 0.2:
        names = sorted(terminals) + ['grammar'] + (['omen_prob'] if omen_prob else [])
        spec['no_final_newline'] = sorted(rng.sample(names, rng.randint(1, len(names))))
    return spec


def grid_of(pcfg):
    """what the next function reads of a loaded PcfgGrammar: per base structure the base probability
    and the column of group probabilities of every position"""
    out = []
    for base in pcfg.base:
        cols = [[g['prob'] for g in pcfg.grammar[r]] for r in base['replacements']]
        out.append((base['prob'], cols, tuple(base['replacements'])))
    return out


def all_nodes(grid):
    for b, (bp, cols, reps) in enumerate(grid):
        for idx in itertools.product(*[range(len(c)) for c in cols]):
            yield b, idx
