"""Trace validation of the real PcfgQueue against the Lean model (C01, C02, C08, C17) and the
property-level oracles evaluated on the implementation's own output."""
import configparser
import io
import contextlib
import os
from collections import Counter

import common
from common import f2h
import gen_rulesets


def _sig_table(grid):
    sigs = {}
    out = []
    for bp, cols, reps in grid:
        key = (reps, f2h(bp))
        sigs.setdefault(key, len(sigs))
        out.append(sigs[key])
    return sigs, out


def _item_str(sigs, item):
    reps = tuple(t for t, _ in item['pt'])
    sig = sigs.get((reps, f2h(item['base_prob'])), 999999)
    idx = ','.join(str(i) for _, i in item['pt']) or '-'
    return f"{sig}:{idx}:{f2h(item['prob'])}"


def _queue_line(sigs, pq):
    return ' '.join(['q'] + sorted(_item_str(sigs, qi.pt_item) for qi in pq.p_queue))


def struct_ops(grid):
    sigs, sig_of = _sig_table(grid)
    ops = ['pq.new']
    for (bp, cols, reps), sig in zip(grid, sig_of):
        toks = ['pq.struct', str(sig), f2h(bp), str(len(cols))]
        for c in cols:
            toks.append(str(len(c)))
            toks.extend(f2h(p) for p in c)
        ops.append(' '.join(toks))
    return sigs, ops


def find_prob_py(grid_entry, idx):
    bp, cols, _ = grid_entry
    p = bp
    for c, i in zip(cols, idx):
        p *= c[i]
    return p


def run_to_exhaustion(pq, sigs, ops, exp, max_steps):
    """drive the real queue; append protocol ops / expected answers; return emitted items"""
    emitted = []
    for _ in range(max_steps):
        item = pq.next()
        if item is None:
            ops.append('pq.empty')
            exp.append('empty')
            return emitted, True
        emitted.append(item)
        s = _item_str(sigs, item)
        sig, idx, prob = s.split(':')
        ops.append(f"pq.pop {sig} {idx} {prob}")
        exp.append('ok ' + _queue_line(sigs, pq))
    return emitted, False


def node_key(item):
    return (tuple(t for t, _ in item['pt']), f2h(item['base_prob']), tuple(i for _, i in item['pt']))


def expected_nodes(grid):
    c = Counter()
    for b, idx in gen_rulesets.all_nodes(grid):
        bp, cols, reps = grid[b]
        c[(reps, f2h(bp), tuple(idx))] += 1
    return c


def has_parent_tie(grid, limit=4000):
    """is there a node with two parents of exactly equal probability (the tie-break matters)"""
    n = 0
    for b, idx in gen_rulesets.all_nodes(grid):
        n += 1
        if n > limit:
            break
        ps = []
        for k, i in enumerate(idx):
            if i > 0:
                j = list(idx)
                j[k] -= 1
                ps.append(find_prob_py(grid[b], j))
        if len(ps) != len(set(ps)):
            return True
    return False


def fresh_queue(pcfg, save=None):
    from lib_guesser.priority_queue import PcfgQueue
    err = io.StringIO()
    with contextlib.redirect_stderr(err):
        return PcfgQueue(pcfg, save)


def save_config_for(max_prob, min_prob=0.0):
    cfg = configparser.ConfigParser()
    cfg.add_section('guessing_info')
    cfg.set('guessing_info', 'min_probability', str(min_prob))
    cfg.set('guessing_info', 'max_probability', str(max_prob))
    return cfg


_SAVE_SEQ = [0]


def saved_config_through_real_path(pcfg, m):
    """the session's own save path: PcfgQueue.update_save_config writes the position, the config is written
    to a file and read back the way pcfg_guesser.load_save does"""
    pqx = fresh_queue(pcfg)
    pqx.max_probability = m
    cfg = configparser.ConfigParser()
    cfg.add_section('guessing_info')
    pqx.update_save_config(cfg)
    _SAVE_SEQ[0] += 1
    path = os.path.join(common.scratch_dir('savefiles'), f"s{_SAVE_SEQ[0] % 8}.sav")
    with open(path, 'w') as f:
        cfg.write(f)
    back = configparser.ConfigParser()
    with open(path) as f:
        back.read_file(f)
    return back


def oracle_full_run(grid, emitted, complete):
    """C01 + C02 predicates on the implementation's own emitted sequence"""
    v = []
    probs = [it['prob'] for it in emitted]
    for a, (x, y) in enumerate(zip(probs, probs[1:])):
        if y > x:
            v.append({'property': 'C01', 'kind': 'order', 'at': a + 1, 'prev': f2h(x), 'next': f2h(y)})
            break
    by = {}
    for b, (bp, cols, reps) in enumerate(grid):
        by.setdefault((reps, f2h(bp)), b)
    for it in emitted:
        key = (tuple(t for t, _ in it['pt']), f2h(it['base_prob']))
        b = by.get(key)
        if b is None:
            v.append({'property': 'C01', 'kind': 'unknown-structure', 'item': str(it)})
            break
        p = find_prob_py(grid[b], [i for _, i in it['pt']])
        if f2h(p) != f2h(it['prob']):
            v.append({'property': 'C01', 'kind': 'prob-not-product', 'item': str(it), 'product': f2h(p)})
            break
    if complete:
        got = Counter(node_key(it) for it in emitted)
        want = expected_nodes(grid)
        if got != want:
            missing = list((want - got).items())[:3]
            extra = list((got - want).items())[:3]
            v.append({'property': 'C02', 'kind': 'multiset', 'missing': str(missing), 'repeated_or_extra': str(extra)})
    return v


def oracle_resume(grid, m, resumed, complete):
    """C08 on one resumed run: exactly the nodes with probability <= m, each once, in order"""
    v = []
    probs = [it['prob'] for it in resumed]
    for a, (x, y) in enumerate(zip(probs, probs[1:])):
        if y > x:
            v.append({'property': 'C08', 'kind': 'order', 'at': a + 1})
            break
    if any(p > m for p in probs):
        v.append({'property': 'C08', 'kind': 'above-saved-position', 'm': f2h(m)})
    if complete:
        got = Counter(node_key(it) for it in resumed)
        want = Counter()
        for b, idx in gen_rulesets.all_nodes(grid):
            bp, cols, reps = grid[b]
            if find_prob_py(grid[b], idx) <= m:
                want[(reps, f2h(bp), tuple(idx))] += 1
        if got != want:
            lost = list((want - got).items())[:3]
            rep = list((got - want).items())[:3]
            v.append({'property': 'C08', 'kind': 'resume-multiset', 'm': f2h(m), 'lost': str(lost), 'repeated': str(rep)})
    return v


def grid_size(grid):
    n = 0
    for bp, cols, reps in grid:
        k = 1
        for c in cols:
            k *= len(c)
        n += k
    return n


def oracle_loaded_vs_files(pcfg, spec, flags):
    """C01 speaks of the ruleset's probabilities, not of what the loader made of them: every variable's groups must be the
    maximal runs of equal probability of its file, with exactly the file's probability (computed here from the spec text,
    independently of the loader)"""
    import itertools
    v = []
    for name, groups in pcfg.grammar.items():
        if name == 'M':
            items = spec.get('omen_prob') or []
        elif name[0] == 'C' and flags.get('skip_case'):
            n = int(name[1:])
            got = [(g['prob'], list(g['values'])) for g in groups]
            if got != [(1.0, ['L' * n])]:
                v.append({'property': 'C01', 'kind': 'all-lower-mask-list-not-single-lower-mask', 'variable': name, 'loaded': str(got)[:200],
                          'values_differ': sorted(x for _, vals in got for x in vals) != ['L' * n]})
                break
            continue
        else:
            items = spec['terminals'].get(name)
        if items is None:
            continue
        want = [(float(p), [x for x, _ in grp]) for p, grp in itertools.groupby(items, key=lambda it: it[1])]
        merged = []
        for p, vals in want:                      # equal floats written with different texts
            if merged and merged[-1][0] == p:
                merged[-1][1].extend(vals)
            else:
                merged.append((p, list(vals)))
        got = [(g['prob'], [str(x) for x in g['values']]) for g in groups]
        if name == 'M':
            got = [(g['prob'], [str(x) for x in g['values']]) for g in groups]
            merged = [(p, [str(x) for x in vals]) for p, vals in merged]
        if [(f2h(p), vals) for p, vals in got] != [(f2h(p), vals) for p, vals in merged]:
            v.append({'property': 'C01', 'kind': 'loaded-groups-differ-from-file', 'variable': name,
                      'values_differ': sorted(x for _, vals in got for x in vals) != sorted(x for _, vals in merged for x in vals),
                      'file': [(repr(p), vals[:4]) for p, vals in merged][:6], 'loaded': [(repr(p), vals[:4]) for p, vals in got][:6]})
            break
    return v


def oracle_base_vs_files(pcfg, spec, prop):
    """default load (no flags): the base structures are the lines of grammar.txt, in order, with their probabilities, each
    tokenised into its labels with a `C<n>` directly after every `A<n>` - computed here from the spec, not from the loader"""
    import re
    want = []
    for st, p in spec['grammar']:
        reps = []
        for tok in re.findall('[A-Z][0-9]*', st):
            reps.append(tok)
            if tok[0] == 'A':
                reps.append('C' + tok[1:])
        want.append((reps, f2h(float(p))))
    got = [(list(b['replacements']), f2h(b['prob'])) for b in pcfg.base]
    if got != want:
        k = next((i for i, (a, b) in enumerate(zip(got, want)) if a != b), min(len(got), len(want)))
        return [{'property': prop, 'kind': 'loaded-base-structures-differ-from-file', 'index': k,
                 'loaded': str(got[k:k + 1]), 'file': str(want[k:k + 1])}]
    return []


def oracle_structures_vs_files(pcfg, spec, flags):
    """C02 speaks of the pre-terminals of the *grammar* (the ruleset), not of what the loader made of grammar.txt: whatever the
    flags, the loaded base structures must be the lines of grammar.txt in order (without the Markov line under skip_brute), each
    tokenised into its labels with a `C<n>` directly after every `A<n>` - also when a variable occurs twice in one structure.
    Computed from the spec text, independently of the loader."""
    import re
    want = []
    lines = spec['prince'] if flags.get('folder') == 'Prince' else spec['grammar']      # PRINCE-LING reads Prince/grammar.txt
    for st, _p in lines:
        if st == 'M' and flags.get('skip_brute'):
            continue
        reps = []
        for tok in re.findall('[A-Z][0-9]*', st):
            reps.append(tok)
            if tok[0] == 'A':
                reps.append('C' + tok[1:])
        want.append(reps)
    got = [list(b['replacements']) for b in pcfg.base]
    if got != want:
        k = next((i for i, (a, b) in enumerate(zip(got, want)) if a != b), min(len(got), len(want)))
        return [{'property': pr, 'kind': 'loaded-base-structures-differ-from-file', 'index': k,
                 'loaded': str(got[k:k + 1]), 'file': str(want[k:k + 1])} for pr in ('C02', 'C01')]
    # ... and their probabilities: the file's, or under skip_brute the file's divided by 1 - P(first M line) - one factor for all
    # structures, wherever the M line stands
    total = 1.0
    if flags.get('skip_brute'):
        m = next((float(p) for st, p in lines if st == 'M'), None)
        if m is not None:
            total = 1.0 - m
    wantp = [float(p) / total for st, p in lines if not (st == 'M' and flags.get('skip_brute'))]
    gotp = [b['prob'] for b in pcfg.base]
    if [f2h(x) for x in gotp] != [f2h(x) for x in wantp]:
        k = next((i for i, (a, b) in enumerate(zip(gotp, wantp)) if f2h(a) != f2h(b)), 0)
        return [{'property': pr, 'kind': 'loaded-base-probability-differs-from-file', 'index': k, 'loaded': repr(gotp[k]), 'file': repr(wantp[k]),
                 'skip_brute': bool(flags.get('skip_brute'))} for pr in ('C01', 'C14')]
    return []


def run_case(ruledir, flags, cuts_rng=None, ncuts=0, max_nodes=600, all_cuts=False, spec=None):
    """one ruleset directory -> protocol ops, expected answers, oracle verdicts, statistics"""
    pcfg = common.load_grammar(ruledir, **flags)
    grid = gen_rulesets.grid_of(pcfg)
    size = grid_size(grid)
    if size > max_nodes:
        return None
    sigs, ops = struct_ops(grid)
    exp = ['ok'] * len(ops)
    pq = fresh_queue(pcfg)
    ops.append('pq.init')
    exp.append(_queue_line(sigs, pq))
    emitted, complete = run_to_exhaustion(pq, sigs, ops, exp, size + 5)
    viol = oracle_full_run(grid, emitted, complete)
    if spec is not None:
        viol += oracle_loaded_vs_files(pcfg, spec, flags)
        viol += oracle_structures_vs_files(pcfg, spec, flags)
    # determinism: a second run gives the same sequence
    pq2 = fresh_queue(pcfg)
    second = []
    while True:
        it = pq2.next()
        if it is None:
            break
        second.append(it)
        if len(second) > size + 5:
            break
    if [(_item_str(sigs, a)) for a in emitted] != [(_item_str(sigs, a)) for a in second]:
        viol.append({'property': 'C01', 'kind': 'nondeterministic'})
    stats = {'nodes': size, 'structures': len(grid), 'max_positions': max((len(c) for _, c, _ in grid), default=0),
             'parent_tie': has_parent_tie(grid), 'emitted': len(emitted),
             'equal_neighbours': sum(1 for a, b in zip(emitted, emitted[1:]) if a['prob'] == b['prob']),
             'cuts': 0}
    # resume from cut points
    if emitted and (ncuts or all_cuts):
        ks = list(range(len(emitted)))
        if not all_cuts:
            ks = sorted(cuts_rng.sample(ks, min(ncuts, len(ks))))
        for k in ks:
            m = emitted[k]['prob']
            cfg = saved_config_through_real_path(pcfg, m)
            pqr = fresh_queue(pcfg, cfg)
            ops.append(f"pq.restore {f2h(m)} {f2h(0.0)}")
            exp.append(_queue_line(sigs, pqr))
            resumed, comp = run_to_exhaustion(pqr, sigs, ops, exp, size + 5)
            for x in oracle_resume(grid, m, resumed, comp):
                x['cut'] = k
                viol.append(x)
            stats['cuts'] += 1
    return {'ops': ops, 'expected': exp, 'violations': viol, 'stats': stats}
