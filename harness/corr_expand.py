"""Correspondence of the real create_guesses with the Lean expansion model (C04, C09 limit) and an
independent product-of-groups oracle."""
import contextlib
import io
import itertools

import common
import corr_omen
from corr_omen import enc


def grammar_ops(pcfg, om=None):
    ops = ['exp.new']
    uppers = set()
    for name, groups in pcfg.grammar.items():
        ops.append(f"exp.section {name}")
        for g in groups:
            ops.append(' '.join([f"exp.group {name}"] + [enc(v) for v in g['values']]))
            if name[0] == 'A':
                for v in g['values']:
                    uppers.update(v)
    for c in sorted(uppers):
        if c.upper() != c:
            ops.append(f"exp.upper {ord(c)} {enc(c.upper())}")
    if om is not None:
        ops += corr_omen.omen_ops(om)
    return ops


def real_create(pcfg, pt, limit):
    buf = io.StringIO()
    err = io.StringIO()
    try:
        with contextlib.redirect_stdout(buf), contextlib.redirect_stderr(err):
            n = pcfg.create_guesses(pt, limit=limit)
        raised = False
    except Exception:
        n, raised = None, True
    text = buf.getvalue()
    lines = text.split('\n')
    if lines and lines[-1] == '':
        lines.pop()
    return n, lines, raised


def expected_line(n, lines, raised):
    return ' '.join([('n=E' if raised else f"n={n}"), f"err={1 if raised else 0}"] + [enc(l) for l in lines])


def product_oracle(pcfg, pt):
    """independent expansion: one value per group, in order; a mask rewrites the tail of what has
    been built so far.  Returns None for Markov pre-terminals."""
    if any(t[0] == 'M' for t, _ in pt):
        return None
    groups = [pcfg.grammar[t][i]['values'] for t, i in pt]
    out = []
    for choice in itertools.product(*groups):
        s = ''
        for (t, _), v in zip(pt, choice):
            if t[0] == 'C':
                k = len(v)
                head, tail = (s[:-k], s[-k:]) if k else (s, '')
                s = head + ''.join(ch if m == 'L' else ch.upper() for ch, m in zip(tail, v))
            else:
                s += v
        out.append(s)
    return out


def pt_size(pcfg, pt):
    n = 1
    for t, i in pt:
        n *= len(pcfg.grammar[t][i]['values'])
    return n


def limits_for(total, rng, quick):
    ls = {None, 1, 2, total - 1, total, total + 1}
    if total > 3:
        ls.add(rng.randint(2, total - 1))
    if not quick:
        ls.update(range(1, min(total + 2, 12)))
    return [l for l in ls if l is None or l >= 1]
