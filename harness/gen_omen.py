"""Generator of small OMEN models (the `omen` part of a ruleset spec) and brute-force level oracle."""
import itertools

LETTERS = ['a', 'b', 'c', 'é', 'я', '1']
# alphabets with white space (a password may contain and end with it): the n-gram is the last field of an OMEN line
SPACE_POOLS = [[' ', 'a', 'b', 'c'], ['a', '\u3000', 'b', ' '], ['a', 'b', ' ', '\xa0']]


def gen_omen(rng, ngram=None, nletters=None, maxlen_extra=None, levels=None, density=None, allow_unstartable=False):
    n = ngram or rng.choice([2, 2, 3, 3, 4, 5])
    k = nletters or rng.randint(2, 3 if n >= 4 else 4)
    alphabet = LETTERS[:k] if rng.random() < 0.75 else rng.choice(SPACE_POOLS)[:k]
    levels = levels or rng.choice([[0, 1, 2], [0, 1, 2, 3], [0, 1, 3, 10], [0, 2, 5, 10], [1, 2], [0]])
    density = density if density is not None else rng.choice([1.0, 0.9, 0.7, 0.5])
    ip, cp, ep = [], [], []
    for t in itertools.product(alphabet, repeat=n - 1):
        s = ''.join(t)
        if rng.random() < max(density, 0.6):
            ip.append([rng.choice(levels), s])
        ep.append([rng.choice(levels), s])
        for c in alphabet:
            if rng.random() < density:
                cp.append([rng.choice(levels), s + c])
    if not ip:
        ip.append([levels[0], alphabet[0] * (n - 1)])
    if not allow_unstartable and all(l >= 10 for l, _ in ip):
        ip[0][0] = min(levels)
    rng.shuffle(ip)
    rng.shuffle(cp)
    extra = maxlen_extra if maxlen_extra is not None else rng.randint(0, 3 if k <= 3 else 2)
    maxlen = n + extra
    ln = [rng.choice(levels + [10]) for _ in range(maxlen)]
    if all(l == 10 for l in ln[n - 1:]) and not (allow_unstartable and rng.random() < 0.5):
        ln[-1] = min(levels) if min(levels) < 10 else 0
    return {'ngram': n, 'alphabet': alphabet, 'ip': ip, 'ep': ep, 'cp': cp, 'ln': ln, 'keyspace': []}


def level_of(om, s):
    """length cost + initial n-gram cost + transition costs; None if it cannot be generated.
    If a key is listed twice, every listed level counts (dict-of-lists semantics of the loader)."""
    n = om['ngram']
    if len(s) < n or len(s) > len(om['ln']):
        return []
    lnl = om['ln'][len(s) - 1]
    ips = [l for l, x in om['ip'] if x == s[:n - 1]]
    outs = []
    for ipl in ips:
        tot = [lnl + ipl]
        for i in range(len(s) - n + 1):
            g = s[i:i + n]
            cps = [l for l, x in om['cp'] if x == g]
            tot = [t + c for t in tot for c in cps]
            if not tot:
                break
        outs += tot
    return outs


def brute_level(om, target, max_strings=200000):
    """multiset of strings at exactly `target` (as a sorted list)"""
    out = []
    n = om['ngram']
    count = 0
    for ln in range(n, len(om['ln']) + 1):
        for t in itertools.product(om['alphabet'], repeat=ln):
            count += 1
            if count > max_strings:
                return None
            s = ''.join(t)
            for l in level_of(om, s):
                if l == target:
                    out.append(s)
    return sorted(out)
