"""Correspondence of the real MarkovCracker with the Lean OMEN model, and the brute-force oracle."""
import contextlib
import io
import os

import common
import gen_omen


def enc(s):
    return '.'.join(str(ord(c)) for c in s) if s else '-'


def omen_ops(om):
    ops = [f"omen.new {om['ngram']} 10"]
    for l, s in om['ip']:
        ops.append(f"omen.ip {l} {enc(s)}")
    for l, s in om['cp']:
        ops.append(f"omen.cp {l} {enc(s)}")
    n = om['ngram']
    for i, l in enumerate(om['ln']):
        length = i + 1
        if length >= n:
            ops.append(f"omen.ln {l} {length - (n - 1)}")
    return ops


def load_real(omdir):
    common.use_impl()
    from lib_guesser.omen.input_file_io import load_rules
    g = {}
    out = io.StringIO()
    with contextlib.redirect_stdout(out), contextlib.redirect_stderr(out):
        ok = load_rules(omdir, g)
    if not ok:
        raise RuntimeError('load_rules failed: ' + out.getvalue()[-300:])
    return g


def real_enum(grammar, target, optimizer, limit=100000):
    from lib_guesser.omen.markov_cracker import MarkovCracker
    err = io.StringIO()
    try:
        with contextlib.redirect_stderr(err):
            mc = MarkovCracker(grammar, target, optimizer)
    except Exception:
        return None
    out = []
    while len(out) < limit:
        g = mc.next_guess()
        if g is None:
            break
        out.append(g)
    return out


def run_case(ruledir, om, rng, targets, warm, via_grammar=False):
    """returns ops, expected, violations, stats"""
    common.use_impl()
    from lib_guesser.omen.optimizer import Optimizer
    grammar = load_real(os.path.join(ruledir, 'Omen'))
    ops = omen_ops(om)
    exp = ['ok'] * len(ops)
    viol = []
    shared = Optimizer(max_length=4)
    if via_grammar:
        # the way the program does it: the OMEN tables and the memo table are those of a PcfgGrammar object built for this ruleset
        # (one object per ruleset, several in one process)
        pcfg = common.load_grammar(ruledir)
        grammar, shared = pcfg.omen_grammar, pcfg.omen_optimizer
    order = list(targets)
    if warm:
        rng.shuffle(order)
    stats = {'guesses': 0, 'levels': 0, 'nonempty_levels': 0, 'raise': False}
    for t in order:
        opt = shared if warm else Optimizer(max_length=4)
        gs = real_enum(grammar, t, opt)
        ops.append(f"omen.enum {t} 100000")
        if gs is None:
            exp.append('raise')
            stats['raise'] = True
            continue
        exp.append(' '.join([f"n={len(gs)}"] + [enc(g) for g in gs]))
        stats['levels'] += 1
        stats['guesses'] += len(gs)
        stats['nonempty_levels'] += 1 if gs else 0
        want = gen_omen.brute_level(om, t)
        if want is not None and sorted(gs) != want:
            miss = [s for s in want if s not in gs][:3]
            extra = [s for s in gs if s not in want][:3]
            dup = len(gs) != len(set(gs))
            viol.append({'property': 'C10', 'kind': 'level-set', 'target': t, 'missing': miss, 'extra': extra,
                         'duplicates': dup, 'warm_cache': warm})
        if warm:
            fresh = real_enum(grammar, t, Optimizer(max_length=4))
            if fresh != gs:
                viol.append({'property': 'C10', 'kind': 'cache-dependence', 'target': t})
    # the memo table itself: a random sequence of `_fill_out_parse_tree` calls on one shared Optimizer, results and final
    # table compared with the model's `fillC` (whose agreement with the table-free `fill` is the theorem `fillC_eq_fill`)
    fo, fe, fv = fillc_stream(grammar, om, rng)
    ops += fo
    exp += fe
    viol += fv
    stats['fillc_calls'] = sum(len(o.split(' ')) - 2 for o in fo)
    return {'ops': ops, 'expected': exp, 'violations': viol, 'stats': stats}


def _tree(t):
    if t is None:
        return 'none'
    if not t:
        return '[]'
    return ';'.join(f"{enc(it[0])}/{it[1]}/{it[2]}" for it in t)


def fillc_stream(grammar, om, rng, ncalls=12):
    from lib_guesser.omen.optimizer import Optimizer
    from lib_guesser.omen.guess_structure import GuessStructure
    n = om['ngram']
    maxlen = rng.choice([1, 2, 3, 4])
    opt = Optimizer(max_length=maxlen)
    prefixes = sorted({x for _, x in om['ip']} | {x[:-1] for _, x in om['cp']} | {om['alphabet'][0] * (n - 1)})
    calls, res, viol = [], [], []
    gs = GuessStructure(cp=grammar['cp'], max_level=grammar['max_level'], ip=prefixes[0], cp_length=1, target_level=0, optimizer=opt)
    fresh_gs = lambda: GuessStructure(cp=grammar['cp'], max_level=grammar['max_level'], ip=prefixes[0], cp_length=1,
                                      target_level=0, optimizer=Optimizer(max_length=maxlen))
    for _ in range(ncalls):
        ln = rng.randint(1, 5)
        ip = rng.choice(prefixes)
        tgt = rng.choice([0, 0, 1, 2, 3, 4, 6, 10, 12])
        if calls and rng.random() < 0.3:
            ln, ip, tgt = rng.choice(calls)          # a repeated call: answered from the table
        r = gs._fill_out_parse_tree(ip, ln, tgt)
        r0 = fresh_gs()._fill_out_parse_tree(ip, ln, tgt)
        if r != r0:
            viol.append({'property': 'C10', 'kind': 'cache-dependence', 'call': [ln, ip, tgt], 'with_history': _tree(r), 'fresh': _tree(r0),
                         'history': [list(c) for c in calls]})
        calls.append((ln, ip, tgt))
        res.append(_tree(r))
    table = []
    for ln, d in enumerate(opt.tmto_lookup):
        for ip, lv in d.items():
            for tgt, tree in lv.items():
                table.append(f"{enc(ip)},{ln},{tgt}={_tree(tree)}")
    op = ' '.join(['omen.fillc', str(maxlen)] + [f"{ln},{enc(ip)},{tgt}" for ln, ip, tgt in calls])
    return [op], [' '.join(res) + ' | ' + ' '.join(sorted(table))], viol
