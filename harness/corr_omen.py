"""Correspondence of the real MarkovCracker with the Lean OMEN model, and the brute-force oracle."""
import contextlib
import io
import os

import common
import gen_omen


def enc(s):
    return '.'.join(str(ord(c)) for c in s) if s else '-'


def omen_ops(om):
    ops = [f"omen.new {om['ngram']} 10"]
    for l, s in om['ip']:
        ops.append(f"omen.ip {l} {enc(s)}")
    for l, s in om['cp']:
        ops.append(f"omen.cp {l} {enc(s)}")
    n = om['ngram']
    for i, l in enumerate(om['ln']):
        length = i + 1
        if length >= n:
            ops.append(f"omen.ln {l} {length - (n - 1)}")
    return ops


def load_real(omdir):
    common.use_impl()
    from lib_guesser.omen.input_file_io import load_rules
    g = {}
    out = io.StringIO()
    with contextlib.redirect_stdout(out), contextlib.redirect_stderr(out):
        ok = load_rules(omdir, g)
    if not ok:
        raise RuntimeError('load_rules failed: ' + out.getvalue()[-300:])
    return g


def real_enum(grammar, target, optimizer, limit=100000):
    from lib_guesser.omen.markov_cracker import MarkovCracker
    err = io.StringIO()
    try:
        with contextlib.redirect_stderr(err):
            mc = MarkovCracker(grammar, target, optimizer)
    except Exception:
        return None
    out = []
    while len(out) < limit:
        g = mc.next_guess()
        if g is None:
            break
        out.append(g)
    return out


def run_case(ruledir, om, rng, targets, warm):
    """returns ops, expected, violations, stats"""
    common.use_impl()
    from lib_guesser.omen.optimizer import Optimizer
    grammar = load_real(os.path.join(ruledir, 'Omen'))
    ops = omen_ops(om)
    exp = ['ok'] * len(ops)
    viol = []
    shared = Optimizer(max_length=4)
    order = list(targets)
    if warm:
        rng.shuffle(order)
    stats = {'guesses': 0, 'levels': 0, 'nonempty_levels': 0, 'raise': False}
    for t in order:
        opt = shared if warm else Optimizer(max_length=4)
        gs = real_enum(grammar, t, opt)
        ops.append(f"omen.enum {t} 100000")
        if gs is None:
            exp.append('raise')
            stats['raise'] = True
            continue
        exp.append(' '.join([f"n={len(gs)}"] + [enc(g) for g in gs]))
        stats['levels'] += 1
        stats['guesses'] += len(gs)
        stats['nonempty_levels'] += 1 if gs else 0
        want = gen_omen.brute_level(om, t)
        if want is not None and sorted(gs) != want:
            miss = [s for s in want if s not in gs][:3]
            extra = [s for s in gs if s not in want][:3]
            dup = len(gs) != len(set(gs))
            viol.append({'property': 'C10', 'kind': 'level-set', 'target': t, 'missing': miss, 'extra': extra,
                         'duplicates': dup, 'warm_cache': warm})
        if warm:
            fresh = real_enum(grammar, t, Optimizer(max_length=4))
            if fresh != gs:
                viol.append({'property': 'C10', 'kind': 'cache-dependence', 'target': t})
    return {'ops': ops, 'expected': exp, 'violations': viol, 'stats': stats}
