"""Deterministic scheduling of the real CrackingSession.run against its keyboard thread.

Two real threads, one baton: the main thread yields before every `PcfgQueue.next()`, before every printed
guess of a plain pre-terminal and before every call of the OMEN generator (`MarkovCracker.next_guess`, also
the last call of a level, which finds nothing; the guess it returns is printed without a further yield), the
keyboard thread yields inside `input()` and inside `time.sleep()`.  A schedule is
a string over {m, k}: who runs until its next yield point."""
import configparser
import contextlib
import io
import os
import pickle
import threading

import common


class StopRun(BaseException):
    pass


class Baton:
    def __init__(self, schedule, events):
        self.schedule = list(schedule)
        self.consumed = []
        self.events = list(events)          # ('line', text, status_fails) | ('eof',) | ('err',)
        self.to_main = threading.Semaphore(0)
        self.to_kbd = threading.Semaphore(0)
        self.main_waiting = False
        self.kbd_state = 'atInput'          # atInput | gotLine | dead
        self.status_fails = False
        self.omen_guess_pending = False
        self.out = []
        self.popped = []                    # what PcfgQueue.next() returned, in order (None = queue empty)

    # ---- main side
    def main_yield(self):
        while self.schedule and self.schedule[0] == 'k':
            self.consumed.append(self.schedule.pop(0))
            self.kbd_step()
        if self.schedule and self.schedule[0] == 'm':
            self.consumed.append(self.schedule.pop(0))
            return
        raise StopRun()

    def kbd_step(self):
        if self.kbd_state == 'dead':
            return
        if self.kbd_state == 'atInput' and not self.events:
            return                           # blocked on a silent pipe
        self.main_waiting = True
        self.to_kbd.release()
        self.to_main.acquire()

    # ---- keyboard side
    def _yield_kbd(self):
        if self.main_waiting:
            self.main_waiting = False
            self.to_main.release()
        self.to_kbd.acquire()

    def fake_input(self, *a):
        self.kbd_state = 'atInput'
        self._yield_kbd()
        ev = self.events.pop(0)
        if ev[0] == 'line':
            self.status_fails = ev[2]
            self.kbd_state = 'gotLine'
            return ev[1]
        self.kbd_state = 'dying'
        if ev[0] == 'eof':
            raise EOFError()
        raise OSError('stdin error')

    def fake_sleep(self, t):
        self._yield_kbd()

    def kbd_done(self):
        self.kbd_state = 'dead'
        if self.main_waiting:
            self.main_waiting = False
            self.to_main.release()


def run_session(pcfg, save_filename, save_config, load, schedule, events, limit=None, past_time=None):
    """runs the real CrackingSession.run under the baton; returns dict(out, ended, consumed)"""
    common.use_impl()
    import lib_guesser.cracking_session as cs
    import lib_guesser.priority_queue as pqmod
    baton = Baton(schedule, events)
    session = cs.CrackingSession(pcfg, save_config, save_filename)
    if past_time is not None:
        session.report.past_guessing_time = past_time      # as restored from a save file of a long-running session
    pcfg.save_file = save_filename
    pcfg.should_exit = False
    pcfg.omen_exit = False
    orig_next = pqmod.PcfgQueue.next
    orig_thread = cs.threading.Thread
    orig_sleep = cs.time.sleep
    import builtins
    orig_input = builtins.input
    orig_status = session.report.print_status

    def next_wrapper(self_):
        baton.main_yield()
        it = orig_next(self_)
        baton.popped.append(None if it is None else (tuple((t, j) for t, j in it['pt']), it['prob']))
        return it

    def print_wrapper(guess):
        if baton.omen_guess_pending:
            baton.omen_guess_pending = False        # the yield point of this guess was the generator call that produced it
        else:
            baton.main_yield()
        baton.out.append(guess)

    def status_wrapper(p):
        if baton.status_fails:
            raise OSError('stderr closed')
        return orig_status(p)

    class FakeThread(orig_thread):
        def __init__(self_, target=None, args=(), **kw):
            def wrapped(*a):
                try:
                    target(*a)
                except BaseException:
                    pass
                finally:
                    baton.kbd_done()
            super().__init__(target=wrapped, args=args, daemon=True)

    import lib_guesser.omen.markov_cracker as mcmod
    orig_mc_next = mcmod.MarkovCracker.next_guess

    def mc_next_wrapper(self_):
        # yield point before every call of the OMEN generator (also the last one, which finds the level exhausted)
        baton.main_yield()
        g = orig_mc_next(self_)
        baton.omen_guess_pending = g is not None
        return g

    mcmod.MarkovCracker.next_guess = mc_next_wrapper
    pqmod.PcfgQueue.next = next_wrapper
    pcfg.print_guess = print_wrapper
    session.report.print_status = status_wrapper
    cs.threading.Thread = FakeThread
    cs.time.sleep = baton.fake_sleep
    builtins.input = baton.fake_input
    ended = None
    err = io.StringIO()
    stdout_extra = io.StringIO()        # guesses go through print_wrapper; anything else that reaches stdout lands here
    try:
        with contextlib.redirect_stderr(err), contextlib.redirect_stdout(stdout_extra):
            try:
                session.run(load_session=load, limit=limit)
                ended = 'returned'
            except StopRun:
                ended = 'stopped'
    finally:
        pqmod.PcfgQueue.next = orig_next
        mcmod.MarkovCracker.next_guess = orig_mc_next
        cs.threading.Thread = orig_thread
        cs.time.sleep = orig_sleep
        builtins.input = orig_input
        try:
            del pcfg.print_guess
        except AttributeError:
            pass
    log = err.getvalue()
    state = 'stopped'
    if ended == 'returned':
        state = 'exited' if 'Saving Session Info' in log else 'finished'
    return {'out': baton.out, 'popped': baton.popped, 'state': state, 'consumed': ''.join(baton.consumed), 'should_exit': bool(pcfg.should_exit), 'log': log,
            'stdout_extra': stdout_extra.getvalue()}


def units_of(pcfg):
    """the uninterrupted run as a list of (kind, prob, lines)"""
    import corr_pq
    import corr_expand
    pq = corr_pq.fresh_queue(pcfg)
    units = []
    while True:
        it = pq.next()
        if it is None:
            break
        n, lines, raised = corr_expand.real_create(pcfg, it['pt'], None)
        units.append(('m' if it['pt'][0][0] == 'M' else 'p', it['prob'], lines))
    return units


def read_files(save_filename, units, pcfg):
    """(savPos, omenOpt, omn remainder or None) from the files on disk"""
    cfg = configparser.ConfigParser()
    cfg.read(save_filename)
    mp = cfg.getfloat('guessing_info', 'max_probability')
    pos = next((i for i, u in enumerate(units) if u[1] <= mp), len(units))
    opt = cfg.has_option('guessing_info', 'omen_guess_number')
    omn = None
    p = save_filename[:-4] + '.omn'
    if os.path.exists(p):
        from lib_guesser.omen.markov_cracker import MarkovCracker
        from lib_guesser.omen.optimizer import Optimizer
        mc = MarkovCracker(pcfg.omen_grammar, 1, Optimizer(4))
        mc.load_session(p, {'pt': [['M', 1, 1]]})
        omn = []
        while True:
            g = mc.next_guess()
            if g is None:
                break
            omn.append(g)
    return pos, opt, omn, cfg
