"""Exhaustive validation (all 1 114 112 code points) of the Unicode facts the Lean model takes as
tables or parameters, against the running interpreter."""
import sys

import common

ALL = range(0x110000)


def python_line_seps():
    return sorted(c for c in ALL if not (0xD800 <= c <= 0xDFFF) and len(('a' + chr(c) + 'b').splitlines()) > 1)


def python_spaces():
    return sorted(c for c in ALL if chr(c).isspace())


def lean_tables():
    out = common.run_driver(['txt.tables'])[0].split()
    seps = [int(x) for x in out[1].split('.')]
    spaces = [int(x) for x in out[3].split('.')]
    return sorted(seps), sorted(spaces)


def check_tables():
    """returns list of problems"""
    probs = []
    seps, spaces = lean_tables()
    ps, pp = python_line_seps(), python_spaces()
    if seps != ps:
        probs.append({'table': 'pyLineSeps', 'lean_only': sorted(set(seps) - set(ps)), 'python_only': sorted(set(ps) - set(seps))})
    if spaces != pp:
        probs.append({'table': 'pySpaces', 'lean_only': sorted(set(spaces) - set(pp)), 'python_only': sorted(set(pp) - set(spaces))})
    # rstrip() strips exactly the isspace characters
    for c in pp:
        if ('x' + chr(c)).rstrip() != 'x':
            probs.append({'table': 'rstrip', 'codepoint': c})
    return probs


def accepted_separators():
    """code points that check_valid accepts although a line-oriented reader splits on them (or TAB)"""
    common.use_impl()
    from lib_trainer.trainer_file_input import check_valid
    bad = []
    seps = set(python_line_seps()) | {9}
    for c in sorted(seps):
        if check_valid('a' + chr(c) + 'b'):
            bad.append(c)
    return bad


def check_valid_table(rejected):
    """the translator's table against the real function, exhaustively (single characters)"""
    common.use_impl()
    from lib_trainer.trainer_file_input import check_valid
    rej = set(rejected)
    diff = []
    for c in ALL:
        if 0xD800 <= c <= 0xDFFF:
            continue
        if check_valid(chr(c)) == (c in rej):
            diff.append(c)
            if len(diff) > 10:
                break
    return diff


def alpha_law_exceptions():
    """hypothesis `GoodA` of C05_other_sound, as a fact about the interpreter's Unicode tables: lower-casing changes the alpha-ness of
    no position - `c.lower().isalpha() == c.isalpha()` for every code point whose lower-casing is one character, also inside a word
    (the only context-dependent lower-casing, final sigma, has two forms).  Returns the code points that break it."""
    bad = []
    for c in ALL:
        if 0xD800 <= c <= 0xDFFF:
            continue
        ch = chr(c)
        lc = ch.lower()
        if len(lc) == 1 and lc.isalpha() != ch.isalpha():
            bad.append(c)
        elif c > 127 and ch.isupper():
            for ctx, k in (('a' + ch, 1), (ch + 'a', 0), ('a' + ch + 'a', 1)):
                l = ctx.lower()
                if len(l) == len(ctx) and l[k].isalpha() != ch.isalpha():
                    bad.append(c)
                    break
    return bad


if __name__ == '__main__':
    print(check_tables(), accepted_separators())
