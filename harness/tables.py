"""Literal tables and syntactic facts extracted from the source (second half of translate.py)."""
import ast
import os

from translate import TranslateError


import contextlib as _ctxlib


@_ctxlib.contextmanager
def warnings_off():
    import warnings
    with warnings.catch_warnings():
        warnings.simplefilter('ignore')
        yield


def lean_str(s):
    out = '"'
    for ch in s:
        o = ord(ch)
        if ch == '"':
            out += '\\"'
        elif ch == '\\':
            out += '\\\\'
        elif 32 <= o < 127:
            out += ch
        else:
            out += '\\u{%x}' % o
    return out + '"'


def py_files(root, rels):
    out = []
    for rel in rels:
        p = os.path.join(root, rel)
        if os.path.isdir(p):
            for d, _, files in sorted(os.walk(p)):
                if 'unit_tests' in d or 'future_research' in d or '__pycache__' in d:
                    continue
                for f in sorted(files):
                    if f.endswith('.py'):
                        out.append(os.path.relpath(os.path.join(d, f), root))
        elif os.path.exists(p):
            out.append(rel)
    return out


class PrintFinder(ast.NodeVisitor):
    def __init__(self, rel):
        self.rel = rel
        self.stack = []
        self.sites = []
        self.parsers = set()

    def visit_FunctionDef(self, node):
        self.stack.append(node.name)
        self.generic_visit(node)
        self.stack.pop()

    visit_ClassDef = visit_FunctionDef
    visit_AsyncFunctionDef = visit_FunctionDef

    def chan_of(self, e):
        if e is None:
            return 'stdout'
        t = ast.unparse(e)
        if t == 'sys.stderr':
            return 'stderr'
        if t == 'sys.stdout':
            return 'stdout'
        return 'other:' + t

    def visit_Call(self, node):
        f = ast.unparse(node.func)
        chan = None
        if f == 'print':
            kw = next((k.value for k in node.keywords if k.arg == 'file'), None)
            chan = self.chan_of(kw)
        elif f in ('sys.stdout.write', 'sys.stdout.writelines', 'sys.stdout.buffer.write', 'os.write'):
            chan = 'stdout'
        elif f in ('sys.stderr.write',):
            chan = 'stderr'
        elif f in ('traceback.print_exc', 'traceback.print_exception', 'traceback.print_stack'):
            kw = next((k.value for k in node.keywords if k.arg == 'file'), None)
            chan = 'stderr' if kw is None else self.chan_of(kw)
        elif f in ('pprint.pprint', 'pprint'):
            chan = 'stdout'
        elif f in ('input', 'builtins.input', 'raw_input') and (node.args or node.keywords):
            # the prompt of input() is written to sys.stdout
            chan = 'stdout'
        elif f in ('getpass.getpass', 'getpass') and False:
            chan = 'other:tty'
        elif isinstance(node.func, ast.Attribute) and node.func.attr in ('print_usage', 'print_help', 'print_version') \
                and ast.unparse(node.func.value) in self.parsers:
            # argparse: usage / help text goes to sys.stdout unless a file is named
            kw = next((k.value for k in node.keywords if k.arg == 'file'), node.args[0] if node.args else None)
            chan = self.chan_of(kw)
        elif f.split('.')[-1] == 'redirect_stdout':
            # contextlib.redirect_stdout swaps the process-wide sys.stdout for the duration of a block (every thread sees the swap)
            chan = 'stdout-rebind'
        elif f.startswith(('sys.stdout.', 'sys.__stdout__.')) and f not in ('sys.stdout.flush', 'sys.__stdout__.flush'):
            # anything else done to the guess channel (reconfigure, detach, close, ...)
            chan = 'stdout-config'
        if chan is not None:
            self.sites.append((self.rel, '.'.join(self.stack) or '<module>', chan, node.lineno))
        self.generic_visit(node)


def _pf_visit_assign(self, node):
    # names bound to an argparse parser (their print_usage / print_help write to sys.stdout by default)
    if isinstance(node.value, ast.Call) and ast.unparse(node.value.func).endswith('ArgumentParser'):
        for t in node.targets:
            self.parsers.add(ast.unparse(t))
    for t in node.targets:
        if ast.unparse(t) in ('sys.stdout', 'sys.__stdout__'):
            self.sites.append((self.rel, '.'.join(self.stack) or '<module>', 'stdout-rebind', node.lineno))
    self.generic_visit(node)


PrintFinder.visit_Assign = _pf_visit_assign


def print_sites(root, rels):
    sites = []
    for rel in py_files(root, rels):
        with open(os.path.join(root, rel), encoding='utf-8') as f:
            tree = ast.parse(f.read())
        pf = PrintFinder(rel)
        pf.visit(tree)
        sites += pf.sites
    return sites


def gen_print_sites(root, report):
    guesser = print_sites(root, ['pcfg_guesser.py', 'lib_guesser'])
    prince = print_sites(root, ['prince_ling.py', 'lib_princeling', 'lib_guesser/pcfg_grammar.py',
                                'lib_guesser/grammar_io.py', 'lib_guesser/priority_queue.py', 'lib_guesser/omen'])
    report['print_sites'] = {'guesser': len(guesser), 'prince': len(prince),
                             'guesser_stdout': [s for s in guesser if s[2] != 'stderr'],
                             'prince_stdout': [s for s in prince if s[2] != 'stderr']}

    def non_stderr(sites):
        seen = []
        for rel, fn, chan, _ in sites:
            if chan != 'stderr' and (rel, fn, chan) not in seen:
                seen.append((rel, fn, chan))
        return seen

    def lit(sites):
        return '[' + ', '.join(f"({lean_str(a)}, {lean_str(b)}, {lean_str(c)})" for a, b, c in sites) + ']'
    text = f'''/-! GENERATED by harness/translate.py (tables.py) -- do not edit.
Every `print(...)`, `sys.stdout.write`, `traceback.print_exc` call in the modules the guesser /
PRINCE-LING import, reduced to (file, enclosing function, channel); only the ones whose channel is
not `sys.stderr` are listed.  {len(guesser)} call sites scanned for the guesser, {len(prince)} for PRINCE-LING. -/
namespace Pcfg.Generated.PrintSites

def guesserNonStderr : List (String × String × String) :=
  {lit(non_stderr(guesser))}

def princeNonStderr : List (String × String × String) :=
  {lit(non_stderr(prince))}

def guesserScanned : Nat := {len(guesser)}
def princeScanned : Nat := {len(prince)}

end Pcfg.Generated.PrintSites
'''
    return text


def const_value(node):
    return ast.literal_eval(node)


def find_func(tree, name):
    for n in ast.walk(tree):
        if isinstance(n, ast.FunctionDef) and n.name == name:
            return n
    return None


def gen_check_valid(root, report):
    """`check_valid`: the code points it rejects, extracted from its AST"""
    rel = 'lib_trainer/trainer_file_input.py'
    tree = ast.parse(open(os.path.join(root, rel), encoding='utf-8').read())
    fn = find_func(tree, 'check_valid')
    if fn is None:
        raise TranslateError('check_valid not found')
    rejected = set()
    reject_empty = False
    ok = True
    body = [s for s in fn.body if not (isinstance(s, ast.Expr) and isinstance(s.value, ast.Constant))]
    for st in body:
        txt = ast.unparse(st)
        if isinstance(st, ast.If) and ast.unparse(st.body[0]) == 'return False' and len(st.body) == 1 and not st.orelse:
            t = st.test
            if ast.unparse(t) == 'len(input_password) == 0':
                reject_empty = True
                continue
            if isinstance(t, ast.Compare) and len(t.ops) == 1 and isinstance(t.ops[0], ast.In) \
                    and ast.unparse(t.comparators[0]) == 'input_password' and isinstance(t.left, ast.Constant) \
                    and isinstance(t.left.value, str) and len(t.left.value) == 1:
                rejected.add(ord(t.left.value))
                continue
            ok = False
        elif isinstance(st, ast.For) and ast.unparse(st.target) == 'invalid_hex' and isinstance(st.iter, ast.Call) \
                and ast.unparse(st.iter.func) == 'range' and len(st.body) == 1 \
                and ast.unparse(st.body[0]) == 'if chr(invalid_hex) in input_password:\n    return False':
            args = [const_value(a) for a in st.iter.args]
            rejected.update(range(*args))
        elif isinstance(st, ast.Return) and ast.unparse(st) == 'return True':
            continue
        else:
            ok = False
    if not ok:
        raise TranslateError('check_valid has an unexpected shape')
    rej = sorted(rejected)
    report['check_valid_rejected'] = rej
    return f'''/-! GENERATED by harness/translate.py (tables.py) from `check_valid` in
lib_trainer/trainer_file_input.py -- do not edit. -/
namespace Pcfg.Generated.CheckValid

/-- code points whose presence makes `check_valid` return False -/
def rejected : List Nat := {rej}

/-- the empty password is rejected -/
def rejectEmpty : Bool := {'true' if reject_empty else 'false'}

end Pcfg.Generated.CheckValid
'''


def gen_session_facts(root, report):
    """syntactic facts of CrackingSession.run / pcfg_guesser.main the session model depends on"""
    tree = ast.parse(open(os.path.join(root, 'lib_guesser/cracking_session.py'), encoding='utf-8').read())
    run = None
    for n in ast.walk(tree):
        if isinstance(n, ast.FunctionDef) and n.name == 'run':
            run = n
    if run is None:
        raise TranslateError('CrackingSession.run not found')
    quit_src = None
    removes_option = False
    # `run` together with the methods of its class it calls (transitively): a block moved into a private helper is still found
    cls = next((c for c in ast.walk(tree) if isinstance(c, ast.ClassDef) and run in c.body), None)
    methods = {m.name: m for m in (cls.body if cls else []) if isinstance(m, ast.FunctionDef)}
    reach, todo = [], [run]
    while todo:
        f = todo.pop()
        if f in reach:
            continue
        reach.append(f)
        for n in ast.walk(f):
            if isinstance(n, ast.Call) and isinstance(n.func, ast.Attribute) and isinstance(n.func.value, ast.Name) \
                    and n.func.value.id == 'self' and n.func.attr in methods and n.func.attr != '_save_session':
                todo.append(methods[n.func.attr])
    for n in [x for f in reach for x in ast.walk(f)]:
        if isinstance(n, ast.If) and any('self._save_session()' in ast.unparse(b) for b in n.body) and not n.orelse:
            t = ast.unparse(n.test)
            if t == 'self.pcfg.should_exit':
                quit_src = 'shouldExit'
            elif t == 'not user_thread.is_alive()':
                quit_src = 'kbdDead'
            else:
                quit_src = 'other'
        if isinstance(n, ast.Call) and ast.unparse(n.func) == 'self.save_config.remove_option' and \
                len(n.args) == 2 and ast.unparse(n.args[1]) == "'omen_guess_number'":
            removes_option = True
    if quit_src is None:
        raise TranslateError('quit test of CrackingSession.run not found')
    # what depends on the guess limit: every statement of `run` (and the methods it calls) that is executed or skipped according to a test
    # that reads `limit` - the `if limit` blocks with their `elif` / `else` branches, and everything nested in them.  The session model has no
    # limit: it stands for limited runs only as long as the limit does nothing but count down and end the run
    def mentions_limit(e):
        return any(isinstance(x, ast.Name) and x.id == 'limit' for x in ast.walk(e))

    def kind_of(st):
        if isinstance(st, ast.Return):
            return 'return'
        if isinstance(st, ast.Break):
            return 'break'
        if isinstance(st, (ast.Assign, ast.AugAssign)):
            tgt = st.targets[0] if isinstance(st, ast.Assign) and len(st.targets) == 1 else getattr(st, 'target', None)
            if isinstance(tgt, ast.Name) and tgt.id == 'limit':
                return 'count-down'
        if isinstance(st, ast.Expr) and isinstance(st.value, ast.Call) and ast.unparse(st.value.func) == 'print' \
                and any(k.arg == 'file' and ast.unparse(k.value) == 'sys.stderr' for k in st.value.keywords):
            return 'print-stderr'
        if isinstance(st, ast.Pass):
            return 'pass'
        return 'other: ' + ' '.join(ast.unparse(st).split())[:80]

    limit_dep = []

    def dependent(sts):
        for st in sts:
            if isinstance(st, ast.If):
                dependent(st.body)
                dependent(st.orelse)
            elif isinstance(st, (ast.For, ast.While, ast.With, ast.Try)):
                limit_dep.append('other: ' + ' '.join(ast.unparse(st).split())[:80])
            else:
                limit_dep.append(kind_of(st))
    for f in reach:
        for n in ast.walk(f):
            if isinstance(n, ast.If) and mentions_limit(n.test):
                # an `if` nested in another limit test is reached through its parent as well: count it once (at the outermost one)
                dependent(n.body)
                dependent(n.orelse)
    limit_dep = sorted(set(limit_dep))
    report['limit_dependent_statements'] = limit_dep
    # keypress: is should_exit also set when the status printout fails on a q line?
    kp = next((n for n in ast.walk(tree) if isinstance(n, ast.FunctionDef) and n.name == 'keypress'), None)
    keeps_q = False
    if kp is not None:
        for n in ast.walk(kp):
            if isinstance(n, ast.ExceptHandler) and 'pcfg.should_exit = True' in ast.unparse(n):
                keeps_q = True
    # pcfg_guesser.main: is the save file read before the grammar is built?
    mtree = ast.parse(open(os.path.join(root, 'pcfg_guesser.py'), encoding='utf-8').read())
    main = next((n for n in ast.walk(mtree) if isinstance(n, ast.FunctionDef) and n.name == 'main'), None)
    load_line = grammar_line = uuid_line = None
    if main is not None:
        for n in ast.walk(main):
            if isinstance(n, ast.Call):
                f = ast.unparse(n.func)
                if f == 'load_save' and load_line is None:
                    load_line = n.lineno
                if f == 'PcfgGrammar' and grammar_line is None:
                    grammar_line = n.lineno
            if isinstance(n, ast.Compare) and "save_config['rule_info']['uuid']" in ast.unparse(n) and uuid_line is None:
                uuid_line = (n.lineno, type(n.ops[0]).__name__)
    # how main() names the save file: the last argument of the os.path.join(...) assigned to save_filename
    sav_expr = None
    if main is not None:
        for n in ast.walk(main):
            if isinstance(n, ast.Assign) and len(n.targets) == 1 and ast.unparse(n.targets[0]) == 'save_filename' \
                    and isinstance(n.value, ast.Call) and ast.unparse(n.value.func) == 'os.path.join' and n.value.args:
                sav_expr = ast.unparse(n.value.args[-1])
    load_first = load_line is not None and grammar_line is not None and load_line < grammar_line
    # what the save file is given (every `save_config.set(section, key, value)` of pcfg_guesser.py: function, key, value expression) and
    # what `load_save` takes from it (every assignment to `program_info[...]` in it: key, value expression)
    cfg_sets, load_assigns = [], []
    for fn_ in [n for n in ast.walk(mtree) if isinstance(n, ast.FunctionDef)]:
        for n in ast.walk(fn_):
            if isinstance(n, ast.Call) and ast.unparse(n.func) == 'save_config.set' and len(n.args) == 3:
                key_ = n.args[1].value if isinstance(n.args[1], ast.Constant) else ast.unparse(n.args[1])
                cfg_sets.append((fn_.name, str(key_), ast.unparse(n.args[2]).replace('"', "'").replace(' ', '')))
            if fn_.name == 'load_save' and isinstance(n, (ast.Assign, ast.AugAssign)):
                for tgt in (n.targets if isinstance(n, ast.Assign) else [n.target]):
                    if isinstance(tgt, ast.Subscript) and ast.unparse(tgt.value) == 'program_info':
                        k_ = tgt.slice.value if isinstance(tgt.slice, ast.Constant) else ast.unparse(tgt.slice)
                        load_assigns.append((str(k_), ast.unparse(n.value).replace('"', "'").replace(' ', '')))
    report['save_config_sets'] = cfg_sets
    report['load_save_assigns'] = load_assigns
    uuid_refuses = uuid_line is not None and uuid_line[1] == 'NotEq'
    # the .omn file: the name expression at the save site and at the load site (lib_guesser/pcfg_grammar.py), 
    gtree = ast.parse(open(os.path.join(root, 'lib_guesser/pcfg_grammar.py'), encoding='utf-8').read())
    omn_save = omn_load = None
    for n in ast.walk(gtree):
        if isinstance(n, ast.Call) and isinstance(n.func, ast.Attribute) and n.args:
            if n.func.attr == 'save_session' and omn_save is None:
                omn_save = ast.unparse(n.args[0])
            if n.func.attr == 'load_session' and omn_load is None:
                omn_load = ast.unparse(n.args[0])
    # every expression anywhere in the guesser that contains a '.sav' / '.omn' string literal (outside print calls and docstrings):
    # (file, function, the innermost enclosing non-literal expression)
    name_exprs = []
    for rel in py_files(root, ['pcfg_guesser.py', 'lib_guesser']):
        t = ast.parse(open(os.path.join(root, rel), encoding='utf-8').read())
        parents = {}
        for node in ast.walk(t):
            for ch in ast.iter_child_nodes(node):
                parents[ch] = node
        for node in ast.walk(t):
            if isinstance(node, ast.Constant) and isinstance(node.value, str) and ('.sav' in node.value or '.omn' in node.value):
                cur, fn, in_print, is_doc = node, '<module>', False, False
                expr = parents.get(node)
                if isinstance(expr, ast.Expr):
                    is_doc = True
                while cur in parents:
                    cur = parents[cur]
                    if isinstance(cur, ast.Call) and ast.unparse(cur.func) == 'print':
                        in_print = True
                    if isinstance(cur, (ast.FunctionDef, ast.AsyncFunctionDef)):
                        fn = cur.name
                        break
                if in_print or is_doc or isinstance(expr, ast.keyword):
                    continue
                name_exprs.append((rel, fn, ast.unparse(expr).replace('"', "'").replace(' ', '')))
    report['session_facts_names'] = name_exprs
    names_lit = '[' + ',\n   '.join(f"({lean_str(a)}, {lean_str(b)}, {lean_str(c)})" for a, b, c in name_exprs) + ']'
    report['session_facts'] = {'sav_name': sav_expr, 'omn_name_save': omn_save, 'omn_name_load': omn_load, 'quit_src': quit_src, 'removes_omen_option': removes_option, 'keeps_q_on_status_failure': keeps_q,
                               'load_save_before_grammar': load_first, 'uuid_mismatch_refuses': uuid_refuses}
    return f'''/-! GENERATED by harness/translate.py (tables.py) from lib_guesser/cracking_session.py and
pcfg_guesser.py -- do not edit. -/
namespace Pcfg.Generated.Session

/-- what the main loop's quit test reads -/
inductive QuitSrc | shouldExit | kbdDead | other
deriving DecidableEq, Repr

def quitSrc : QuitSrc := .{quit_src}

/-- `run()` removes `omen_guess_number` from the save config once a restored OMEN level is finished -/
def removesOmenOption : Bool := {'true' if removes_option else 'false'}

/-- the kinds of statement whose execution depends on a test that reads the guess limit (in `run` and the methods it calls) -/
def limitDependentStatements : List String := [{', '.join(lean_str(x) for x in limit_dep)}]

/-- every `save_config.set(section, key, value)` of `pcfg_guesser.py`: (function, key, value expression) -/
def saveConfigSets : List (String × String × String) :=
  [{', '.join('(' + ', '.join(lean_str(x) for x in t3) + ')' for t3 in cfg_sets)}]

/-- every assignment to `program_info[...]` in `load_save`: (key, value expression) -/
def loadSaveAssigns : List (String × String) :=
  [{', '.join('(' + lean_str(a) + ', ' + lean_str(b) + ')' for a, b in load_assigns)}]

/-- `keypress` keeps a quit request when printing the status fails -/
def keepsQuitOnStatusFailure : Bool := {'true' if keeps_q else 'false'}

/-- `main()` reads the session file before building the grammar (saved flags take effect) -/
def loadSaveBeforeGrammar : Bool := {'true' if load_first else 'false'}

/-- `main()` refuses the session when the saved uuid differs from the ruleset's -/
def uuidMismatchRefuses : Bool := {'true' if uuid_refuses else 'false'}

/-- the expression naming the `.omn` file where the interrupted OMEN level is pickled, and where it is loaded again -/
def omnNameAtSave : String := {lean_str((omn_save or '').replace('"', "'").replace(' ', ''))}
/-- the file-name part of the save file in `pcfg_guesser.main` (an expression of the session name) -/
def savNameExpr : String := {lean_str((sav_expr or '').replace('"', "'").replace(' ', ''))}
def omnNameAtLoad : String := {lean_str((omn_load or '').replace('"', "'").replace(' ', ''))}

/-- every expression of the guesser's code that contains a `.sav` / `.omn` string literal (file, function, expression) -/
def sessionNameExprs : List (String × String × String) :=
  {names_lit}

end Pcfg.Generated.Session
'''


def _assigned_literal(fn, name, tree=None):
    """the literal assigned to `name` inside the function; if the function does not assign it, the one module-level literal
    (list / tuple / dict / set of constants) whose name the function reads - a constant moved out of the function"""
    for n in ast.walk(fn):
        if isinstance(n, ast.Assign) and len(n.targets) == 1 and isinstance(n.targets[0], ast.Name) and n.targets[0].id == name:
            return ast.literal_eval(n.value)
    if tree is not None:
        used = {n.id for n in ast.walk(fn) if isinstance(n, ast.Name)}
        cands = []
        for st in tree.body:
            if isinstance(st, ast.Assign) and len(st.targets) == 1 and isinstance(st.targets[0], ast.Name) and st.targets[0].id in used:
                try:
                    val = ast.literal_eval(st.value)
                except Exception:
                    continue
                if isinstance(val, (list, tuple, dict, set, frozenset)):
                    cands.append(list(val) if isinstance(val, (tuple, set, frozenset)) else val)
        if len(cands) == 1:
            return cands[0]
    raise TranslateError(f"{fn.name}: no literal assignment to {name}")


def _cps(s):
    return '[' + ', '.join(str(ord(c)) for c in s) + ']'


def gen_detector_tables(root, report):
    base = os.path.join(root, 'lib_trainer', 'detection_rules')

    trees = {}

    def fn(file, name):
        tree = ast.parse(open(os.path.join(base, file), encoding='utf-8').read())
        trees[name] = tree
        f = find_func(tree, name)
        if f is None:
            raise TranslateError(f"{file}: {name} not found")
        return f
    boards = []
    for getter in ('_get_us_keyboard', '_get_jcuken_keyboard'):
        m = _assigned_literal(fn('keyboard_walk.py', getter), 'keyboard_mapping')
        rows = [m[k] for k in ('row1', 's_row1', 'row2', 's_row2', 'row3', 's_row3', 'row4', 's_row4')]
        if any(len(ch) != 1 for r in rows for ch in r):
            raise TranslateError('keyboard rows must hold single characters')
        boards.append(rows)
    # the order in which detect_keyboard_walk appends the boards
    dk = fn('keyboard_walk.py', 'detect_keyboard_walk')
    # (whether they are appended one by one or written as a list literal: the calls in source order)
    order = [(n.lineno, n.col_offset, ast.unparse(n)) for n in ast.walk(dk)
             if isinstance(n, ast.Call) and ast.unparse(n.func) in ('_get_us_keyboard', '_get_jcuken_keyboard')]
    order = [c for _, _, c in sorted(order)]
    if order != ['_get_us_keyboard()', '_get_jcuken_keyboard()']:
        raise TranslateError('detect_keyboard_walk: unexpected keyboard list ' + str(order))
    min_run = ast.literal_eval(dk.args.defaults[0]) if dk.args.defaults else None
    if not isinstance(min_run, int):
        raise TranslateError('min_keyboard_run default')
    fpw = _assigned_literal(fn('keyboard_walk.py', 'interesting_keyboard'), 'false_positive_words', trees.get('interesting_keyboard'))
    tld = _assigned_literal(fn('tld_list.py', 'get_tld_list'), 'tld_list', trees.get('get_tld_list'))
    years = _assigned_literal(fn('year_detection.py', 'detect_year'), 'year_prefix', trees.get('detect_year'))
    ctx = _assigned_literal(fn('context_sensitive_detection.py', 'detect_context_sensitive'), 'context_sensitive_replacements', trees.get('detect_context_sensitive'))
    report['detector_tables'] = {'boards': len(boards), 'false_positive_words': fpw, 'tlds': tld, 'year_prefixes': years, 'contexts': len(ctx)}

    def lst(xs):
        return '[' + ', '.join(_cps(x) for x in xs) + ']'
    kb = '[' + ',\n   '.join('[' + ', '.join(_cps(''.join(r)) for r in rows) + ']' for rows in boards) + ']'
    return f'''/-! GENERATED by harness/translate.py (tables.py) from lib_trainer/detection_rules -- do not edit.
Literal tables of the detectors, as lists of code points. -/
namespace Pcfg.Generated.Tables

/-- per keyboard: row1, s_row1, row2, s_row2, row3, s_row3, row4, s_row4 (US qwerty, then jcuken) -/
def keyboards : List (List (List Nat)) :=
  {kb}

def minKeyboardRun : Nat := {min_run}

def falsePositiveWords : List (List Nat) := {lst(fpw)}

def tldList : List (List Nat) := {lst(tld)}

def yearPrefixes : List (List Nat) := {lst(years)}

def contextList : List (List Nat) := {lst(ctx)}

end Pcfg.Generated.Tables
'''


def _inline_helpers(root, rels, calls):
    """a call on the memo table that sits in a private helper which is itself only called from one function, with that
    function's own parameters as arguments, is attributed to that function (a three-line helper extracted from it)"""
    out = []
    for (base, fname, meth, args, line) in calls:
        rel = next(r for r in rels if os.path.basename(r) == base)
        tree = ast.parse(open(os.path.join(root, rel), encoding='utf-8').read())
        funcs = [n for n in ast.walk(tree) if isinstance(n, ast.FunctionDef)]
        helper = next((f for f in funcs if f.name == fname), None)
        sites = [(f, n) for f in funcs for n in ast.walk(f)
                 if isinstance(n, ast.Call) and isinstance(n.func, ast.Attribute) and n.func.attr == fname
                 and isinstance(n.func.value, ast.Name) and n.func.value.id == 'self']
        callers = {f.name for f, _ in sites}
        if helper is None or len(callers) != 1 or fname in callers:
            out.append((base, fname, meth, args, line))
            continue
        caller = sites[0][0]
        cparams = [a.arg for a in caller.args.args if a.arg != 'self']
        cstores = {nm.id for n in ast.walk(caller) if isinstance(n, (ast.Assign, ast.AugAssign, ast.For))
                   for t in (n.targets if isinstance(n, ast.Assign) else [n.target]) for nm in ast.walk(t) if isinstance(nm, ast.Name)}
        hparams = [a.arg for a in helper.args.args if a.arg != 'self']
        ok, mapped = True, None
        for _, call in sites:
            actual = {}
            for k, a in enumerate(call.args):
                if k < len(hparams):
                    actual[f"arg{k + 1}"] = a
            for kw in call.keywords:
                if kw.arg in hparams:
                    actual[f"arg{hparams.index(kw.arg) + 1}"] = kw.value
            this = []
            for a in args:
                e = actual.get(a)
                if e is not None and isinstance(e, ast.Name) and e.id in cparams and e.id not in cstores:
                    this.append(f"arg{cparams.index(e.id) + 1}")
                else:
                    this.append(a if e is None else ast.unparse(e))
            if mapped is not None and this != mapped:
                ok = False
            mapped = this
        if ok and mapped is not None:
            out.append((base, caller.name, meth, mapped, line))
        else:
            out.append((base, fname, meth, args, line))
    return out


def gen_omen_facts(root, report):
    """where the shared memo table (Optimizer) is read and written, and under which key"""
    rels = py_files(root, ['lib_guesser/omen', 'lib_guesser/pcfg_grammar.py'])
    calls = []
    for rel in rels:
        if rel.endswith('optimizer.py'):
            continue
        tree = ast.parse(open(os.path.join(root, rel), encoding='utf-8').read())
        for fn in ast.walk(tree):
            if not isinstance(fn, ast.FunctionDef):
                continue
            # names are normalised so that renaming a parameter or a local alias changes nothing: a parameter becomes `argK`
            # (K = its position after self); a local assigned exactly once, from a parameter, stands for that parameter
            params = [a.arg for a in fn.args.args if a.arg != 'self']
            stores = {}
            for n in ast.walk(fn):
                targets = []
                if isinstance(n, ast.Assign):
                    targets = [(t, n.value) for t in n.targets]
                elif isinstance(n, (ast.AugAssign, ast.AnnAssign)):
                    targets = [(n.target, None)]
                elif isinstance(n, ast.For):
                    targets = [(n.target, None)]
                for t, val in targets:
                    for nm in ast.walk(t):
                        if isinstance(nm, ast.Name):
                            stores.setdefault(nm.id, []).append(val)

            def norm(a):
                if isinstance(a, ast.Name):
                    name = a.id
                    if name not in params and len(stores.get(name, [])) == 1 and isinstance(stores[name][0], ast.Name) \
                            and stores[name][0].id in params and stores[name][0].id not in stores:
                        name = stores[name][0].id
                    if name in params and name not in stores:
                        return f"arg{params.index(name) + 1}"
                return ast.unparse(a)
            for n in ast.walk(fn):
                if isinstance(n, ast.Call) and isinstance(n.func, ast.Attribute) and isinstance(n.func.value, ast.Attribute) \
                        and n.func.value.attr == 'optimizer':
                    calls.append((os.path.basename(rel), fn.name, n.func.attr, [norm(a) for a in n.args[:3]], n.lineno))
    # where the memo table is constructed: ('body', function) / ('default-arg', function) / ('module', '')
    opt_sites = []
    for rel in py_files(root, ['lib_guesser', 'pcfg_guesser.py', 'prince_ling.py', 'lib_princeling']):
        t = ast.parse(open(os.path.join(root, rel), encoding='utf-8').read())
        parents = {}
        for node in ast.walk(t):
            for ch in ast.iter_child_nodes(node):
                parents[ch] = node
        for node in ast.walk(t):
            if isinstance(node, ast.Call) and getattr(node.func, 'id', getattr(node.func, 'attr', None)) == 'Optimizer':
                kind, fn = 'module', ''
                cur = node
                while cur in parents:
                    par = parents[cur]
                    if isinstance(par, ast.arguments):
                        kind = 'default-arg'
                    if isinstance(par, (ast.FunctionDef, ast.AsyncFunctionDef)):
                        fn = par.name
                        if kind != 'default-arg':
                            kind = 'body'
                        break
                    cur = par
                opt_sites.append((os.path.basename(rel), kind, fn))
    report['optimizer_sites'] = opt_sites
    calls = _inline_helpers(root, rels, calls)
    calls.sort(key=lambda c: (c[0], c[4]))
    report['optimizer_calls'] = [list(c[:4]) for c in calls]
    body = ',\n   '.join('(' + ', '.join([lean_str(c[0]), lean_str(c[1]), lean_str(c[2]), '[' + ', '.join(lean_str(a) for a in c[3]) + ']']) + ')'
                         for c in calls)
    # the end of `_calc_level` (lib_trainer/omen/smoothing.py): everything after the statement that takes the floor of the logarithm,
    # and the default of `max_level` - the clamp is the only thing the theorems use of the smoothing function
    stree = ast.parse(open(os.path.join(root, 'lib_trainer/omen/smoothing.py'), encoding='utf-8').read())
    cl = next((f for f in stree.body if isinstance(f, ast.FunctionDef) and f.name == '_calc_level'), None)
    if cl is None:
        raise TranslateError('_calc_level not found')
    stmts = [st for st in cl.body if not (isinstance(st, ast.Expr) and isinstance(st.value, ast.Constant))]
    k = next((i for i, st in enumerate(stmts) if 'math.floor' in ast.unparse(st)), None)
    if k is None:
        raise TranslateError('_calc_level: no floor statement')
    tail = [' '.join(ast.unparse(st).split()) for st in stmts[k + 1:]]

    # the tail translated statement by statement into a Lean function of (level, max_level): assignments to `level`, `if` / `elif` /
    # `else` over comparisons of names and integer literals, `return` - whatever shape the clamp is written in
    def t_expr(e):
        if isinstance(e, ast.Name) and e.id in ('level', 'max_level'):
            return 'level' if e.id == 'level' else 'maxLevel'
        if isinstance(e, ast.Constant) and type(e.value) is int:
            return f'({e.value} : Int)'
        raise TranslateError('_calc_level tail: unsupported expression ' + ast.unparse(e))

    def t_cond(c):
        ops_ = {ast.Gt: '>', ast.Lt: '<', ast.GtE: '≥', ast.LtE: '≤', ast.Eq: '='}
        if isinstance(c, ast.Compare) and len(c.ops) == 1 and type(c.ops[0]) in ops_:
            return f'{t_expr(c.left)} {ops_[type(c.ops[0])]} {t_expr(c.comparators[0])}'
        raise TranslateError('_calc_level tail: unsupported condition ' + ast.unparse(c))

    def t_block(sts):
        if not sts:
            raise TranslateError('_calc_level tail: falls off the end without a return')
        st, rest = sts[0], sts[1:]
        if isinstance(st, ast.Return) and st.value is not None:
            return t_expr(st.value)
        if isinstance(st, ast.Assign) and len(st.targets) == 1 and isinstance(st.targets[0], ast.Name) and st.targets[0].id == 'level':
            return f'(let level : Int := {t_expr(st.value)}; {t_block(rest)})'
        if isinstance(st, ast.If):
            return f'(if {t_cond(st.test)} then {t_block(list(st.body) + rest)} else {t_block(list(st.orelse) + rest)})'
        if isinstance(st, ast.Pass):
            return t_block(rest)
        raise TranslateError('_calc_level tail: unsupported statement ' + ast.unparse(st).split('\n')[0])
    clamp_lean = t_block(stmts[k + 1:])
    defaults = dict(zip([a.arg for a in cl.args.args][len(cl.args.args) - len(cl.args.defaults):], [ast.unparse(d) for d in cl.args.defaults]))
    report['calc_level_tail'] = tail
    calc_tail = ', '.join(lean_str(t) for t in tail)
    return f'''/-! GENERATED by harness/translate.py (tables.py) from lib_guesser/omen -- do not edit.
Every call on the shared memo table (`self.optimizer.<method>(...)`): file, enclosing function, method, first three arguments. -/
namespace Pcfg.Generated.OmenFacts

def optimizerCalls : List (String × String × String × List String) :=
  [{body}]

/-- every place where the memo table (`Optimizer`) is constructed: (file, kind, function); kind `body` = a fresh object each time
the function runs, `default-arg` / `module` = one object for the whole process -/
def optimizerSites : List (String × String × String) :=
  [{', '.join('(' + ', '.join(lean_str(x) for x in t3) + ')' for t3 in opt_sites)}]

/-- the statements of `_calc_level` after the one that takes the floor of the logarithm, and the default of its `max_level` -/
def calcLevelTail : List String := [{calc_tail}]

def calcLevelMaxDefault : String := {lean_str(defaults.get('max_level', '?'))}

/-- the same statements as a function: the value `_calc_level` returns when the floor of the logarithm is `level` -/
def calcLevelClamp (level maxLevel : Int) : Int :=
  {clamp_lean}

end Pcfg.Generated.OmenFacts
'''


def gen_ruledir_facts(root, report):
    """which counter (or fixed list of names) feeds the `filenames` entry of each config.ini section, and which counter (or fixed
    keys) the writer saves into each folder"""
    ctree = ast.parse(open(os.path.join(root, 'lib_trainer/config_file.py'), encoding='utf-8').read())
    funcs = {f.name: f for f in ctree.body if isinstance(f, ast.FunctionDef)}
    def section_info(fn):
        """(directory, filenames-source) of an add_* function; filenames-source: 'param' or a literal list"""
        directory, files = None, None
        for n in ast.walk(fn):
            if isinstance(n, ast.Call) and isinstance(n.func, ast.Attribute) and n.func.attr == 'set' and len(n.args) >= 3 \
                    and isinstance(n.args[1], ast.Constant):
                key = n.args[1].value
                if key == 'directory' and isinstance(n.args[2], ast.Constant):
                    directory = n.args[2].value
                if key == 'filenames':
                    v = n.args[2]
                    if isinstance(v, ast.Call) and getattr(v.func, 'attr', None) == 'dumps':
                        v = v.args[0]
                    if isinstance(v, ast.Name):
                        files = 'param'
                    elif isinstance(v, ast.List) and all(isinstance(e, ast.Constant) for e in v.elts):
                        files = [e.value for e in v.elts]
        return directory, files
    cfg = []
    create = funcs.get('create_config_file')
    if create is None:
        raise ValueError('create_config_file not found')
    for n in ast.walk(create):
        if isinstance(n, ast.Call) and isinstance(n.func, ast.Name) and n.func.id in funcs and n.func.id.startswith('add_'):
            d, files = section_info(funcs[n.func.id])
            if d is None or files is None:
                continue
            if files == 'param':
                src = None
                for a in n.args[1:]:
                    if isinstance(a, ast.Call) and getattr(a.func, 'id', None) == 'create_filename_list' and isinstance(a.args[0], ast.Attribute):
                        src = 'counter:' + a.args[0].attr
                if src is None:
                    raise ValueError('filenames argument of ' + n.func.id + ' not understood')
                cfg.append((n.lineno, d, src))
            else:
                cfg.append((n.lineno, d, 'names:' + ','.join(files)))
    cfg = [(d, s) for _, d, s in sorted(cfg)]
    # create_filename_list: str(key) + suffix
    suffix = None
    for n in ast.walk(funcs['create_filename_list']):
        if isinstance(n, ast.BinOp) and isinstance(n.op, ast.Add) and isinstance(n.right, ast.Constant) and isinstance(n.right.value, str):
            suffix = n.right.value
    wtree = ast.parse(open(os.path.join(root, 'lib_trainer/save_pcfg_data.py'), encoding='utf-8').read())
    wf = {f.name: f for f in wtree.body if isinstance(f, ast.FunctionDef)}
    save = wf['save_pcfg_data']
    wsuffix = None
    for n in ast.walk(wf['save_indexed_counters']):
        if isinstance(n, ast.BinOp) and isinstance(n.op, ast.Add) and isinstance(n.right, ast.Constant) and isinstance(n.right.value, str):
            wsuffix = n.right.value
    folder = None
    dicts = {}
    wr = []
    for st in ast.walk(save):
        pass
    for st in save.body:
        for n in ast.walk(st):
            if isinstance(n, ast.Assign) and len(n.targets) == 1 and isinstance(n.targets[0], ast.Name):
                name = n.targets[0].id
                v = n.value
                if name == 'folder' and isinstance(v, ast.Call) and getattr(v.func, 'attr', None) == 'join' and isinstance(v.args[-1], ast.Constant):
                    folder = v.args[-1].value
                elif isinstance(v, ast.Dict) and all(isinstance(k, ast.Constant) for k in v.keys):
                    dicts[name] = [str(k.value) for k in v.keys]
            if isinstance(n, ast.Call) and getattr(n.func, 'id', None) == 'save_indexed_counters':
                a = n.args[1]
                if isinstance(a, ast.Attribute):
                    wr.append((folder, 'counter:' + a.attr))
                elif isinstance(a, ast.Name) and a.id in dicts:
                    wr.append((folder, 'names:' + ','.join(k + (wsuffix or '') for k in dicts[a.id])))
                else:
                    raise ValueError('save_indexed_counters argument not understood')
    report['ruledir'] = {'config': cfg, 'writer': wr, 'suffix': [suffix, wsuffix]}
    def lit(xs):
        return '[' + ', '.join('(' + lean_str(a) + ', ' + lean_str(b) + ')' for a, b in xs) + ']'
    return f'''/-! GENERATED by harness/translate.py (tables.py) from lib_trainer/config_file.py and lib_trainer/save_pcfg_data.py -- do not edit.
`configSources`: per config.ini section (in the order `create_config_file` adds them) its `directory` and where its `filenames` entry
comes from (`counter:<attribute of the parser>` through `create_filename_list`, or `names:<fixed list>`).
`writerSources`: per `save_indexed_counters` call of `save_pcfg_data` the folder and what is saved into it (same notation; fixed
dict keys are shown with the writer's suffix).  `configSuffix` / `writerSuffix`: what is appended to `str(key)`. -/
namespace Pcfg.Generated.RuleDir

def configSources : List (String × String) := {lit(cfg)}

def writerSources : List (String × String) := {lit(wr)}

def configSuffix : String := {lean_str(suffix or '')}
def writerSuffix : String := {lean_str(wsuffix or '')}

end Pcfg.Generated.RuleDir
'''

MUTATORS = {('shutil', 'copytree'), ('shutil', 'rmtree'), ('shutil', 'move'), ('shutil', 'copy'), ('shutil', 'copy2'), ('shutil', 'copyfile'),
            ('os', 'remove'), ('os', 'unlink'), ('os', 'rename'), ('os', 'replace'), ('os', 'rmdir'), ('os', 'makedirs'), ('os', 'mkdir'),
            ('os', 'removedirs'), ('os', 'truncate')}


def gen_edit_fs(root, report):
    """every call in edit_rules.py that can change the file system: opens for writing and shutil / os mutators; the file a write-open
    names is resolved through a local `os.path.join(..., 'a', 'b')` assignment to its constant tail"""
    rel = 'edit_rules.py'
    tree = ast.parse(open(os.path.join(root, rel), encoding='utf-8').read())
    writes = []
    retarget = False
    for fn in ast.walk(tree):
        if not isinstance(fn, ast.FunctionDef):
            continue
        joins = {}
        for n in ast.walk(fn):
            if isinstance(n, ast.Assign) and len(n.targets) == 1 and isinstance(n.targets[0], ast.Name) and isinstance(n.value, ast.Call) \
                    and ast.unparse(n.value.func) == 'os.path.join':
                tail = []
                for a in reversed(n.value.args):
                    if isinstance(a, ast.Constant) and isinstance(a.value, str):
                        tail.insert(0, a.value)
                    else:
                        break
                joins[n.targets[0].id] = ('/'.join(tail), n.lineno)
        for n in ast.walk(fn):
            if not isinstance(n, ast.Call):
                continue
            f = n.func
            name = ast.unparse(f)
            if name in ('open', 'codecs.open', 'io.open'):
                mode = None
                if len(n.args) >= 2:
                    mode = n.args[1]
                for kw in n.keywords:
                    if kw.arg == 'mode':
                        mode = kw.value
                if mode is None:
                    continue
                if not isinstance(mode, ast.Constant):
                    writes.append((n.lineno, fn.name, 'open-mode-not-constant', ast.unparse(n.args[0])))
                    continue
                if any(ch in str(mode.value) for ch in 'wax+'):
                    tgt = n.args[0]
                    txt = joins[tgt.id][0] if isinstance(tgt, ast.Name) and tgt.id in joins else ast.unparse(tgt)
                    writes.append((n.lineno, fn.name, 'open-write', txt))
            elif isinstance(f, ast.Attribute) and isinstance(f.value, ast.Name) and (f.value.id, f.attr) in MUTATORS:
                writes.append((n.lineno, fn.name, f"{f.value.id}.{f.attr}", ', '.join(ast.unparse(a) for a in n.args)))
            elif isinstance(f, ast.Attribute) and f.attr in ('write_text', 'write_bytes', 'unlink', 'rmdir', 'touch'):
                writes.append((n.lineno, fn.name, 'path.' + f.attr, ast.unparse(f.value)))
        if fn.name == 'edit_rules':
            # does the --copy branch make the copy the ruleset that is edited, before the grammar file name is computed?
            gline = joins.get('grammar_file', (None, None))[1]
            for st in fn.body:
                if isinstance(st, ast.If) and 'copy' in ast.unparse(st.test):
                    for n in ast.walk(st):
                        if isinstance(n, ast.Assign) and ast.unparse(n.targets[0]) == "config['rule']" and 'copy' in ast.unparse(n.value):
                            if gline is not None and n.lineno < gline:
                                retarget = True
    writes.sort()
    # function names and argument names are not part of the fact: (kind, target), target only for opens
    norm = [(w[2], w[3] if w[2].startswith('open') else '') for w in writes]
    report['edit_fs'] = [list(w[1:]) for w in writes]
    body = ', '.join('(' + lean_str(a) + ', ' + lean_str(b) + ')' for a, b in norm)
    return f'''/-! GENERATED by harness/translate.py (tables.py) from edit_rules.py -- do not edit.
Every call that can change the file system: (kind, file opened for writing - the constant tail of its os.path.join).  `retargetsToCopy`: with `--copy` the ruleset that is
edited is re-bound to the copy before the grammar file name is computed. -/
namespace Pcfg.Generated.EditFs

def writes : List (String × String) := [{body}]

def retargetsToCopy : Bool := {'true' if retarget else 'false'}

end Pcfg.Generated.EditFs
'''


def gen_writer_loops(root, report):
    """the loops of the OMEN rule writer: for every `for ... in <iter>` whose body writes to the file opened last, the file name literal
    and the iteration expression; and how the containers iterated by `.most_common()` are constructed"""
    rel = 'lib_trainer/omen/omen_file_output.py'
    tree = ast.parse(open(os.path.join(root, rel), encoding='utf-8').read())
    fn = find_func(tree, 'save_omen_rules_to_disk')
    if fn is None:
        raise TranslateError('save_omen_rules_to_disk not found')
    loops, ctors, guards = [], [], []
    cur = {'name': None}

    def guarded(loop):
        """does the body of a writing loop decide, record by record, whether to write (an `if`, `continue`, `break` or `try` in it)?"""
        for st in loop.body:
            if isinstance(st, ast.For):
                continue
            for n in ast.walk(st):
                if isinstance(n, (ast.If, ast.Continue, ast.Break, ast.Try, ast.IfExp)):
                    return True
        return False

    def writes(node):
        for n in ast.walk(node):
            if isinstance(n, ast.Call) and isinstance(n.func, ast.Attribute) and n.func.attr in ('write', 'writerow', 'writelines', 'writerows'):
                return True
            if isinstance(n, ast.Call) and getattr(n.func, 'id', None) == 'print' and any(k.arg == 'file' for k in n.keywords):
                return True
        return False

    def walk(stmts):
        for st in stmts:
            if isinstance(st, ast.Assign) and len(st.targets) == 1 and isinstance(st.targets[0], ast.Name):
                tgt = st.targets[0].id
                if tgt == 'full_path' and isinstance(st.value, ast.Call) and ast.unparse(st.value.func) == 'os.path.join' \
                        and st.value.args and isinstance(st.value.args[-1], ast.Constant):
                    cur['name'] = st.value.args[-1].value
                elif isinstance(st.value, (ast.Call, ast.Dict, ast.List)):
                    ctors.append((tgt, ast.unparse(st.value)))
            if isinstance(st, ast.For):
                if writes(st):
                    inner = [x for x in st.body if isinstance(x, ast.For) and writes(x)]
                    loops.append((cur['name'] or '?', ast.unparse(st.iter)))
                    guards.append((cur['name'] or '?', 'guarded' if guarded(st) else 'every-record'))
                    for x in inner:
                        loops.append((cur['name'] or '?', ast.unparse(x.iter)))
                        guards.append((cur['name'] or '?', 'guarded' if guarded(x) else 'every-record'))
                else:
                    walk(st.body)
                continue
            for field in ('body', 'orelse', 'finalbody'):
                sub = getattr(st, field, None)
                if isinstance(sub, list):
                    walk(sub)
            if isinstance(st, ast.Try):
                for h in st.handlers:
                    walk(h.body)
    walk(fn.body)
    if not loops:
        raise TranslateError('no writer loop found in save_omen_rules_to_disk')
    mc = sorted({it.split('.most_common')[0].replace('reversed(', '') for _, it in loops if '.most_common()' in it})
    ctor_of = [(name, next((c for n, c in ctors if n == name), 'parameter')) for name in mc]
    report['writer_loops'] = {'loops': loops, 'constructors': ctor_of}
    body = ',\n   '.join(f"({lean_str(a)}, {lean_str(b)})" for a, b in loops)
    cbody = ', '.join(f"({lean_str(a)}, {lean_str(b)})" for a, b in ctor_of)
    return f'''/-! GENERATED by harness/translate.py (tables.py) from {rel} -- do not edit.
Every loop of `save_omen_rules_to_disk` whose body writes a record: (name of the file opened last, iteration expression); and the
constructor of every container iterated through `.most_common()` (`parameter` = handed in by the caller). -/
namespace Pcfg.Generated.WriterLoops

def omenLoops : List (String × String) :=
  [{body}]

def mostCommonContainers : List (String × String) := [{cbody}]

/-- per writing loop (same order as `omenLoops`): `every-record` = the body writes one record per iteration with no `if` / `continue` /
`break` / `try` in it, `guarded` = it decides per record -/
def omenLoopBodies : List (String × String) := [{', '.join(f"({lean_str(a)}, {lean_str(b)})" for a, b in guards)}]

end Pcfg.Generated.WriterLoops
'''


def _cli_facts(root, rel):
    """(assignments to program_info[...] per function, add_argument facts) of one command-line program"""
    tree = ast.parse(open(os.path.join(root, rel), encoding='utf-8').read())
    assigns, options = [], []
    for fn in tree.body:
        if not isinstance(fn, ast.FunctionDef):
            continue
        for n in ast.walk(fn):
            tgts = []
            if isinstance(n, ast.Assign):
                tgts = [(t, ast.unparse(n.value)) for t in n.targets]
            elif isinstance(n, ast.AugAssign):
                tgts = [(n.target, 'aug:' + ast.unparse(n.value))]
            for t, val in tgts:
                if isinstance(t, ast.Subscript) and ast.unparse(t.value) == 'program_info':
                    key = t.slice.value if isinstance(t.slice, ast.Constant) else '<dynamic>'
                    assigns.append((fn.name, str(key), val, n.lineno))
            if isinstance(n, ast.Call) and isinstance(n.func, ast.Attribute) and ast.unparse(n.func.value) == 'program_info' \
                    and n.func.attr in ('update', 'setdefault', 'pop', 'clear', '__setitem__'):
                assigns.append((fn.name, '<dynamic>', ast.unparse(n), n.lineno))
            if fn.name == 'parse_command_line' and isinstance(n, ast.Call) and isinstance(n.func, ast.Attribute) and n.func.attr == 'add_argument':
                flags = [a.value for a in n.args if isinstance(a, ast.Constant) and isinstance(a.value, str)]
                long = next((f for f in flags if f.startswith('--')), flags[0] if flags else '?')
                kw = {k.arg: ast.unparse(k.value) for k in n.keywords if k.arg}
                options.append((long, kw.get('default', 'None'), kw.get('type', 'None'), kw.get('action', "'store'"), kw.get('const', 'None'),
                                kw.get('dest', 'None'), n.lineno))
    assigns.sort(key=lambda a: a[3])
    options.sort(key=lambda o: o[6])
    return [a[:3] for a in assigns], [o[:6] for o in options]


def gen_cli_options(root, report):
    """command line glue of trainer.py and pcfg_guesser.py: every add_argument (flag, default, type, action, const, dest) and every
    assignment to `program_info[...]` anywhere in the two programs (function, key, right-hand side)"""
    ta, to = _cli_facts(root, 'trainer.py')
    ga, go = _cli_facts(root, 'pcfg_guesser.py')
    ea, eo = _cli_facts(root, 'edit_rules.py')
    pa, po = _cli_facts(root, 'prince_ling.py')
    sa, so = _cli_facts(root, 'password_scorer.py')
    if not ta or not ga or not to or not go or not ea or not eo or not pa or not po or not sa or not so:
        raise TranslateError('command line glue not found')
    report['cli_options'] = {'trainer_assign': len(ta), 'guesser_assign': len(ga), 'trainer_options': len(to), 'guesser_options': len(go),
                             'edit_assign': len(ea), 'prince_assign': len(pa), 'scorer_assign': len(sa)}

    def l3(items):
        return '[' + ',\n   '.join('(' + ', '.join(lean_str(x) for x in it) + ')' for it in items) + ']'
    # where each tool looks for `Rules`: the first argument of every `os.path.join(<root>, 'Rules', ...)`; a root that is a local name
    # assigned exactly once in the same function stands for the expression it was given
    roots = []
    for script in ('trainer.py', 'pcfg_guesser.py', 'edit_rules.py', 'prince_ling.py', 'password_scorer.py'):
        stree = ast.parse(open(os.path.join(root, script), encoding='utf-8').read())
        for fn_ in [n for n in ast.walk(stree) if isinstance(n, ast.FunctionDef)]:
            assigned = {}
            for n in ast.walk(fn_):
                if isinstance(n, ast.Assign) and len(n.targets) == 1 and isinstance(n.targets[0], ast.Name):
                    assigned.setdefault(n.targets[0].id, []).append(n.value)
            for n in ast.walk(fn_):
                if isinstance(n, ast.Call) and ast.unparse(n.func) == 'os.path.join' and len(n.args) >= 2 \
                        and isinstance(n.args[1], ast.Constant) and n.args[1].value == 'Rules':
                    r_ = n.args[0]
                    if isinstance(r_, ast.Name) and len(assigned.get(r_.id, [])) == 1:
                        r_ = assigned[r_.id][0]
                    # ... and a call without arguments of a function of the same file that does nothing but return an expression
                    if isinstance(r_, ast.Call) and isinstance(r_.func, ast.Name) and not r_.args and not r_.keywords:
                        hf = next((f_ for f_ in stree.body if isinstance(f_, ast.FunctionDef) and f_.name == r_.func.id), None)
                        if hf is not None:
                            hb = [st for st in hf.body if not (isinstance(st, ast.Expr) and isinstance(st.value, ast.Constant))]
                            if len(hb) == 1 and isinstance(hb[0], ast.Return) and hb[0].value is not None:
                                r_ = hb[0].value
                    roots.append((script, ast.unparse(r_).replace(' ', '')))
    report['rules_dir_roots'] = roots
    roots_lit = '[' + ', '.join('(' + lean_str(a) + ', ' + lean_str(b) + ')' for a, b in roots) + ']'
    return f'''/-! GENERATED by harness/translate.py (tables.py) from trainer.py, pcfg_guesser.py, edit_rules.py, prince_ling.py and password_scorer.py -- do not edit.
`*Assign`: every assignment to `program_info[...]` (function, key, right-hand side; `<dynamic>` = computed key or a dict method).
`*Options`: every `add_argument` (long flag, default, type, action, const, dest). -/
namespace Pcfg.Generated.CliOptions

def trainerAssign : List (String × String × String) :=
  {l3(ta)}

def trainerOptions : List (String × String × String × String × String × String) :=
  {l3(to)}

def guesserAssign : List (String × String × String) :=
  {l3(ga)}

def guesserOptions : List (String × String × String × String × String × String) :=
  {l3(go)}

/-- `edit_rules.py` -/
def editAssign : List (String × String × String) :=
  {l3(ea)}

def editOptions : List (String × String × String × String × String × String) :=
  {l3(eo)}

/-- `prince_ling.py` -/
def princeAssign : List (String × String × String) :=
  {l3(pa)}

def princeOptions : List (String × String × String × String × String × String) :=
  {l3(po)}

/-- `password_scorer.py` -/
def scorerAssign : List (String × String × String) :=
  {l3(sa)}

def scorerOptions : List (String × String × String × String × String × String) :=
  {l3(so)}

/-- where each tool looks for the `Rules` folder: (program, first argument of its `os.path.join(..., 'Rules', ...)`) -/
def rulesDirRoots : List (String × String) := {roots_lit}

end Pcfg.Generated.CliOptions
'''


def gen_reader_uses(root, report):
    """what the trainer reads from the training-file reader object (`file_input.<attr>`) outside the reader itself, and in which role:
    call / config.set (reaches config.ini) / print / if-print-only (the test of an `if` that only prints) / other"""
    uses = []
    for rel in py_files(root, ['trainer.py', 'lib_trainer']):
        if 'unit_tests' in rel or 'future_research' in rel or rel.endswith('trainer_file_input.py'):
            continue
        t = ast.parse(open(os.path.join(root, rel), encoding='utf-8').read())
        parents = {}
        for node in ast.walk(t):
            for ch in ast.iter_child_nodes(node):
                parents[ch] = node
        for node in ast.walk(t):
            if isinstance(node, ast.Attribute) and isinstance(node.value, ast.Name) and node.value.id == 'file_input':
                role, fn = 'other', '<module>'
                par = parents.get(node)
                if isinstance(par, ast.Call) and par.func is node:
                    role = 'call'
                cur = node
                while cur in parents:
                    prev, cur = cur, parents[cur]
                    if role == 'other' and isinstance(cur, ast.Call):
                        f = ast.unparse(cur.func)
                        if f == 'print':
                            role = 'print'
                        elif f.endswith('config.set') or f == 'config.set':
                            role = 'config.set'
                    if role == 'other' and isinstance(cur, ast.If) and prev is cur.test:
                        only_print = all(isinstance(x, ast.Expr) and isinstance(x.value, ast.Call) and ast.unparse(x.value.func) == 'print'
                                         for x in cur.body + cur.orelse)
                        role = 'if-print-only' if only_print else 'if'
                    if isinstance(cur, (ast.FunctionDef, ast.AsyncFunctionDef)):
                        fn = cur.name
                        break
                uses.append((rel, fn, node.attr, role, node.lineno))
    if not uses:
        raise TranslateError('no use of the reader object found')
    uses.sort(key=lambda u: (u[0], u[4]))
    report['reader_uses'] = [u[:4] for u in uses]
    body = ',\n   '.join('(' + ', '.join(lean_str(x) for x in u[:4]) + ')' for u in uses)
    return f'''/-! GENERATED by harness/translate.py (tables.py) from trainer.py and lib_trainer -- do not edit.
Every read of an attribute of the training-file reader (`file_input.<attr>`) outside `trainer_file_input.py`:
(file, function, attribute, role). -/
namespace Pcfg.Generated.ReaderUses

def uses : List (String × String × String × String) :=
  [{body}]

end Pcfg.Generated.ReaderUses
'''

def gen_process_state(root, report):
    """state that outlives a call and belongs to no object a caller holds: module-level and class-level mutable containers, cache
    decorators and calls (`functools.lru_cache` / `cache`), mutable or computed default arguments, `global` statements - in the four
    library packages.  The models are pure functions of the objects handed in; this table is what that abstraction leaves out"""
    found = []
    mut_nodes = ('List', 'Dict', 'Set', 'ListComp', 'DictComp', 'SetComp')
    mut_calls = {'list', 'dict', 'set', 'Counter', 'defaultdict', 'OrderedDict', 'deque', 'collections.Counter', 'collections.defaultdict',
                 'collections.OrderedDict', 'collections.deque', 'bytearray'}

    def mutable(v):
        if v is None:
            return None
        if type(v).__name__ in mut_nodes:
            return type(v).__name__.lower()
        if isinstance(v, ast.Call) and ast.unparse(v.func) in mut_calls:
            return ast.unparse(v.func) + '()'
        return None
    for pkg in ('lib_guesser', 'lib_trainer', 'lib_scorer', 'lib_princeling'):
        for dp, dn, fns in sorted(os.walk(os.path.join(root, pkg))):
            if 'future_research' in dp or '__pycache__' in dp:
                continue
            for fn in sorted(fns):
                if not fn.endswith('.py') or fn.startswith('test_'):
                    continue
                full = os.path.join(dp, fn)
                rel = os.path.relpath(full, root).replace(os.sep, '/')
                with warnings_off():
                    tree = ast.parse(open(full, encoding='utf-8').read())

                # a container with content that nothing in its module ever changes is a constant, not state
                mutators = {'append', 'add', 'update', 'setdefault', 'pop', 'popitem', 'clear', 'extend', 'insert', 'remove', 'discard', 'sort',
                            'reverse', 'appendleft', 'move_to_end', 'subtract'}

                def changed(name):
                    def is_it(e):
                        return (isinstance(e, ast.Name) and e.id == name) or (isinstance(e, ast.Attribute) and e.attr == name)
                    for n_ in ast.walk(tree):
                        if isinstance(n_, (ast.Assign, ast.AugAssign, ast.Delete)):
                            tgs = n_.targets if isinstance(n_, (ast.Assign, ast.Delete)) else [n_.target]
                            for t_ in tgs:
                                if isinstance(t_, ast.Subscript) and is_it(t_.value):
                                    return True
                                if isinstance(n_, ast.AugAssign) and is_it(t_):
                                    return True
                        if isinstance(n_, ast.Call) and isinstance(n_.func, ast.Attribute) and n_.func.attr in mutators and is_it(n_.func.value):
                            return True
                        if isinstance(n_, ast.Return) and n_.value is not None and is_it(n_.value):
                            return True      # handed out: whoever gets it can change it
                    return False

                def empty(v):
                    return (isinstance(v, (ast.List, ast.Set)) and not v.elts) or (isinstance(v, ast.Dict) and not v.keys) or \
                        (isinstance(v, ast.Call) and not v.args and not v.keywords)

                def scan(body, scope):
                    for st in body:
                        if isinstance(st, (ast.Assign, ast.AnnAssign)):
                            k = mutable(st.value)
                            tg = st.targets[0] if isinstance(st, ast.Assign) else st.target
                            nm = tg.id if isinstance(tg, ast.Name) else None
                            if k and (nm is None or empty(st.value) or changed(nm)):
                                found.append((rel, scope, ast.unparse(tg), k))
                        elif isinstance(st, ast.ClassDef):
                            scan(st.body, 'class ' + st.name)
                        elif isinstance(st, (ast.If, ast.Try)):
                            scan(getattr(st, 'body', []), scope)
                            scan(getattr(st, 'orelse', []), scope)
                scan(tree.body, 'module')
                for n in ast.walk(tree):
                    if isinstance(n, (ast.FunctionDef, ast.AsyncFunctionDef)):
                        for d in n.decorator_list:
                            if 'cache' in ast.unparse(d):
                                found.append((rel, 'def ' + n.name, n.name, 'decorator ' + ast.unparse(d).split('(')[0]))
                        pos = n.args.args[len(n.args.args) - len(n.args.defaults):]
                        for a, dv in list(zip(pos, n.args.defaults)) + [(a, dv) for a, dv in zip(n.args.kwonlyargs, n.args.kw_defaults) if dv is not None]:
                            k = mutable(dv)
                            if k or isinstance(dv, ast.Call):
                                found.append((rel, 'def ' + n.name, a.arg, 'default ' + (k or ast.unparse(dv)[:40])))
                    if isinstance(n, ast.Global):
                        found.append((rel, 'global', ','.join(n.names), 'global'))
                    if isinstance(n, ast.Call) and ast.unparse(n.func).split('.')[-1] in ('lru_cache', 'cache', 'cached_property') \
                            and not any(isinstance(p_, (ast.FunctionDef, ast.AsyncFunctionDef)) and n in p_.decorator_list for p_ in ast.walk(tree)):
                        found.append((rel, 'call', ast.unparse(n.func), 'cache call'))
    found = sorted(set(found))
    report['process_wide_state'] = found
    body = ', '.join('(' + ', '.join(lean_str(x) for x in t4) + ')' for t4 in found)
    return f'''/-! GENERATED by harness/translate.py (tables.py) from lib_guesser, lib_trainer, lib_scorer, lib_princeling -- do not edit.
State that outlives a call and belongs to no object a caller holds: (file, scope, name, kind) for every module-level or class-level
mutable container, every cache decorator or cache call, every mutable or computed default argument, every `global` statement. -/
namespace Pcfg.Generated.ProcessState

def processWideState : List (String × String × String × String) := [{body}]

end Pcfg.Generated.ProcessState
'''


REF_DIR = os.path.join(os.path.dirname(os.path.abspath(__file__)), 'skeletons', 'ref_generated')


def extra_modules(root, report, record=False):
    """each table module is extracted on its own; when the source no longer has the shape the extractor understands, the module
    recorded last (`--record`) is used instead and the fact is reported under `table_mismatch` - exactly like a restructured
    function in the skeleton + holes scheme: the tie for what that table describes is then the correspondence alone"""
    out = {}
    report.setdefault('table_mismatch', [])
    os.makedirs(REF_DIR, exist_ok=True)
    for fname, gen in (('PrintSites.lean', gen_print_sites), ('CheckValid.lean', gen_check_valid), ('Session.lean', gen_session_facts),
                       ('Tables.lean', gen_detector_tables), ('OmenFacts.lean', gen_omen_facts),
                       ('RuleDir.lean', gen_ruledir_facts), ('EditFs.lean', gen_edit_fs),
                       ('WriterLoops.lean', gen_writer_loops), ('CliOptions.lean', gen_cli_options), ('ReaderUses.lean', gen_reader_uses), ('ProcessState.lean', gen_process_state)):
        ref = os.path.join(REF_DIR, fname)
        try:
            text = gen(root, report)
        except Exception as e:          # TranslateError or anything the AST walk trips over
            if record or not os.path.exists(ref):
                raise
            report['table_mismatch'].append({'module': fname, 'reason': f"{type(e).__name__}: {e}"[:300]})
            with open(ref, encoding='utf-8') as f:
                text = f.read()
        else:
            if record:
                with open(ref, 'w', encoding='utf-8') as f:
                    f.write(text)
        out[fname] = text
    return out
