#!/usr/bin/env python3
"""Source -> Lean translator (the "regenerated model" half of the tie, DESIGN.md §3.1).

For every modelled Python function a *skeleton* is recorded in harness/skeletons/: the function's
AST with docstring removed and every comparison operator, small integer constant and boolean
constant replaced by a hole.  On each run the current source is reduced the same way:

* skeleton identical  -> the hole values (operators / constants) are read from the *current* source
  and substituted into the Lean templates below, producing `Generated/*.lean`.  The theorems are then
  re-checked by Lean against what the code says now.
* skeleton differs    -> the function was restructured.  The reference hole values are used for that
  function (hand-written model) and the function is reported in `shape_mismatch`; the tie for it is
  then the correspondence check alone, and the caller is told so.

Literal tables (keyboard layouts, TLD list, context strings, ...) and print-site tables are extracted
directly from the AST.

Usage: translate.py <source-root> <out-dir> [--record]
Prints a JSON report on stdout.
"""
import ast
import hashlib
import json
import os
import sys

HERE = os.path.dirname(os.path.abspath(__file__))
SKEL = os.path.join(HERE, 'skeletons')


class TranslateError(Exception):
    pass


# ---------------------------------------------------------------------------------------------
# skeleton + holes

CMP = {ast.Lt: 'lt', ast.LtE: 'le', ast.Gt: 'gt', ast.GtE: 'ge', ast.Eq: 'eq', ast.NotEq: 'ne',
       ast.In: 'in', ast.NotIn: 'notin', ast.Is: 'is', ast.IsNot: 'isnot'}


class Holer(ast.NodeTransformer):
    def __init__(self):
        self.holes = []

    def visit_Compare(self, node):
        ops = [CMP[type(o)] for o in node.ops]
        k = len(self.holes)
        self.holes.append(ops if len(ops) > 1 else ops[0])
        args = [self.visit(node.left)] + [self.visit(c) for c in node.comparators]
        return ast.Call(func=ast.Name(id=f'__CMP{k}__', ctx=ast.Load()), args=args, keywords=[])

    def visit_Constant(self, node):
        if isinstance(node.value, bool):
            k = len(self.holes)
            self.holes.append(node.value)
            return ast.Name(id=f'__BOOL{k}__', ctx=ast.Load())
        if isinstance(node.value, int):
            k = len(self.holes)
            self.holes.append(node.value)
            return ast.Name(id=f'__INT{k}__', ctx=ast.Load())
        return node


def strip_doc(fn):
    b = fn.body
    if b and isinstance(b[0], ast.Expr) and isinstance(b[0].value, ast.Constant) and isinstance(b[0].value.value, str):
        fn.body = b[1:] or [ast.Pass()]
    return fn


def find_func(tree, qualname):
    body = tree.body
    node = None
    for p in qualname.split('.'):
        node = next((n for n in body if isinstance(n, (ast.FunctionDef, ast.ClassDef)) and n.name == p), None)
        if node is None:
            return None
        body = node.body
    return node


def skeleton_of(fn):
    import copy
    fn = strip_doc(copy.deepcopy(fn))
    fn.decorator_list = []
    h = Holer()
    new = h.visit(fn)
    ast.fix_missing_locations(new)
    return ast.unparse(new) + '\n', h.holes


# ---------------------------------------------------------------------------------------------
# modelled functions: key -> (file, qualname)

SITES = {
    # priority queue / deadbeat dad
    'qi_lt': ('lib_guesser/priority_queue.py', 'QueueItem.__lt__'),
    'qi_le': ('lib_guesser/priority_queue.py', 'QueueItem.__le__'),
    'qi_eq': ('lib_guesser/priority_queue.py', 'QueueItem.__eq__'),
    'qi_ne': ('lib_guesser/priority_queue.py', 'QueueItem.__ne__'),
    'qi_gt': ('lib_guesser/priority_queue.py', 'QueueItem.__gt__'),
    'qi_ge': ('lib_guesser/priority_queue.py', 'QueueItem.__ge__'),
    'pq_init': ('lib_guesser/priority_queue.py', 'PcfgQueue.__init__'),
    'pq_next': ('lib_guesser/priority_queue.py', 'PcfgQueue.next'),
    'pq_insert': ('lib_guesser/priority_queue.py', 'PcfgQueue.insert_queue'),
    'pq_restore_base': ('lib_guesser/priority_queue.py', 'PcfgQueue.restore_base_item'),
    'pq_update_save': ('lib_guesser/priority_queue.py', 'PcfgQueue.update_save_config'),
    'init_base': ('lib_guesser/pcfg_grammar.py', 'PcfgGrammar.initalize_base_structures'),
    'find_children': ('lib_guesser/pcfg_grammar.py', 'PcfgGrammar.find_children'),
    'aymc': ('lib_guesser/pcfg_grammar.py', 'PcfgGrammar._are_you_my_child'),
    'find_prob': ('lib_guesser/pcfg_grammar.py', 'PcfgGrammar._find_prob'),
    'restore': ('lib_guesser/pcfg_grammar.py', 'PcfgGrammar.restore_prob_order'),
    'rec_restore': ('lib_guesser/pcfg_grammar.py', 'PcfgGrammar._recursive_restore_prob_order'),
    'ipa': ('lib_guesser/pcfg_grammar.py', 'PcfgGrammar.is_parent_around'),
    # expansion
    'rec_guesses': ('lib_guesser/pcfg_grammar.py', 'PcfgGrammar._recursive_guesses'),
    'omen_gen': ('lib_guesser/pcfg_grammar.py', 'PcfgGrammar.omen_generate_guesses'),
    'create_guesses': ('lib_guesser/pcfg_grammar.py', 'PcfgGrammar.create_guesses'),
    'print_guess': ('lib_guesser/pcfg_grammar.py', 'PcfgGrammar.print_guess'),
    # sessions
    'session_run': ('lib_guesser/cracking_session.py', 'CrackingSession.run'),
    'save_session': ('lib_guesser/cracking_session.py', 'CrackingSession._save_session'),
    'keypress': ('lib_guesser/cracking_session.py', 'keypress'),
    'restore_omen': ('lib_guesser/pcfg_grammar.py', 'PcfgGrammar.restore_omen'),
    'honey_run': ('lib_guesser/honeyword_session.py', 'HoneywordSession.run'),
    'prince_list': ('lib_princeling/wordlist_generation.py', 'create_prince_wordlist'),
    'random_walk': ('lib_guesser/pcfg_grammar.py', 'PcfgGrammar.random_walk'),
    'honey_guess': ('lib_guesser/pcfg_grammar.py', 'PcfgGrammar._honeyword_recursive_guess'),
    # trainer detectors
    'kw_detect': ('lib_trainer/detection_rules/keyboard_walk.py', 'detect_keyboard_walk'),
    'kw_find': ('lib_trainer/detection_rules/keyboard_walk.py', 'find_keyboard_row_column'),
    'kw_next': ('lib_trainer/detection_rules/keyboard_walk.py', 'is_next_on_keyboard'),
    'kw_interesting': ('lib_trainer/detection_rules/keyboard_walk.py', 'interesting_keyboard'),
    'email_detect': ('lib_trainer/detection_rules/email_detection.py', 'detect_email'),
    'email_list': ('lib_trainer/detection_rules/email_detection.py', 'email_detection'),
    'web_detect': ('lib_trainer/detection_rules/website_detection.py', 'detect_website'),
    'web_list': ('lib_trainer/detection_rules/website_detection.py', 'website_detection'),
    'year_detect': ('lib_trainer/detection_rules/year_detection.py', 'detect_year'),
    'year_list': ('lib_trainer/detection_rules/year_detection.py', 'year_detection'),
    'ctx_detect': ('lib_trainer/detection_rules/context_sensitive_detection.py', 'detect_context_sensitive'),
    'ctx_list': ('lib_trainer/detection_rules/context_sensitive_detection.py', 'context_sensitive_detection'),
    'alpha_detect': ('lib_trainer/detection_rules/alpha_detection.py', 'detect_alpha'),
    'alpha_list': ('lib_trainer/detection_rules/alpha_detection.py', 'alpha_detection'),
    'digit_detect': ('lib_trainer/detection_rules/digit_detection.py', 'detect_digits'),
    'digit_list': ('lib_trainer/detection_rules/digit_detection.py', 'digit_detection'),
    'other_list': ('lib_trainer/detection_rules/other_detection.py', 'other_detection'),
    'mw_train': ('lib_trainer/detection_rules/multiword_detector.py', 'MultiWordDetector.train'),
    'mw_count': ('lib_trainer/detection_rules/multiword_detector.py', 'MultiWordDetector._get_count'),
    'mw_identify': ('lib_trainer/detection_rules/multiword_detector.py', 'MultiWordDetector._identify_multi'),
    'mw_parse': ('lib_trainer/detection_rules/multiword_detector.py', 'MultiWordDetector.parse'),
    'base_structure': ('lib_trainer/base_structure.py', 'base_structure_creation'),
    'parser_parse': ('lib_trainer/pcfg_password_parser.py', 'PCFGPasswordParser.parse'),
    'parser_update': ('lib_trainer/pcfg_password_parser.py', 'PCFGPasswordParser._update_counter_len_indexed'),
    'scorer_pcfg_parse': ('lib_scorer/pcfg_password_scorer.py', 'PCFGPasswordScorer.parse'),
    'scorer_mw': ('lib_scorer/pcfg_password_scorer.py', 'PCFGPasswordScorer.create_multiword_detector'),
    # trainer OMEN
    'find_omen_level': ('lib_trainer/omen/evaluate_password.py', 'find_omen_level'),
    'rec_keyspace': ('lib_trainer/omen/evaluate_password.py', '_rec_calc_keyspace'),
    'calc_keyspace': ('lib_trainer/omen/evaluate_password.py', 'calc_omen_keyspace'),
    'al_init': ('lib_trainer/omen/alphabet_lookup.py', 'AlphabetLookup.__init__'),
    'al_parse': ('lib_trainer/omen/alphabet_lookup.py', 'AlphabetLookup.parse'),
    'smooth_grammar': ('lib_trainer/omen/smoothing.py', 'smooth_grammar'),
    'smooth_length': ('lib_trainer/omen/smoothing.py', 'smooth_length'),
    'calc_level': ('lib_trainer/omen/smoothing.py', '_calc_level'),
    'omen_save': ('lib_trainer/omen/omen_file_output.py', 'save_omen_rules_to_disk'),
    'scorer_parse': ('lib_scorer/omen_scorer.py', 'OmenScorer.parse'),
    'scorer_load': ('lib_scorer/omen_scorer.py', 'OmenScorer._load_omen'),
    # trainer output
    'calc_probs': ('lib_trainer/calculate_probabilities.py', 'calculate_probabilities'),
    'save_counter': ('lib_trainer/save_pcfg_data.py', 'calculate_and_save_counter'),
    'save_indexed': ('lib_trainer/save_pcfg_data.py', 'save_indexed_counters'),
    'save_pcfg_data': ('lib_trainer/save_pcfg_data.py', 'save_pcfg_data'),
    'run_trainer': ('lib_trainer/run_trainer.py', 'run_trainer'),
    'cfg_filename_list': ('lib_trainer/config_file.py', 'create_filename_list'),
    'cfg_create': ('lib_trainer/config_file.py', 'create_config_file'),
    # trainer input
    'read_password': ('lib_trainer/trainer_file_input.py', 'TrainerFileInput.read_password'),
    'tfi_init': ('lib_trainer/trainer_file_input.py', 'TrainerFileInput.__init__'),
    # edit_rules
    'edit_length': ('edit_rules.py', 'edit_length'),
    'edit_terminal_set': ('edit_rules.py', 'edit_terminal_set'),
    'edit_check_regex': ('edit_rules.py', 'check_regex'),
    'edit_rules': ('edit_rules.py', 'edit_rules'),
    # OMEN generator
    'gs_next_guess': ('lib_guesser/omen/guess_structure.py', 'GuessStructure.next_guess'),
    'gs_fill': ('lib_guesser/omen/guess_structure.py', 'GuessStructure._fill_out_parse_tree'),
    'gs_find_cp': ('lib_guesser/omen/guess_structure.py', 'GuessStructure._find_cp'),
    'gs_format': ('lib_guesser/omen/guess_structure.py', 'GuessStructure._format_guess'),
    'mc_init': ('lib_guesser/omen/markov_cracker.py', 'MarkovCracker.__init__'),
    'mc_first': ('lib_guesser/omen/markov_cracker.py', 'MarkovCracker._find_first_object'),
    'mc_next': ('lib_guesser/omen/markov_cracker.py', 'MarkovCracker.next_guess'),
    'mc_inc_len': ('lib_guesser/omen/markov_cracker.py', 'MarkovCracker._increase_len_for_target'),
    'mc_inc_ip': ('lib_guesser/omen/markov_cracker.py', 'MarkovCracker._increase_ip_for_target'),
    'mc_save': ('lib_guesser/omen/markov_cracker.py', 'MarkovCracker.save_session'),
    'mc_load': ('lib_guesser/omen/markov_cracker.py', 'MarkovCracker.load_session'),
    'opt_lookup': ('lib_guesser/omen/optimizer.py', 'Optimizer.lookup'),
    'opt_update': ('lib_guesser/omen/optimizer.py', 'Optimizer.update'),
    'opt_copy': ('lib_guesser/omen/optimizer.py', 'Optimizer.custom_copy'),
    # loaders
    'load_base': ('lib_guesser/grammar_io.py', '_load_base_structures'),
    'load_file': ('lib_guesser/grammar_io.py', '_load_from_file'),
    'load_terminals': ('lib_guesser/grammar_io.py', '_load_terminals'),
    'load_multi': ('lib_guesser/grammar_io.py', '_load_from_multiple_files'),
    'load_grammar': ('lib_guesser/grammar_io.py', 'load_grammar'),
    'omen_load_rules': ('lib_guesser/omen/input_file_io.py', 'load_rules'),
    'omen_load_ngrams': ('lib_guesser/omen/input_file_io.py', '_load_ngrams'),
    'omen_load_length': ('lib_guesser/omen/input_file_io.py', '_load_length'),
    'omen_load_alphabet': ('lib_guesser/omen/input_file_io.py', '_load_alphabet'),
}

# Lean templates.  {Pk}: hole k as a probability comparison  `O.cmp .op`
#                  {Nk}: hole k as a Nat comparison          `CmpOp.nat .op`
#                  {Ik}: hole k as a Nat literal, {Bk}: as a Bool literal
TEMPLATES = {}

TEMPLATES['PQ'] = '''import PcfgVerif.Model.Prob
/-! GENERATED by harness/translate.py from lib_guesser/priority_queue.py and
lib_guesser/pcfg_grammar.py -- do not edit.  Decision fragments of the next function. -/
namespace Pcfg.Generated.PQ
variable {P : Type}

/-- `QueueItem.__lt__(self, other)` on the two `prob` fields -/
def queueLt (O : POps P) (self other : P) : Bool := {P:qi_lt:0} self other
def queueLe (O : POps P) (self other : P) : Bool := {P:qi_le:0} self other
def queueEq (O : POps P) (self other : P) : Bool := {P:qi_eq:0} self other
def queueNe (O : POps P) (self other : P) : Bool := {P:qi_ne:0} self other
def queueGt (O : POps P) (self other : P) : Bool := {P:qi_gt:0} self other
def queueGe (O : POps P) (self other : P) : Bool := {P:qi_ge:0} self other

/-- `PcfgQueue.next`: `if len(self.p_queue) == 0: return None` -/
def queueEmpty (len : Nat) : Bool := {N:pq_next:0} len {I:pq_next:1}

/-- `initalize_base_structures`: index given to every replacement -/
def rootIndex : Nat := {I:init_base:0}

/-- `find_children` / `_recursive_restore_prob_order`:
    `if len(self.grammar[parent_type]) == parent_index + 1: continue` -/
def fcSkip (len_grammar parent_index : Nat) : Bool := {N:find_children:2} len_grammar (parent_index + {I:find_children:3})
def fcStep : Nat := {I:find_children:6}
def rrSkip (len_grammar parent_index : Nat) : Bool := {N:rec_restore:5} len_grammar (parent_index + {I:rec_restore:6})
def rrStep : Nat := {I:rec_restore:9}
def rrLeftDefault : Nat := {I:rec_restore:0}

/-- body of the `for pos, item in enumerate(child)` loop of `_are_you_my_child`;
    `none` = go on with the next position, `some b` = `return b` -/
def aymcBody (O : POps P) (pos parent_pos item_1 : Nat) (new_parent_prob parent_prob : P) : Option Bool :=
  if {N:aymc:0} pos parent_pos then none
  else if {N:aymc:1} item_1 {I:aymc:3} then none
  else if {P:aymc:7} new_parent_prob parent_prob then some {B:aymc:8}
  else if {P:aymc:9} new_parent_prob parent_prob then
    (if {N:aymc:10} pos parent_pos then some {B:aymc:11} else none)
  else none
def aymcDefault : Bool := {B:aymc:12}
def aymcStep : Nat := {I:aymc:6}

/-- body of the loop of `is_parent_around` -/
def ipaBody (O : POps P) (item_1 : Nat) (new_parent_prob max_prob : P) : Option Bool :=
  if {N:ipa:0} item_1 {I:ipa:2} then none
  else if {P:ipa:6} new_parent_prob max_prob then some {B:ipa:7}
  else none
def ipaDefault : Bool := {B:ipa:8}
def ipaStep : Nat := {I:ipa:5}

/-- guards at the top of `_recursive_restore_prob_order` -/
def restoreGuard (O : POps P) (parent_prob max_prob min_prob : P) (is_parent_around : Bool) : RestoreAct :=
  if {P:rec_restore:1} parent_prob min_prob then .stop
  else if {P:rec_restore:2} parent_prob max_prob then (if !is_parent_around then .save else .stop)
  else .descend

end Pcfg.Generated.PQ
'''

TEMPLATES['Expand'] = '''import PcfgVerif.Model.Prob
/-! GENERATED by harness/translate.py from lib_guesser/pcfg_grammar.py (`_recursive_guesses`,
`omen_generate_guesses`) -- do not edit. -/
namespace Pcfg.Generated.Expand

def isMarkov (category : Char) : Bool := {C:rec_guesses:8} category 'M'
def isCase (category : Char) : Bool := {C:rec_guesses:11} category 'C'
def maskStart : Nat := {I:rec_guesses:13}
def maskKeeps (item : Char) : Bool := {C:rec_guesses:14} item 'L'
def maskStep : Nat := {I:rec_guesses:15}

def cIsLeaf (len_pt : Nat) : Bool := {N:rec_guesses:16} len_pt {I:rec_guesses:17}
def cLeafCount : Nat := {I:rec_guesses:18}
def cLeafDec : Int := {I:rec_guesses:19}
def cLeafHit (limit : Int) : Bool := {Z:rec_guesses:20} limit {I:rec_guesses:21}
def cRecHit (limit : Int) : Bool := {Z:rec_guesses:23} limit {I:rec_guesses:24}

def pIsLeaf (len_pt : Nat) : Bool := {N:rec_guesses:25} len_pt {I:rec_guesses:26}
def pLeafCount : Nat := {I:rec_guesses:27}
def pLeafDec : Int := {I:rec_guesses:28}
def pLeafHit (limit : Int) : Bool := {Z:rec_guesses:29} limit {I:rec_guesses:30}
def pRecHit (limit : Int) : Bool := {Z:rec_guesses:32} limit {I:rec_guesses:33}

def ptTailC : Nat := {I:rec_guesses:22}
def ptTailP : Nat := {I:rec_guesses:31}
def numStart : Nat := {I:rec_guesses:0}

def omenStart : Nat := {I:omen_gen:0}
def omenCount : Nat := {I:omen_gen:2}
def omenDec : Int := {I:omen_gen:3}
def omenHit (limit : Int) : Bool := {Z:omen_gen:4} limit {I:omen_gen:5}

/-- `CrackingSession.run`: `limit = limit - num_generated_guesses; if limit <= 0: break` -/
def sessionHit (limit : Int) : Bool := {Z:session_run:10} limit {I:session_run:11}
/-- the same test after a restored OMEN remainder -/
def sessionOmenHit (limit : Int) : Bool := {Z:session_run:5} limit {I:session_run:6}
/-- `HoneywordSession.run` -/
def honeyHit (limit : Int) : Bool := {Z:honey_run:4} limit {I:honey_run:5}
def honeySeedStep : Nat := {I:honey_run:6}
/-- `create_prince_wordlist`: `while max_size is None or num_generated_guesses < max_size` -/
def princeGoOn (num max_size : Nat) : Bool := {N:prince_list:2} num max_size

end Pcfg.Generated.Expand
'''

TEMPLATES['EditRules'] = '''import PcfgVerif.Model.Prob
/-! GENERATED by harness/translate.py from edit_rules.py (`edit_length`) -- do not edit. -/
namespace Pcfg.Generated.EditRules

/-- length added to `shortest_length` / `longest_length` for a `Y` token -/
def yearLenLo : Nat := {I:edit_length:16}
def yearLenHi : Nat := {I:edit_length:17}
def startLo : Nat := {I:edit_length:4}
def startHi : Nat := {I:edit_length:5}
def isA (c : Char) : Bool := {C:edit_length:6} c 'A'
def isD (c : Char) : Bool := {C:edit_length:10} c 'D'
def isY (c : Char) : Bool := {C:edit_length:14} c 'Y'
def isO (c : Char) : Bool := {C:edit_length:18} c 'O'
def isK (c : Char) : Bool := {C:edit_length:22} c 'K'
def isX (c : Char) : Bool := {C:edit_length:26} c 'X'
/-- which component of `context_lengths` an `X` token adds to the shortest / longest length -/
def ctxLoIdx : Nat := {I:edit_length:29}
def ctxHiIdx : Nat := {I:edit_length:31}

/-- the three `if / elif / elif` tests that keep a line -/
def keepLen (lo hi min_length max_length : Nat) : Bool :=
  if (hi == 0) && ({N:edit_length:32} hi max_length) then true
  else if ({N:edit_length:33} lo min_length) && (max_length == 0) then true
  else if ({N:edit_length:34} lo min_length) && ({N:edit_length:35} hi max_length) then true
  else false

end Pcfg.Generated.EditRules
'''

TEMPLATES['Reader'] = '''import PcfgVerif.Model.Prob
/-! GENERATED by harness/translate.py from `TrainerFileInput.read_password` -- do not edit. -/
namespace Pcfg.Generated.Reader

/-- multiplicity of a line without `--prefixcount` -/
def defaultCount : Int := {I:read_password:7}
/-- `clean_password[5:-1]` -/
def hexDropFront : Nat := {I:read_password:8}
def hexDropBack : Nat := {I:read_password:9}
/-- index of the count token and of the first password token -/
def countTok : Nat := {I:read_password:5}
def restTok : Nat := {I:read_password:6}
/-- `for x in range(0, n)` -/
def yieldFrom : Int := {I:read_password:17}
def errStep : Int := {I:read_password:1}
def prefixOn (flag : Bool) : Bool := flag == {B:read_password:4}

end Pcfg.Generated.Reader
'''

# which template uses which sites (all holes of a site not mentioned in a template are pinned to
# their recorded reference value: a change there is reported as `unmodelled_hole_change`)
MODULES = {'PQ': 'PQ.lean', 'Expand': 'Expand.lean', 'EditRules': 'EditRules.lean', 'Reader': 'Reader.lean'}

LEAN_CMP = {'lt': '.lt', 'le': '.le', 'gt': '.gt', 'ge': '.ge', 'eq': '.eq', 'ne': '.ne'}


def render(template, holes_by_site, used):
    import re

    def sub(m):
        kind, site, k = m.group(1), m.group(2), int(m.group(3))
        holes = holes_by_site[site]
        if k >= len(holes):
            raise TranslateError(f"template refers to hole {k} of {site}, which has {len(holes)}")
        v = holes[k]
        used.setdefault(site, set()).add(k)
        if kind in 'PNZC':
            if v not in LEAN_CMP:
                raise TranslateError(f"{site} hole {k}: {v!r} is not a comparison usable here")
            return {'P': f"(O.cmp {LEAN_CMP[v]})", 'N': f"(CmpOp.nat {LEAN_CMP[v]})",
                    'Z': f"(CmpOp.int {LEAN_CMP[v]})", 'C': f"(CmpOp.chr {LEAN_CMP[v]})"}[kind]
        if kind == 'I':
            if not (isinstance(v, int) and not isinstance(v, bool) and v >= 0):
                raise TranslateError(f"{site} hole {k}: {v!r} is not a natural-number constant")
            return str(v)
        if kind == 'B':
            if not isinstance(v, bool):
                raise TranslateError(f"{site} hole {k}: {v!r} is not a boolean constant")
            return 'true' if v else 'false'
        raise TranslateError(kind)
    return re.sub(r'\{([PNZCIB]):([a-z_0-9]+):(\d+)\}', sub, template)


def load_sources(root):
    trees = {}
    for key, (path, _) in SITES.items():
        if path not in trees:
            with open(os.path.join(root, path), encoding='utf-8') as f:
                trees[path] = ast.parse(f.read())
    return trees


def main():
    args = [a for a in sys.argv[1:] if not a.startswith('--')]
    record = '--record' in sys.argv
    root, out = args[0], args[1]
    os.makedirs(SKEL, exist_ok=True)
    os.makedirs(out, exist_ok=True)
    report = {'shape_mismatch': [], 'hole_changes': [], 'unmodelled_hole_change': [], 'missing': [],
              'written': [], 'errors': []}
    trees = load_sources(root)
    holes_by_site = {}
    for key, (path, qual) in sorted(SITES.items()):
        fn = find_func(trees[path], qual)
        skel_file = os.path.join(SKEL, key + '.json')
        if fn is None:
            cur_skel, cur_holes = None, None
        else:
            cur_skel, cur_holes = skeleton_of(fn)
        if record:
            if fn is None:
                raise SystemExit(f"cannot record {key}: {qual} not found")
            with open(skel_file, 'w') as f:
                json.dump({'site': key, 'file': path, 'function': qual, 'skeleton': cur_skel,
                           'holes': cur_holes}, f, indent=1)
            holes_by_site[key] = cur_holes
            continue
        with open(skel_file) as f:
            ref = json.load(f)
        if fn is None:
            report['missing'].append(key)
            report['shape_mismatch'].append({'site': key, 'file': path, 'function': qual, 'reason': 'function not found'})
            holes_by_site[key] = ref['holes']
        elif cur_skel != ref['skeleton']:
            report['shape_mismatch'].append({'site': key, 'file': path, 'function': qual, 'reason': 'restructured'})
            holes_by_site[key] = ref['holes']
        else:
            holes_by_site[key] = cur_holes
            for k, (a, b) in enumerate(zip(ref['holes'], cur_holes)):
                if a != b:
                    report['hole_changes'].append({'site': key, 'file': path, 'function': qual,
                                                   'hole': k, 'reference': a, 'current': b})
    used = {}
    try:
        from tables import extra_modules  # literal tables, print sites, CLI flow
    except Exception:  # pragma: no cover - tables module is optional during bootstrap
        extra_modules = None
    outputs = {}
    for mod, fname in MODULES.items():
        try:
            outputs[fname] = render(TEMPLATES[mod], holes_by_site, used)
        except TranslateError as e:
            report['errors'].append(f"{mod}: {e}")
    if extra_modules is not None:
        try:
            outputs.update(extra_modules(root, report, record))
        except Exception as e:
            report['errors'].append(f"{type(e).__name__}: {e}")
    # a changed hole that no template reads is behaviour the Lean model does not see
    for ch in report['hole_changes']:
        if ch['hole'] not in used.get(ch['site'], set()):
            report['unmodelled_hole_change'].append(ch)
    for fname, text in outputs.items():
        p = os.path.join(out, fname)
        old = None
        if os.path.exists(p):
            with open(p, encoding='utf-8') as f:
                old = f.read()
        if old != text:
            with open(p, 'w', encoding='utf-8') as f:
                f.write(text)
            report['written'].append(fname)
    report['digest'] = hashlib.sha256(json.dumps(outputs, sort_keys=True).encode()).hexdigest()[:16]
    print(json.dumps(report, indent=1))
    return 1 if report['errors'] else 0


if __name__ == '__main__':
    sys.path.insert(0, HERE)
    sys.exit(main())
