"""Correspondence for the binary64 model (`Model/SoftFloat.lean`, the function `sfAlg`'s theorems are about):
CPython's `*`, `/` (int/int and float/float) and `<=` on finite non-negative doubles vs `SF.mul` / `SF.ratio` / `≤` on units (and Lean's hardware Float),
bit for bit.  Inputs: probabilities of the shape rulesets contain (count/total), products of them, exact
half-way products (ties to even), values around the normal/denormal border, underflow to zero, 1 ulp
neighbours, random significands over the whole exponent range below 1."""
import math
import struct

import common


def _bits(x):
    return struct.unpack('>Q', struct.pack('>d', x))[0]


def _from_bits(b):
    return struct.unpack('>d', struct.pack('>Q', b))[0]


def gen_pairs(rng, n):
    pairs, kinds = [], {}

    def add(kind, a, b):
        if 0.0 <= a <= 1.0 and 0.0 <= b <= 1.0:
            pairs.append((a, b))
            kinds[kind] = kinds.get(kind, 0) + 1
    fixed = [(0.0, 0.5), (1.0, 1.0), (1.0, 0.1), (5e-324, 0.5), (5e-324, 0.75), (1.5e-323, 0.5), (5e-324, 1.0),
             (2.2250738585072014e-308, 0.5), (2.2250738585072014e-308, 0.9999999999999999), (2.225073858507201e-308, 1.0),
             (0.1, 0.1), (0.3, 0.4), (0.4, 0.3), (1e-200, 1e-200), (1e-160, 1e-164), (0.9999999999999999, 0.9999999999999999)]
    for a, b in fixed:
        add('fixed', a, b)
    while len(pairs) < n:
        k = rng.randrange(8)
        if k == 0:      # relative frequencies and their products
            t = rng.randrange(1, 5000)
            t2 = rng.randrange(1, 5000)
            add('count/total', rng.randrange(0, t + 1) / t, rng.randrange(0, t2 + 1) / t2)
        elif k == 1:    # product chains
            a = 1.0
            for _ in range(rng.randrange(1, 8)):
                t = rng.randrange(1, 300)
                a = a * (rng.randrange(1, t + 1) / t)
            t = rng.randrange(1, 300)
            add('chain', a, rng.randrange(1, t + 1) / t)
        elif k == 2:    # exact half-way products: (1 + j 2^-26)(1 + 2^-27) has the bit below the last place set and nothing after it
            j = rng.randrange(1, 1 << 26)
            s1, s2 = rng.randrange(1, 500), rng.randrange(1, 500)
            add('half-way', math.ldexp(1 + j * 2.0 ** -26, -s1), math.ldexp(1 + 2.0 ** -27, -s2))
        elif k == 3:    # results in the denormal range, ties and near-ties there
            units = rng.randrange(1, 1 << rng.randrange(1, 54))
            add('denormal*dyadic', _from_bits(units), rng.choice([0.5, 0.25, 0.75, 0.375, 0.625, 1.0, 0.1]))
        elif k == 4:    # random significands, product around the normal/denormal border
            e1 = rng.randrange(1, 1022)
            e2 = rng.randrange(max(1, 1000 - e1), max(2, 1100 - e1))
            add('border', math.ldexp(1 + rng.random(), -e1), math.ldexp(1 + rng.random(), -e2))
        elif k == 5:    # random doubles below one, any exponent
            add('random', _from_bits(rng.randrange(0, _bits(1.0) + 1)), _from_bits(rng.randrange(0, _bits(1.0) + 1)))
        elif k == 6:    # one-ulp neighbours of a product's operands
            t = rng.randrange(2, 1000)
            a = rng.randrange(1, t) / t
            b = rng.randrange(1, t) / t
            add('ulp-neighbour', math.nextafter(a, rng.choice([0.0, 1.0])), math.nextafter(b, rng.choice([0.0, 1.0])))
        else:           # total underflow
            add('underflow', math.ldexp(1 + rng.random(), -rng.randrange(540, 1000)), math.ldexp(1 + rng.random(), -rng.randrange(540, 1000)))
    return pairs, kinds


def run(ctx, n_quick=1500, n_thorough=40000):
    """returns (disagreements, info)"""
    rng = ctx.rng
    pairs, kinds = gen_pairs(rng, ctx.scale(n_quick, n_thorough))
    ops, exp = [], []
    for a, b in pairs:
        ops.append(f"fp.mul {common.f2h(a)} {common.f2h(b)}")
        h = common.f2h(a * b)
        exp.append(f"{h} {h}")
        ops.append(f"fp.le {common.f2h(a)} {common.f2h(b)}")
        t = 'true' if a <= b else 'false'
        exp.append(f"{t} {t}")
    for _ in range(ctx.scale(200, 3000)):
        xs = []
        for _ in range(rng.randrange(2, 9)):
            t = rng.randrange(1, 400)
            xs.append(rng.randrange(1, t + 1) / t if rng.random() < 0.8 else math.ldexp(rng.random(), -rng.randrange(0, 300)))
        acc = xs[0]
        for x in xs[1:]:
            acc = acc * x
        ops.append('fp.fold ' + ' '.join(common.f2h(x) for x in xs))
        h = common.f2h(acc)
        exp.append(f"{h} {h}")
    # division: Python int / int (relative frequencies count / total, also beyond 2^53) and float / float (the base-structure list,
    # whose total contains the fractional Markov pseudo-count)
    kinds['int/int'] = kinds['float/float'] = 0
    for _ in range(ctx.scale(1200, 30000)):
        r = rng.random()
        if r < 0.6:
            t = rng.randrange(1, rng.choice([10, 1000, 10 ** 6, 10 ** 9]))
            c = rng.randrange(0, t + 1)
        elif r < 0.8:
            t = rng.randrange(1, 1 << rng.randrange(1, 70))
            c = rng.randrange(0, t + 1)
        else:   # quotients that sit next to a rounding boundary: c/t close to k/2^53-ish patterns
            t = (1 << rng.randrange(1, 60)) + rng.choice([-1, 1, 3])
            t = max(t, 1)
            c = rng.randrange(0, t + 1)
        if r < 0.85:
            ops.append(f"fp.ratio {c} {t}")
            h = common.f2h(c / t)
            exp.append(f"{h} {h}" if t < (1 << 53) else f"{h} *")
            kinds['int/int'] += 1
        else:
            n = rng.randrange(1, 5000)
            cov = rng.choice([0.1, 0.3, 0.5, 0.6, 0.75, 0.9, 0.99])
            m = n / cov - n
            total = n + m
            a = float(rng.randrange(0, n + 1)) if rng.random() < 0.7 else m
            if total > 0 and a <= total:
                ops.append(f"fp.div {common.f2h(a)} {common.f2h(total)}")
                h = common.f2h(a / total)
                exp.append(f"{h} {h}")
                kinds['float/float'] += 1
    dis = []
    out = common.run_driver(ops)
    if len(out) != len(exp):
        dis.append({'stream': 'fp', 'detail': f"driver answered {len(out)} lines for {len(exp)} ops"})
    for o, a, b in zip(ops, out, exp):
        if b.endswith(' *'):    # operands beyond 2^53: Lean's Float.ofNat rounds them first, only the SF column is comparable
            a, b = a.split(' ')[0], b.split(' ')[0]
        if a != b:
            dis.append({'stream': 'fp-binary64', 'op': o, 'model': a, 'implementation': b,
                        'note': 'columns: SF model (the function the sfAlg theorems are about), Lean hardware Float; implementation = CPython'})
            if len(dis) >= 5:
                break
    return dis, {'fp_ops': len(ops), 'fp_kinds': kinds}
