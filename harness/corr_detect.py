"""Correspondence of the real trainer detectors / parser with the Lean model (C05, C13, C03)."""
import common
import train_util
from corr_loader import cps


def uenv_ops(strings):
    """dt.cp / dt.lower lines for every character and every substring that occurs in `strings`"""
    ops = []
    chars = set()
    subs = set()
    for s in strings:
        chars.update(s)
        chars.update(s.lower())
        n = len(s)
        for i in range(n):
            for j in range(i + 1, n + 1):
                subs.add(s[i:j])
    # what the detectors' working copy of a string is (the model is given the specification, written out here, not the helper of the
    # tree under test): `str.lower()` of the whole string unless that changes its length; then letter by letter, a letter whose
    # lower-casing is longer than one character staying as it is
    def lower_keep_length(t_):
        lo_ = t_.lower()
        if len(lo_) == len(t_):
            return lo_
        return ''.join(ch.lower() if len(ch.lower()) == 1 else ch for ch in t_)
    lops = []
    for t in sorted(subs):
        lo = t.lower()
        lk = lower_keep_length(t)
        # lower-casing a substring can produce characters its context does not (final sigma): they need their flags too
        chars.update(lo)
        chars.update(lk)
        if lk != t:
            lops.append(f"dt.lower {cps(t)} {cps(lk)}")
        if lo != t:
            lops.append(f"dt.lowerpy {cps(t)} {cps(lo)}")
    for c in sorted(chars):
        f = (1 if c.isalpha() else 0) + (2 if c.isdigit() else 0) + (4 if c.isupper() else 0)
        if f:
            ops.append(f"dt.cp {ord(c)} {f}")
    return ops + lops


def mw_ops(mw):
    """dump of the real trie as the abstract table: word -> count"""
    ops = ['dt.mwclear']

    def walk(node, prefix):
        for k, v in node.items():
            if k == 'count':
                ops.append(f"dt.mw {cps(prefix)} {v}")
            else:
                walk(v, prefix + k)
    walk(mw.lookup, '')
    return ops


def real_parse_line(password, mw):
    """the canonical line for one password from the real detectors"""
    from lib_trainer.detection_rules.keyboard_walk import detect_keyboard_walk
    from lib_trainer.detection_rules.email_detection import email_detection
    from lib_trainer.detection_rules.website_detection import website_detection
    from lib_trainer.detection_rules.year_detection import year_detection
    from lib_trainer.detection_rules.context_sensitive_detection import context_sensitive_detection
    from lib_trainer.detection_rules.alpha_detection import alpha_detection
    from lib_trainer.detection_rules.digit_detection import digit_detection
    from lib_trainer.detection_rules.other_detection import other_detection
    from lib_trainer.base_structure import base_structure_creation
    secs, walks, _ = detect_keyboard_walk(password)
    emails, providers = email_detection(secs)
    urls, hosts, prefixes = website_detection(secs)
    years = year_detection(secs)
    ctxs = context_sensitive_detection(secs)
    alphas, masks = alpha_detection(secs, mw)
    digits = digit_detection(secs)
    others = other_detection(secs)
    sup, st = base_structure_creation(secs)

    def lst(tag, xs):
        return ' '.join([tag] + [cps(x) for x in xs])
    line = ' | '.join([
        ' '.join(['sec'] + [f"{cps(t)}:{l}" for t, l in secs]),
        lst('walks', walks), lst('years', years), lst('ctx', ctxs), lst('alpha', alphas), lst('masks', masks),
        lst('digits', digits), lst('other', others),
        ' '.join(['emails'] + [f"{cps(e)},{cps(p)}" for e, p in zip(emails, providers)]),
        ' '.join(['webs'] + [f"{cps(u)},{cps(h)},{cps(p) if p is not None else 'None'}" for u, h, p in zip(urls, hosts, prefixes)]),
        f"struct {st} {1 if sup else 0}"])
    return line, secs, dict(walks=walks, years=years, ctx=ctxs, alpha=alphas, masks=masks, digits=digits, other=others,
                            emails=emails, providers=providers, urls=urls, hosts=hosts, prefixes=prefixes, supported=sup, structure=st)
