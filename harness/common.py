"""Shared plumbing for the verification harness: snapshot of /repo's working tree, synthetic
ruleset writer (the trainer's on-disk format), Lean driver runner, float <-> bit helpers."""
import atexit
import configparser
import json
import os
import shutil
import struct
import subprocess
import sys
import tempfile

VERIF = os.path.dirname(os.path.dirname(os.path.abspath(__file__)))
REPO = os.environ.get('VERIF_REPO', '/repo')
LEAN_PROJ = os.path.join(VERIF, 'lean', 'PcfgVerif')
GUARD = 'PCFG_CRACKER_VERIF'

_scratch_root = None


def scratch_root():
    """one scratch directory per process, outside /repo and /verif, removed at exit"""
    global _scratch_root
    if _scratch_root is None:
        base = os.environ.get('VERIF_SCRATCH')
        if not base:
            base = '/dev/shm' if os.path.isdir('/dev/shm') and os.access('/dev/shm', os.W_OK) else tempfile.gettempdir()
        _scratch_root = tempfile.mkdtemp(prefix='pcfgverif-', dir=base)
        atexit.register(lambda: shutil.rmtree(_scratch_root, ignore_errors=True))
    return _scratch_root


def scratch_dir(name):
    p = os.path.join(scratch_root(), name)
    os.makedirs(p, exist_ok=True)
    return p


_snapshot = None


def snapshot():
    """copy of /repo's current working tree (no .git, no shipped Rules, no docs)"""
    global _snapshot
    if _snapshot is None:
        dst = os.path.join(scratch_root(), 'snap')

        def ignore(d, names):
            if os.path.abspath(d) == os.path.abspath(REPO):
                return [n for n in names if n in ('.git', 'Rules', 'docs', '.pytest_cache')]
            return [n for n in names if n == '__pycache__']
        shutil.copytree(REPO, dst, ignore=ignore)
        os.makedirs(os.path.join(dst, 'Rules'), exist_ok=True)
        _snapshot = dst
    return _snapshot


def use_impl():
    """make the snapshot importable (the real code is then called in-process)"""
    snap = snapshot()
    if snap not in sys.path:
        sys.path.insert(0, snap)
    os.environ[GUARD] = '1'
    return snap


# ------------------------------------------------------------------------------------------------
# floats

def f2h(x):
    return struct.pack('>d', float(x)).hex()


def h2f(h):
    return struct.unpack('>d', bytes.fromhex(h))[0]


# ------------------------------------------------------------------------------------------------
# synthetic rulesets in the trainer's on-disk format

FOLDER = {'A': 'Alpha', 'C': 'Capitalization', 'D': 'Digits', 'O': 'Other', 'K': 'Keyboard',
          'X': 'Context', 'Y': 'Years'}
SECTION = {'A': 'BASE_A', 'D': 'BASE_D', 'O': 'BASE_O', 'K': 'BASE_K', 'X': 'BASE_X', 'Y': 'BASE_Y',
           'C': 'CAPITALIZATION'}

DEFAULT_OMEN = {
    'ngram': 2, 'alphabet': ['a', 'b'],
    'ip': [[0, 'a'], [1, 'b']], 'ep': [[0, 'a'], [0, 'b']],
    'cp': [[0, 'aa'], [1, 'ab'], [1, 'ba'], [2, 'bb']],
    'ln': [0, 0, 1], 'keyspace': [[1, 3], [2, 5]],
}


def write_lines(path, lines, encoding, final_newline=True):
    os.makedirs(os.path.dirname(path), exist_ok=True)
    with open(path, 'wb') as f:
        for i, ln in enumerate(lines):
            end = '' if (not final_newline and i == len(lines) - 1) else '\n'
            f.write((ln + end).encode(encoding, errors='surrogateescape'))


def write_ruleset(path, spec):
    """spec = {encoding, uuid, version, terminals: {'A3': [[value, probtext], ...], ...},
               grammar: [[structure, probtext], ...], prince: [...], omen_prob: [[level, probtext]],
               emails: [...], websites: [...], omen: {...}}
    Lines are written in the given order with the given probability text (the loaders see exactly
    what a trainer-written file with those numbers would contain)."""
    enc = spec.get('encoding', 'utf-8')
    if os.path.exists(path):
        shutil.rmtree(path)
    os.makedirs(path)
    files = {k: [] for k in SECTION}
    nf = set(spec.get('no_final_newline', []))
    for name, items in spec.get('terminals', {}).items():
        cat, num = name[0], name[1:]
        fn = f"{num}.txt"
        decoy = spec.get('decoy_files', {}).get(name)
        if decoy:
            # a second file that maps to the same variable (the name is the file name up to its first dot), listed first: the file
            # listed last is the one that counts
            dfn = f"{num}.old.txt"
            files[cat].append(dfn)
            write_lines(os.path.join(path, FOLDER[cat], dfn), [f"{v}\t{p}" for v, p in decoy], enc)
        files[cat].append(fn)
        if name in spec.get('listed_twice', []):
            # the file list of a section names the same file twice (two lists merged by hand): loading a file again replaces what
            # the first loading put under the variable
            files[cat].append(fn)
        write_lines(os.path.join(path, FOLDER[cat], fn), [f"{v}\t{p}" for v, p in items], enc, final_newline=name not in nf)
        if name in spec.get('blank_last_line', []):
            # an empty line after the last record (what an editor leaves behind): a line without a value that is followed by nothing
            with open(os.path.join(path, FOLDER[cat], fn), 'ab') as f_:
                f_.write(b'\n')
    for cat in FOLDER:
        os.makedirs(os.path.join(path, FOLDER[cat]), exist_ok=True)
    # flat lists always exist in trainer output (possibly empty)
    for cat in ('X', 'Y'):
        if '1.txt' not in files[cat]:
            write_lines(os.path.join(path, FOLDER[cat], '1.txt'), [], enc)
        files[cat] = ['1.txt']
    write_lines(os.path.join(path, 'Grammar', 'grammar.txt'), [f"{s}\t{p}" for s, p in spec.get('grammar', [])], 'ascii',
                final_newline='grammar' not in nf)
    write_lines(os.path.join(path, 'Grammar', 'raw_grammar.txt'), [f"{s}\t{p}" for s, p in spec.get('raw_grammar', spec.get('grammar', []))], 'ascii')
    write_lines(os.path.join(path, 'Prince', 'grammar.txt'), [f"{s}\t{p}" for s, p in spec.get('prince', [])], 'ascii')
    write_lines(os.path.join(path, 'Emails', 'email_providers.txt'), [f"{v}\t{p}" for v, p in spec.get('emails', [])], enc)
    write_lines(os.path.join(path, 'Websites', 'website_hosts.txt'), [f"{v}\t{p}" for v, p in spec.get('websites', [])], enc)
    write_lines(os.path.join(path, 'Websites', 'website_prefixes.txt'), [], enc)
    om = spec.get('omen', DEFAULT_OMEN)
    od = os.path.join(path, 'Omen')
    write_lines(os.path.join(od, 'IP.level'), [f"{l}\t{s}" for l, s in om['ip']], enc)
    write_lines(os.path.join(od, 'EP.level'), [f"{l}\t{s}" for l, s in om['ep']], enc)
    write_lines(os.path.join(od, 'CP.level'), [f"{l}\t{s}" for l, s in om['cp']], enc)
    write_lines(os.path.join(od, 'LN.level'), [str(l) for l in om['ln']], 'ascii')
    write_lines(os.path.join(od, 'alphabet.txt'), list(om['alphabet']), enc)
    write_lines(os.path.join(od, 'omen_keyspace.txt'), [f"{l}\t{k}" for l, k in om['keyspace']], enc)
    write_lines(os.path.join(od, 'pcfg_omen_prob.txt'), [f"{l}\t{p}" for l, p in spec.get('omen_prob', [])], enc,
                final_newline='omen_prob' not in nf)
    cfg = configparser.ConfigParser()
    cfg.add_section('training_settings')
    cfg.set('training_settings', 'ngram', str(om['ngram']))
    cfg.set('training_settings', 'encoding', enc)
    with open(os.path.join(od, 'config.txt'), 'w') as f:
        cfg.write(f)
    cfg = configparser.ConfigParser()
    cfg.add_section('TRAINING_PROGRAM_DETAILS')
    cfg.set('TRAINING_PROGRAM_DETAILS', 'version', spec.get('version', '4.7'))
    cfg.add_section('TRAINING_DATASET_DETAILS')
    cfg.set('TRAINING_DATASET_DETAILS', 'encoding', enc)
    cfg.set('TRAINING_DATASET_DETAILS', 'uuid', spec.get('uuid', '00000000-0000-0000-0000-000000000001'))
    for cat, sec in SECTION.items():
        cfg.add_section(sec)
        cfg.set(sec, 'name', cat)
        cfg.set(sec, 'directory', FOLDER[cat])
        cfg.set(sec, 'filenames', json.dumps(files[cat]))
    with open(os.path.join(path, 'config.ini'), 'w') as f:
        cfg.write(f)
    return path


def load_grammar(ruledir, skip_brute=False, skip_case=False, folder='Grammar', save_file=None, version='4.7', **_ignored):
    """the real PcfgGrammar built from a ruleset directory"""
    use_impl()
    from lib_guesser.pcfg_grammar import PcfgGrammar
    import io
    import contextlib
    err = io.StringIO()
    with contextlib.redirect_stderr(err):
        g = PcfgGrammar(os.path.basename(ruledir), ruledir, version, save_file=save_file,
                        skip_brute=skip_brute, skip_case=skip_case, base_structure_folder=folder)
    # a loaded grammar whose base structures name a variable that has no list cannot be run at all (every later step raises
    # KeyError): report it with the files that produce it instead of crashing somewhere downstream
    for b in g.base:
        for r in b['replacements']:
            if r not in g.grammar:
                raise ImplFailure({'kind': 'base-structure-refers-to-missing-variable', 'variable': r,
                                   'replacements': list(b['replacements']),
                                   'witness': {'grammar_text': _read_text(os.path.join(ruledir, folder, 'grammar.txt')),
                                               'variables_on_disk': sorted(k for k in g.grammar), 'skip_brute': skip_brute,
                                               'skip_case': skip_case}})
    return g


class ImplFailure(Exception):
    """the implementation produced an unusable state; `violation` describes the concrete input"""
    def __init__(self, violation):
        super().__init__(violation.get('kind'))
        self.violation = violation


def _read_text(path):
    try:
        return open(path, encoding='utf-8', errors='replace').read()[:2000]
    except OSError:
        return None


# ------------------------------------------------------------------------------------------------
# Lean side

def driver_path():
    return os.path.join(LEAN_PROJ, '.lake', 'build', 'bin', 'driver')


def run_driver(lines, timeout=600):
    """pipe protocol lines through the compiled Lean driver; returns the answer lines"""
    inp = '\n'.join(lines) + '\n'
    p = subprocess.run([driver_path()], input=inp.encode('utf-8'), stdout=subprocess.PIPE,
                       stderr=subprocess.PIPE, timeout=timeout)
    if p.returncode != 0:
        raise RuntimeError(f"driver failed rc={p.returncode}: {p.stderr.decode(errors='replace')[:500]}")
    out = p.stdout.decode('utf-8').split('\n')
    if out and out[-1] == '':
        out.pop()
    return out


# ------------------------------------------------------------------------------------------------
# running the real trainer in-process

def train(training_file, ruledir, encoding='utf-8', ngram=4, coverage=0.6, alphabet_size=100,
          prefixcount=False, save_sensitive=False, multiword=False, max_len=21, capture=True, keep=False):
    """run_trainer() of the snapshot on a training file; returns (ok, captured stdout)"""
    use_impl()
    import io
    import contextlib
    from lib_trainer.run_trainer import run_trainer
    from lib_trainer.trainer_file_output import create_rule_folders
    info = {
        'name': 'PCFG Trainer', 'version': '4.7', 'author': 'x', 'contact': 'x',
        'rule_name': os.path.basename(ruledir), 'training_file': training_file, 'encoding': encoding,
        'comments': '', 'save_sensitive': save_sensitive, 'prefixcount': prefixcount, 'ngram': ngram,
        'alphabet_size': alphabet_size,
        'alphabet': 'abcdefghijklmnopqrstuvwxyzABCDEFGHIJKLMNOPQRSTUVWXYZ0123456789!.*@-_$#<?',
        'smoothing': 0.01, 'coverage': coverage, 'max_len': max_len, 'multiword': multiword,
    }
    if os.path.exists(ruledir) and not keep:     # keep=True: train over an existing ruleset of the same name, as trainer.py does
        shutil.rmtree(ruledir)
    buf = io.StringIO()
    with contextlib.redirect_stdout(buf), contextlib.redirect_stderr(buf):
        if not create_rule_folders(ruledir):
            return False, buf.getvalue()
        ok = run_trainer(info, ruledir)
    return bool(ok), buf.getvalue()


# ------------------------------------------------------------------------------------------------
# running the real command line tools in the snapshot

def install_ruleset(spec_or_dir, name):
    """put a ruleset under <snapshot>/Rules/<name> (the CLIs resolve rules relative to their file)"""
    snap = snapshot()
    dst = os.path.join(snap, 'Rules', name)
    if isinstance(spec_or_dir, dict):
        write_ruleset(dst, spec_or_dir)
    else:
        if os.path.exists(dst):
            shutil.rmtree(dst)
        shutil.copytree(spec_or_dir, dst)
    return dst


def run_cli(script, args, stdin='pipe-open', input_bytes=None, timeout=120, env_extra=None):
    """stdin: 'pipe-open' (a pipe that stays open and silent), 'pipe-eof' (closed at once), 'devnull',
    'closed' (fd 0 closed), 'pipe-input' (input_bytes then the pipe stays open),
    'pipe-input-eof' (input_bytes then EOF).  Returns (stdout bytes, stderr bytes, returncode)."""
    snap = snapshot()
    env = dict(os.environ)
    env['PYTHONIOENCODING'] = 'utf-8'
    env.pop('PYTHONUNBUFFERED', None)      # the consumer is a pipe: stdout is block-buffered, as it is under a cracker
    env['PYTHONHASHSEED'] = env.get('PYTHONHASHSEED', '0')
    env[GUARD] = '1'
    if env_extra:
        env.update(env_extra)
    cmd = [sys.executable, os.path.join(snap, script)] + list(args)
    kw = dict(stdout=subprocess.PIPE, stderr=subprocess.PIPE, cwd=snap, env=env)
    if stdin == 'devnull':
        p = subprocess.Popen(cmd, stdin=subprocess.DEVNULL, **kw)
        out, err = p.communicate(timeout=timeout)
        return out, err, p.returncode
    if stdin in ('tty', 'tty-input'):
        # a pseudo-terminal as standard input (a silent terminal, or one where the user types lines)
        import pty
        master, slave = pty.openpty()
        try:
            p = subprocess.Popen(cmd, stdin=slave, **kw)
            os.close(slave)
            if stdin == 'tty-input' and input_bytes:
                os.write(master, input_bytes)
            out, err = p.communicate(timeout=timeout)
            return out, err, p.returncode
        finally:
            try:
                os.close(master)
            except OSError:
                pass
    if stdin == 'closed':
        p = subprocess.Popen(cmd, stdin=None, close_fds=True, preexec_fn=lambda: os.close(0), **kw)
        out, err = p.communicate(timeout=timeout)
        return out, err, p.returncode
    p = subprocess.Popen(cmd, stdin=subprocess.PIPE, **kw)
    try:
        if stdin in ('pipe-input', 'pipe-input-eof') and input_bytes:
            p.stdin.write(input_bytes)
            p.stdin.flush()
        if stdin in ('pipe-eof', 'pipe-input-eof'):
            p.stdin.close()
        # read both pipes to the end without closing stdin
        import threading
        bufs = {}

        def rd(name, f):
            bufs[name] = f.read()
        ts = [threading.Thread(target=rd, args=('out', p.stdout)), threading.Thread(target=rd, args=('err', p.stderr))]
        for t in ts:
            t.start()
        p.wait(timeout=timeout)
        for t in ts:
            t.join(timeout=10)
        return bufs.get('out', b''), bufs.get('err', b''), p.returncode
    finally:
        try:
            if p.poll() is None:
                p.kill()
            if p.stdin and not p.stdin.closed:
                p.stdin.close()
        except Exception:
            pass


def run_cli_quit(script, args, after_bytes=1, quit_line=b'q\n', timeout=120, env_extra=None):
    """run a CLI with stdin a pipe; once `after_bytes` bytes of stdout have arrived, write `quit_line` to it (the user types q while
    guesses are flowing).  Returns (stdout bytes, stderr bytes, returncode).  Where the quit lands is up to the scheduler; the
    caller judges what is true for every landing point."""
    import threading
    snap = snapshot()
    env = dict(os.environ)
    env['PYTHONIOENCODING'] = 'utf-8'
    env.pop('PYTHONUNBUFFERED', None)      # the consumer is a pipe: stdout is block-buffered, as it is under a cracker
    env['PYTHONHASHSEED'] = env.get('PYTHONHASHSEED', '0')
    env[GUARD] = '1'
    if env_extra:
        env.update(env_extra)
    cmd = [sys.executable, os.path.join(snap, script)] + list(args)
    p = subprocess.Popen(cmd, stdin=subprocess.PIPE, stdout=subprocess.PIPE, stderr=subprocess.PIPE, cwd=snap, env=env)
    bufs = {'err': b''}

    def rd_err():
        bufs['err'] = p.stderr.read()
    t = threading.Thread(target=rd_err)
    t.start()
    out = b''
    sent = False
    try:
        while True:
            chunk = p.stdout.read1(65536) if hasattr(p.stdout, 'read1') else p.stdout.read(4096)
            if not chunk:
                break
            out += chunk
            if not sent and len(out) >= after_bytes:
                sent = True
                try:
                    p.stdin.write(quit_line)
                    p.stdin.flush()
                except OSError:
                    pass
        p.wait(timeout=timeout)
        t.join(timeout=10)
        return out, bufs['err'], p.returncode
    finally:
        try:
            if p.poll() is None:
                p.kill()
            if p.stdin and not p.stdin.closed:
                p.stdin.close()
        except Exception:
            pass
