#!/usr/bin/env python3
"""Entry point behind /verif/check.

    check <ID> [--tier quick|thorough] [--replay FILE]

1. snapshot /repo's working tree;  2. translate (source -> Generated/*.lean);  3. lake build + axiom
audit of Properties/<ID>.lean;  4. correspondence (model driver vs. implementation);  5. property
oracle on the implementation (always; deeper when 3 or 4 broke);  6. known findings;  7. evidence.
Exit 0: property held on everything explored.  Exit 1: VIOLATION line printed.  Exit 2: timeout /
infrastructure failure.
"""
import argparse
import fcntl
import hashlib
import importlib
import json
import os
import random
import re
import subprocess
import sys
import time
import traceback

HERE = os.path.dirname(os.path.abspath(__file__))
sys.path.insert(0, HERE)
import common  # noqa: E402

VERIF = common.VERIF
PROJ = common.LEAN_PROJ
STD_AXIOMS = {'propext', 'Classical.choice', 'Quot.sound'}
FORBIDDEN = re.compile(r'\bsorry\b|\badmit\b|^axiom\s|native_decide|bv_decide|implemented_by|\bunsafe\s|maxHeartbeats 0', re.M)


def log(*a):
    print(*a, file=sys.stderr, flush=True)


class Ctx:
    def __init__(self, pid, tier, seed):
        self.pid, self.tier, self.seed = pid, tier, seed
        self.rng = random.Random(f"{pid}-{seed}")
        self.quick = tier == 'quick'
        self.translate = {}
        self.proof_broken = []      # list of reasons
        self.tie_notes = []
        self.t0 = time.time()

    def scale(self, q, t):
        return q if self.quick else t


def strip_comments(src):
    src = re.sub(r'/-.*?-/', '', src, flags=re.S)
    return re.sub(r'--.*', '', src)


def lean_sources_for(module):
    """source files the property module depends on inside the project (transitively)"""
    seen, todo = [], [module]
    while todo:
        m = todo.pop()
        if m in seen:
            continue
        p = os.path.join(PROJ, *m.split('.')) + '.lean'
        if not os.path.exists(p):
            continue
        seen.append(m)
        with open(p, encoding='utf-8') as f:
            for ln in f:
                mm = re.match(r'\s*import\s+(PcfgVerif\.\S+)', ln)
                if mm:
                    todo.append(mm.group(1))
    return [os.path.join(PROJ, *m.split('.')) + '.lean' for m in seen]


def theorems_of(module):
    p = os.path.join(PROJ, *module.split('.')) + '.lean'
    if not os.path.exists(p):
        return []
    src = strip_comments(open(p, encoding='utf-8').read())
    ns = []
    out = []
    for ln in src.split('\n'):
        m = re.match(r'\s*namespace\s+(\S+)', ln)
        if m:
            ns.append(m.group(1))
            continue
        m = re.match(r'\s*end\s+(\S+)\s*$', ln)
        if m and ns and ns[-1] == m.group(1):
            ns.pop()
            continue
        m = re.match(r'\s*(?:private\s+|protected\s+)?theorem\s+([^\s:({\[]+)', ln)
        if m:
            out.append('.'.join(ns + [m.group(1)]))
    return out


def translate_and_build(ctx, module):
    """returns dict(build_ok, errors, theorems, axioms)"""
    res = {'build_ok': False, 'errors': [], 'theorems': [], 'axioms': {}, 'forbidden': []}
    os.makedirs(os.path.join(VERIF, '.locks'), exist_ok=True)
    with open(os.path.join(VERIF, '.locks', 'lake.lock'), 'w') as lk:
        fcntl.flock(lk, fcntl.LOCK_EX)
        snap = common.snapshot()
        p = subprocess.run([sys.executable, os.path.join(HERE, 'translate.py'), snap,
                            os.path.join(PROJ, 'PcfgVerif', 'Generated')], capture_output=True, text=True)
        try:
            ctx.translate = json.loads(p.stdout)
        except Exception:
            ctx.translate = {'errors': ['translator crashed: ' + (p.stderr or p.stdout)[-800:]]}
        if ctx.translate.get('errors'):
            res['errors'] += ['translate: ' + e for e in ctx.translate['errors']]
        t = time.time()
        b = subprocess.run(['lake', 'build', 'driver', module], cwd=PROJ, capture_output=True, text=True)
        res['build_s'] = round(time.time() - t, 2)
        res['build_log'] = (b.stdout + b.stderr)[-6000:]
        drv_ok = os.path.exists(common.driver_path())
        if b.returncode != 0:
            # which part failed?  the driver alone must still build for the correspondence
            d = subprocess.run(['lake', 'build', 'driver'], cwd=PROJ, capture_output=True, text=True)
            drv_ok = d.returncode == 0
            errs = re.findall(r'error: (\S+\.lean):(\d+):(\d+): (.*)', b.stdout + b.stderr)
            for f, ln, col, msg in errs[:20]:
                res['errors'].append(f"{f}:{ln}: {msg[:200]} (in {enclosing_decl(f, int(ln))})")
            if not errs:
                res['errors'].append('lake build failed: ' + (b.stdout + b.stderr)[-400:])
        res['driver_ok'] = drv_ok
        res['build_ok'] = b.returncode == 0
        # audit
        thms = theorems_of(module)
        res['theorems'] = thms
        if res['build_ok'] and thms:
            aud = os.path.join(common.scratch_root(), f'Audit_{ctx.pid}.lean')
            with open(aud, 'w') as f:
                f.write(f"import {module}\n" + ''.join(f"#print axioms {t}\n" for t in thms))
            a = subprocess.run(['lake', 'env', 'lean', aud], cwd=PROJ, capture_output=True, text=True)
            out = a.stdout + a.stderr
            for m in re.finditer(r"'([^']+)' depends on axioms: \[([^\]]*)\]", out):
                res['axioms'][m.group(1)] = [x.strip() for x in m.group(2).replace('\n', ' ').split(',') if x.strip()]
            for m in re.finditer(r"'([^']+)' does not depend on any axioms", out):
                res['axioms'][m.group(1)] = []
            if a.returncode != 0:
                res['errors'].append('audit failed: ' + out[-400:])
        for src in lean_sources_for(module):
            txt = strip_comments(open(src, encoding='utf-8').read())
            for m in FORBIDDEN.finditer(txt):
                res['forbidden'].append(f"{os.path.relpath(src, PROJ)}: {m.group(0).strip()}")
    return res


def enclosing_decl(relfile, line):
    p = os.path.join(PROJ, relfile) if not os.path.isabs(relfile) else relfile
    try:
        lines = open(p, encoding='utf-8').read().split('\n')
    except OSError:
        return '?'
    for i in range(min(line, len(lines)) - 1, -1, -1):
        m = re.match(r'\s*(?:private\s+)?(?:theorem|lemma|def|example|instance)\s+(\S+)?', lines[i])
        if m:
            return m.group(1) or 'example'
    return '?'


def leanchecker(module):
    t = time.time()
    p = subprocess.run(['lake', 'env', 'leanchecker', module], cwd=PROJ, capture_output=True, text=True, timeout=3600)
    return {'ok': p.returncode == 0, 'wall_s': round(time.time() - t, 1), 'tail': (p.stdout + p.stderr)[-300:]}


def load_known():
    p = os.path.join(VERIF, 'known_findings.json')
    if not os.path.exists(p):
        return []
    return json.load(open(p))


def matches(finding, viol):
    """a finding matches a violation when every key of its `match` equals the violation's value"""
    if finding.get('property') != viol.get('property'):
        return False
    for k, v in finding.get('match', {}).items():
        if viol.get(k) != v and viol.get('witness', {}).get(k) != v:
            return False
    return True


def write_replay(pid, payload):
    os.makedirs(os.path.join(VERIF, 'replays'), exist_ok=True)
    blob = json.dumps(payload, sort_keys=True, default=str)
    h = hashlib.sha256(blob.encode()).hexdigest()[:12]
    path = os.path.join('replays', f"{pid}-{h}.json")
    with open(os.path.join(VERIF, path), 'w') as f:
        json.dump(payload, f, indent=1, default=str, sort_keys=True)
    return path


def main():
    ap = argparse.ArgumentParser()
    ap.add_argument('pid')
    ap.add_argument('--tier', default=os.environ.get('VERIF_TIER', 'quick'), choices=['quick', 'thorough'])
    ap.add_argument('--replay')
    args = ap.parse_args()
    seed = int(os.environ.get('VERIF_SEED', '0') or 0)
    ctx = Ctx(args.pid, args.tier, seed)
    try:
        mod = importlib.import_module(f"props.{args.pid}")
    except ModuleNotFoundError:
        log(f"no check for {args.pid}")
        return 2
    lean_module = getattr(mod, 'LEAN_MODULE', f"PcfgVerif.Properties.{args.pid}")

    if args.replay:
        common.use_impl()
        payload = json.load(open(args.replay if os.path.isabs(args.replay) else os.path.join(VERIF, args.replay)))
        viols = mod.replay(ctx, payload)
        for v in viols:
            print(f"VIOLATION property={args.pid} replay={args.replay}")
        print(json.dumps({'replayed': args.replay, 'violations': viols}, indent=1, default=str))
        return 1 if viols else 0

    build = translate_and_build(ctx, lean_module)
    common.use_impl()
    reasons = []
    if not build['build_ok']:
        reasons.append({'kind': 'broken-proof', 'detail': build['errors']})
    if build['forbidden']:
        reasons.append({'kind': 'broken-proof', 'detail': ['forbidden construct: ' + x for x in build['forbidden']]})
    bad_ax = {t: a for t, a in build['axioms'].items() if not set(a) <= STD_AXIOMS}
    if bad_ax:
        reasons.append({'kind': 'broken-proof', 'detail': [f"non-standard axioms: {bad_ax}"]})
    missing_audit = [t for t in build['theorems'] if t not in build['axioms']] if build['build_ok'] else []
    if missing_audit:
        reasons.append({'kind': 'broken-proof', 'detail': [f"no axiom report for {missing_audit}"]})
    if build['build_ok'] and not build['theorems']:
        reasons.append({'kind': 'broken-proof', 'detail': [f"{lean_module} contains no theorem"]})
    checker = None
    if not ctx.quick and build['build_ok']:
        checker = leanchecker(lean_module)
        if not checker['ok']:
            reasons.append({'kind': 'broken-proof', 'detail': ['leanchecker: ' + checker['tail']]})
    # a restructured function falls back to the hand-written model + correspondence
    sites = set(getattr(mod, 'SITES', []))
    for sm in ctx.translate.get('shape_mismatch', []) + ctx.translate.get('unmodelled_hole_change', []):
        if sm['site'] in sites:
            ctx.tie_notes.append(f"translator: {sm['function']} restructured; tie for it is the correspondence only")
    ctx.proof_broken = reasons
    ctx.driver_ok = build.get('driver_ok', False)

    try:
        result = mod.run(ctx)
    except subprocess.TimeoutExpired:
        log('timeout')
        return 2
    except common.ImplFailure as e:
        v = dict(e.violation)
        v['property'] = args.pid
        result = {'evaluations': 1, 'distinct_nontrivial': 0, 'rule': 'stopped at the first unusable state produced by the implementation',
                  'samples': [], 'disagreements': [], 'violations': [v]}
    except Exception:
        traceback.print_exc()
        result = {'evaluations': 0, 'distinct_nontrivial': 0, 'rule': 'crashed', 'samples': [],
                  'disagreements': [{'stream': 'harness', 'detail': traceback.format_exc()[-1500:]}], 'violations': []}

    disagreements = result.get('disagreements', [])
    if disagreements:
        reasons.append({'kind': 'broken-correspondence', 'detail': disagreements[:5]})
    viols = [v for v in result.get('violations', []) if v.get('property', args.pid) == args.pid]
    known = load_known()
    printed = set()
    new_viols = []
    for v in viols:
        v.setdefault('property', args.pid)
        f = next((k for k in known if k.get('status') == 'open' and matches(k, v)), None)
        if f is not None:
            line = f"KNOWN-FINDING: property={args.pid} {f['what']}"
            if line not in printed:
                print(line)
                printed.add(line)
        else:
            new_viols.append(v)
    exit_code = 0
    reported = 0
    seen_keys = set()
    for v in new_viols:
        key = json.dumps({k: v.get(k) for k in ('kind', 'where')}, sort_keys=True)
        if key in seen_keys:
            continue
        seen_keys.add(key)
        path = write_replay(args.pid, {'property': args.pid, 'kind': 'failing-input', 'seed': seed,
                                       'violation': v, 'because': reasons})
        print(f"VIOLATION property={args.pid} replay={path}")
        reported += 1
        exit_code = 1
        if reported >= 5:
            break
    if reasons and not new_viols:
        # proof or correspondence no longer checks and the search found no failing input that is not already recorded: the property is
        # no longer shown to hold.  (A recorded finding never explains a broken obligation: on the unchanged tree every theorem is
        # discharged and every stream agrees with the finding present.)
        path = write_replay(args.pid, {'property': args.pid, 'kind': reasons[0]['kind'], 'seed': seed,
                                       'theorem_or_stream': reasons, 'note': 'no failing input found by the oracle search'})
        print(f"VIOLATION property={args.pid} replay={path} no-failing-input-found")
        exit_code = 1

    nthm = len(build['theorems'])
    discharged = len([t for t in build['theorems'] if t in build['axioms'] and set(build['axioms'][t]) <= STD_AXIOMS]) if build['build_ok'] else 0
    trusted = ['Lean 4.33 kernel', 'axioms: ' + ', '.join(sorted({a for v in build['axioms'].values() for a in v}) or ['none']),
               'harness/translate.py (skeleton + holes extraction)', 'correspondence harness + Driver.lean parsing'] + list(getattr(mod, 'TRUSTED', []))
    cov = {
        'obligations': max(nthm, 1), 'discharged': discharged,
        'checker_cmd': f"cd lean/PcfgVerif && lake build {lean_module} && lake env lean <#print axioms for each theorem>" + ('' if ctx.quick else f" && lake env leanchecker {lean_module}"),
        'trusted_base': trusted,
        'theorems': build['theorems'], 'axioms': build['axioms'],
        'evaluations': int(result.get('evaluations', 0)),
        'distinct_nontrivial': int(result.get('distinct_nontrivial', 0)),
        'rule': result.get('rule', ''), 'samples': result.get('samples', [])[:8] or ['(none)'],
        'traces_validated_against_impl': int(result.get('traces', result.get('evaluations', 0))),
        'distribution': result.get('distribution', {}),
        'translator': {k: ctx.translate.get(k) for k in ('shape_mismatch', 'hole_changes', 'unmodelled_hole_change', 'digest', 'errors')},
        'tie_notes': ctx.tie_notes, 'broken': reasons, 'build_s': build.get('build_s'), 'leanchecker': checker,
        'exhaustive': bool(result.get('exhaustive', False)),
        'known_findings_hit': sorted(printed),
    }
    cov.update(result.get('extra', {}))
    ev = {'property_id': args.pid, 'tier': args.tier, 'seed': seed, 'level': 'proof', 'coverage': cov,
          'assumptions': list(getattr(mod, 'ASSUMPTIONS', [])), 'wall_s': round(time.time() - ctx.t0, 2),
          'violations': len(new_viols) + (1 if exit_code and not new_viols else 0)}
    # runs against a deliberately changed tree (tools/seed_*.py, tools/refac_*.py) write their record elsewhere, so that the evidence
    # directory only ever holds records of runs on the tree as it is
    evdir = os.environ.get('VERIF_EVIDENCE_DIR') or os.path.join(VERIF, 'evidence')
    os.makedirs(evdir, exist_ok=True)
    with open(os.path.join(evdir, f"{args.pid}.json"), 'w') as f:
        json.dump(ev, f, indent=1, default=str)
    log(f"{args.pid} {args.tier}: theorems={nthm} discharged={discharged} cases={cov['evaluations']} nontrivial={cov['distinct_nontrivial']} "
        f"disagreements={len(disagreements)} violations={len(new_viols)} known={len(printed)} wall={ev['wall_s']}s exit={exit_code}")
    return exit_code


if __name__ == '__main__':
    sys.exit(main())
