"""In-process replica of run_trainer's passes, giving access to the real parser objects."""
import contextlib
import io

import common


def first_pass(passwords, ngram=4, alphabet_size=100):
    """real MultiWordDetector and alphabet after pass 1"""
    common.use_impl()
    from lib_trainer.detection_rules.multiword_detector import MultiWordDetector
    from lib_trainer.omen.alphabet_generator import AlphabetGenerator
    mw = MultiWordDetector(threshold=5, min_len=4, max_len=21)
    ag = AlphabetGenerator(alphabet_size, ngram)
    for p in passwords:
        ag.process_password(p)
        mw.train(p)
    return mw, ag.get_alphabet()


def second_pass(passwords, mw, hook=None):
    """real PCFGPasswordParser after parsing every password; hook(password, parser) after each"""
    from lib_trainer.pcfg_password_parser import PCFGPasswordParser
    parser = PCFGPasswordParser(mw)
    buf = io.StringIO()
    with contextlib.redirect_stdout(buf):
        for p in passwords:
            parser.parse(p)
            if hook:
                hook(p, parser)
    return parser


def section_list_of(password, mw):
    """the final section list the real parser builds for one password (replays parse() step by step)"""
    from lib_trainer.detection_rules.keyboard_walk import detect_keyboard_walk
    from lib_trainer.detection_rules.email_detection import email_detection
    from lib_trainer.detection_rules.website_detection import website_detection
    from lib_trainer.detection_rules.year_detection import year_detection
    from lib_trainer.detection_rules.context_sensitive_detection import context_sensitive_detection
    from lib_trainer.detection_rules.alpha_detection import alpha_detection
    from lib_trainer.detection_rules.digit_detection import digit_detection
    from lib_trainer.detection_rules.other_detection import other_detection
    section_list, found_walks, _ = detect_keyboard_walk(password)
    email_detection(section_list)
    website_detection(section_list)
    year_detection(section_list)
    context_sensitive_detection(section_list)
    alpha_detection(section_list, mw)
    digit_detection(section_list)
    other_detection(section_list)
    return section_list
