"""Correspondence of the guesser's loaders with the Lean loader model (C07, C14)."""
import contextlib
import io
import os

import common
from common import f2h

SPECIAL = ['\x0b', '\x0c', '\x1c', '\x1d', '\x1e', '\x1f', '\x85', '\xa0', ' ', ' ', ' ', ' ',
           ' ', ' ', '　', ' ', '​', '﻿', '\x7f', '😀', 'é', 'я']
BAD_PROBS = ['abc', '', 'nan', 'inf', '-1.0', '1_0', ' 0.5', '0.5 ', '1e-400', '0x10', '٠.٥', '0.5\x0b']


def cps(s):
    return '.'.join(str(ord(c)) for c in s) if s else '-'


def try_float(t):
    try:
        return f2h(float(t))
    except Exception:
        return 'x'


def float_ops(text, universal=False):
    """`ld.float` lines for every second field the loader may pass to float()"""
    ops = set()
    lines = text.splitlines() if not universal else text.replace('\r\n', '\n').replace('\r', '\n').split('\n')
    for ln in lines:
        parts = ln.rstrip().split('\t')
        if len(parts) >= 2:
            ops.add(f"ld.float {cps(parts[1])} {try_float(parts[1])}")
    return sorted(ops)


def real_load_terminals(path, enc):
    common.use_impl()
    from lib_guesser import grammar_io
    sec = []
    err = io.StringIO()
    with contextlib.redirect_stderr(err), contextlib.redirect_stdout(err):
        ok = grammar_io._load_from_file(sec, path, enc)
    if not ok:
        return 'fail'
    return ' '.join(['ok'] + [' '.join(['|', f2h(g['prob'])] + [cps(v) for v in g['values']]) for g in sec])


def real_load_base(ruledir, skip, folder='Grammar'):
    common.use_impl()
    from lib_guesser import grammar_io
    out = []
    err = io.StringIO()
    with contextlib.redirect_stderr(err), contextlib.redirect_stdout(err):
        ok = grammar_io._load_base_structures(out, ruledir, skip, folder)
    if not ok:
        return 'fail', None
    return ' '.join(['ok'] + [' '.join(['|', f2h(b['prob'])] + [cps(r) for r in b['replacements']]) for b in out]), out


def decode_file(path, enc):
    with open(path, 'rb') as f:
        return f.read().decode(enc, errors='surrogateescape')


def gen_terminal_text(rng, malformed):
    """text of one terminal file: mostly valid `value<TAB>prob` lines"""
    lines = []
    p = 0.5
    n = rng.randint(0, 8)
    for _ in range(n):
        v = ''.join(rng.choice('abcxyz12#') for _ in range(rng.randint(1, 4)))
        if rng.random() < 0.3:
            k = rng.randint(0, len(v))
            v = v[:k] + rng.choice(SPECIAL if malformed else [' ', '\xa0', 'é', '😀', '　', '​']) + v[k:]
        r0 = rng.random()
        if r0 < 0.45:
            p = p / 2
        elif r0 < 0.6:
            import math
            p = math.nextafter(p, 0.0)          # a distinct double 1 ulp below: its own group, never merged
        elif r0 < 0.65:
            p = rng.choice([3e-17, 2e-17, 1e-17, 5e-324])
        pt = repr(p)
        end = '\n'
        if malformed:
            r = rng.random()
            if r < 0.1:
                pt = rng.choice(BAD_PROBS)
            elif r < 0.15:
                lines.append(v + end)
                continue
            elif r < 0.2:
                lines.append(end)
                continue
            elif r < 0.25:
                end = rng.choice(['\r\n', '\r', '\x0b', ' ', ''])
            elif r < 0.3:
                pt = pt + '\t' + 'extra'
        lines.append(v + '\t' + pt + end)
    return ''.join(lines)


def gen_grammar_text(rng, malformed):
    structs = ['A3D1', 'D2', 'A1A2', 'K4O1', 'Y1', 'X1D1', 'O2A10', 'A3']
    k = rng.randint(0, 5)
    rows = [[rng.choice(structs), repr(rng.choice([0.5, 0.25, 0.125, 0.3, 0.0625]))] for _ in range(k)]
    r = rng.random()
    if r < 0.6 and rows or r < 0.1:
        rows.insert(rng.randint(0, len(rows)), ['M', repr(rng.choice([0.25, 0.5, 0.1, 1.0 if rng.random() < 0.1 else 0.2]))])
    if rng.random() < 0.1:
        rows.append(['M', '0.125'])          # a second M line
    text = ''
    for s, p in rows:
        end = '\n'
        if malformed:
            q = rng.random()
            if q < 0.08:
                p = rng.choice(BAD_PROBS)
            elif q < 0.12:
                s = rng.choice(['1A2', '', 'é2', 'a3', 'A3 D1', 'MM'])
            elif q < 0.16:
                end = rng.choice(['\r\n', '\r', ''])
            elif q < 0.2:
                text += s + end
                continue
        text += s + '\t' + p + end
    return text


def alpha_ops(text):
    return [f"ld.alpha {ord(c)}" for c in sorted(set(text)) if ord(c) > 127 and c.isalpha()]
